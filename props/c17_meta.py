META = {
  "rule":
    "a case is a scenario: 1..3 players (finite iterables of length "
    "0..3*chunk+r or endless generators, chunk sizes 1..8, 1-2 channels), a "
    "control history of 0..10 operations over {pause, play(resume), stop, "
    "idle points, start another player} issued from the main thread, wait "
    "true/false, close() / with-block / double close, and a scheduler seed + "
    "stickiness that fixes the interleaving (every lock / event / start / "
    "join / device call is a yield point; thorough adds a yield point at "
    "every executed line of lazy_io.py). Non-trivial = the scenario ran to a "
    "verdict; distinct = distinct scenario descriptions; distinct "
    "interleavings (sequences of scheduling choices) are counted separately "
    "per shard",
  "assumptions": [
    "with wait=True the generator resumes every paused player and stops every "
    "endless one before closing ('wait for all audio' has no terminating "
    "meaning otherwise)",
    "control operations come from the main thread only; iterables that raise "
    "and integer sample formats with an unpaddable float pad value are not "
    "generated",
    "a player that already unregistered itself and is returning from run() "
    "when close() returns is not an alarm; it must retire without stimulus "
    "during a bounded drain and make no device call after terminate()",
    "AudioIO.__del__ (close from the garbage collector) is disabled in the "
    "harness; the shim replaces lazy_io.threading (Lock/RLock/Event) and wraps "
    "AudioThread.start/run/join; liveness is restated as bounded progress "
    "(6000 logical steps, scenarios need < 400) under a fair random scheduler "
    "plus exact deadlock detection"],
  "level_text":
    "Runtime monitoring of the real AudioIO/AudioThread code on real threads "
    "under a controlled random scheduler with a recording fake PyAudio "
    "backend: conservation/ordering oracle over the per-stream device log "
    "(chunks are a prefix of the packed iterable + zero padding, complete "
    "when the player was never stopped and close waited), exactly-once close "
    "/ terminate, no call after terminate, play raising after close, exact "
    "deadlock detection and a logical step bound for 'close always returns'. "
    "Thousands of distinct interleavings per run are sampled, not enumerated.",
  "technique": "runtime monitor: controlled random thread scheduler + fake "
               "backend event log (conservation, ordering, exactly-once, "
               "deadlock / bounded progress)",
  "soft_s": {"quick": 60, "thorough": 420},
}

# EXTENSION families added after the seeded-change rounds
META["rule"] += (" Added after the seeded-change rounds: " 'two managers alive at once (closing one must not touch the other); a second control thread calling AudioIO.play while the main thread closes; a free-running (uncontrolled) repetition of the scenarios; line-level yield points' ".")
