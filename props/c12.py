"""C12 - frequency response is the transfer function and matches the time
domain.

Runtime monitor of the real ``freq_response`` (LinearFilter / ZFilter /
CascadeFilter / ParallelFilter), of the real filter call (impulse response,
complex exponential) and of ``dft``.

Oracle (class T of DESIGN.md 3.3, derived bounds - nothing calibrated):

  N(w) = sum_k b_k (cos wk - j sin wk),  D(w) likewise,  H = N / D

  evaluated term by term with math.fsum.  With u = eps/2, n = order:
    * the code evaluates the polynomials by a Horner scheme in complex
      arithmetic at fl(exp(-j w)):  |N_code - N| <= ~4 (n+1) eps sum|b|
    * the reference has a phase rounding fl(w k) (<= 8 * 2 pi * u) plus the
      libm / product / summation roundings:   |N_ref - N| <= ~(27+n) eps sum|b|
    so |N_code - N_ref| <= (5 n + 31) eps sum|b|  <  64 (n+2) eps sum|b|  (the
    same for D) and, to first order,
      |H_code - H_ref| <= 64 (n+2) eps ( sum|b|/|D| + |N| sum|a| / |D|^2 )
    which also covers the rounding of the division (|H| <= |N| sum|a|/|D|^2).
  A frequency is probed only where |D| >= 1e-3 sum|a| ("denominators bounded
  away from zero at the probed frequency"), which keeps the neglected second
  order term below 1e-10 of the bound.

The statement is silent about (so never generated / never compared):
frequencies outside [0, 2 pi), time-varying filters, empty filter banks,
non-callable bank members, NaN propagation through banks, the exact NaN
flavour (float or complex NaN are both accepted), dict / range / numpy
containers, empty dft blocks, the output of the FIR filter before its memory
is full.
"""
import collections
import itertools
import math
import types
from fractions import Fraction

from audiolazy import (CascadeFilter, LinearFilter, ParallelFilter, Stream,
                       ZFilter, dft, z)

ID = "C12"

EPS = 2.0 ** -52
PI = math.pi
GUARD = 1e-3           # |D| >= GUARD * sum|a|
CONTAINERS = ("scalar", "list", "tuple", "deque", "set", "stream",
              "streamcyc", "gen", "map", "filter")
LEAF_CTORS = ("Z", "L", "dict", "zexpr")


# ---------------------------------------------------------------------------
# reference
# ---------------------------------------------------------------------------
def poly_ref(coefs, w):
  """sum_k c_k e^{-jwk}, term by term; returns (value, sum|c_k|)."""
  re, im, ab = [], [], 0.0
  for k, c in enumerate(coefs):
    c = float(c)
    if c == 0.0:
      continue
    ang = w * k
    re.append(c * math.cos(ang))
    im.append(-c * math.sin(ang))
    ab += abs(c)
  return complex(math.fsum(re), math.fsum(im)), ab


def leaf_ref(b, a, w):
  """(H_ref, bound, probed?) of one rational filter at w."""
  N, sb = poly_ref(b, w)
  D, sa = poly_ref(a, w)
  aD = abs(D)
  if aD < GUARD * sa or aD == 0.0:
    return None, None, False
  order = max(len(b), len(a)) - 1
  bound = 64.0 * (order + 2) * EPS * (sb / aD + abs(N) * sa / (aD * aD))
  return N / D, bound, True


def part_ref(part, w):
  """Reference response of a (possibly nested) part description."""
  tag = part[0]
  if tag in ("C", "P"):
    subs = [part_ref(p, w) for p in part[2]]
    if not all(s[2] for s in subs):
      return None, None, False
    n = len(subs)
    if tag == "C":
      H = complex(1.0)
      for s in subs:
        H = H * s[0]
      big = [abs(s[0]) + s[1] for s in subs]
      tot = 1.0
      for g in big:
        tot *= g
      bound = 8.0 * EPS * n * tot
      for i, s in enumerate(subs):
        rest = 1.0
        for j, g in enumerate(big):
          if j != i:
            rest *= g
        bound += s[1] * rest
      return H, bound, True
    H = complex(0.0)
    for s in subs:
      H = H + s[0]
    bound = sum(s[1] for s in subs) + \
            8.0 * EPS * n * sum(abs(s[0]) + s[1] for s in subs)
    return H, bound, True
  _, b, a = part
  return leaf_ref(b, a, w)


def exact_zero_den(part, w):
  """True when the code must see a denominator that is *exactly* zero: leaf
  filter, w == 0 (e^{-j0} is exactly 1), int / dyadic-float coefficients
  (every partial sum exactly representable) whose exact sum is 0."""
  if part[0] in ("C", "P") or w != 0:
    return False
  a = part[2]
  if not all(isinstance(c, (int, float)) for c in a):
    return False
  return sum(Fraction(c) for c in a) == 0


def exact_zero_possible(part, w):
  """Frequencies at which some leaf denominator may round to exactly zero
  (then nothing is claimed unless exact_zero_den says so)."""
  if part[0] in ("C", "P"):
    return any(exact_zero_possible(p, w) for p in part[2])
  return w == 0 and sum(Fraction(c) for c in part[2]) == 0


# ---------------------------------------------------------------------------
# building the real objects from the case description
# ---------------------------------------------------------------------------
def zsum(coefs):
  acc = None
  for k, c in enumerate(coefs):
    term = c * z ** -k
    acc = term if acc is None else acc + term
  return acc


def build(part):
  tag = part[0]
  if tag == "C":
    subs = [build(p) for p in part[2]]
    return CascadeFilter(subs) if part[1] == "list" else CascadeFilter(*subs)
  if tag == "P":
    subs = [build(p) for p in part[2]]
    return ParallelFilter(subs) if part[1] == "list" else ParallelFilter(*subs)
  _, b, a = part
  if tag == "Z":
    return ZFilter(list(b), list(a))
  if tag == "L":
    return LinearFilter(list(b), list(a))
  if tag == "dict":
    return ZFilter(dict(enumerate(b)), dict(enumerate(a)))
  if tag == "zexpr":
    return zsum(b) / zsum(a)
  if tag == "Zfir":          # a == [1]
    return ZFilter(list(b))
  if tag == "zfir":
    return zsum(b)
  raise ValueError(tag)


def counting_gen(ws, counter):
  for w in ws:
    counter[0] += 1
    yield w


def is_nan(v):
  try:
    return v != v
  except Exception:  # noqa
    return False


def as_complex(v):
  # (Fraction: an exact output sample is as good a number as a float)
  if isinstance(v, (int, float, complex, Fraction)) and \
     not isinstance(v, bool):
    return complex(v)
  return None


# ---------------------------------------------------------------------------
# cases
# ---------------------------------------------------------------------------
def rcoef(rng, kind):
  if kind == "int":
    return rng.randint(-8, 8)
  if kind == "dyadic":
    return rng.randint(-8, 8) / float(1 << rng.randint(0, 3))
  if kind == "frac":
    d = rng.randint(1, 6)
    return Fraction(rng.randint(-8 * d, 8 * d), d)
  return rcoef(rng, rng.choice(("int", "dyadic", "frac")))


def rcoefs(rng, n, kind, sparse=False):
  out = [rcoef(rng, kind) for _ in range(n)]
  if sparse:
    out = [c if rng.random() < 0.5 else 0 for c in out]
  return out


def rden(rng, n, kind, mode):
  """Denominator: not all zero; a0 != 0 except in 'shift' mode."""
  while True:
    a = rcoefs(rng, n, kind, sparse=rng.random() < 0.2)
    if mode == "fir":
      return [1]
    if mode == "shift" and n >= 2:
      a[0] = 0
      if any(c != 0 for c in a):
        return a
      continue
    if a[0] == 0:
      a[0] = rng.choice((1, -1, 2, 1))
    if mode == "zerosum":      # exact zero of D at w = 0 (int / dyadic only)
      if n < 2:
        a = a + [0]
      s = sum(Fraction(c) for c in a[:-1])
      last = -s
      a[-1] = int(last) if last.denominator == 1 else float(last)
      if abs(a[-1]) > 8 or a[0] == 0:
        continue
      return a
    return a


def rfreq(rng, L=None):
  r = rng.random()
  if r < 0.10:
    return rng.choice((0, 0.0))
  if r < 0.20:
    return PI
  if r < 0.28:
    return rng.randint(0, 7) * PI / 4
  if r < 0.34 and L:
    return 2 * PI * rng.randint(0, L - 1) / L
  w = rng.random() * 2 * PI
  return w if w < 2 * PI else 0.0


def rfreqs(rng, cont, L=None):
  if cont == "scalar":
    return [rfreq(rng, L)]
  n = rng.choice((0, 1, 1, 2, 3, 4, 6)) if cont not in ("streamcyc",) \
      else rng.randint(1, 4)
  ws = [rfreq(rng, L) for _ in range(n)]
  if cont == "set":           # a set collapses 0 / 0.0 and repeats
    seen, out = set(), []
    for w in ws:
      if w not in seen:
        seen.add(w)
        out.append(w)
    ws = out
  return ws


def rleaf(rng, mode=None):
  kind = rng.choice(("int", "int", "dyadic", "frac", "mixed"))
  if mode is None:
    r = rng.random()
    mode = "fir" if r < 0.12 else "shift" if r < 0.16 else "plain"
  if mode == "zerosum" and kind in ("frac", "mixed"):
    kind = rng.choice(("int", "dyadic"))
  nb = rng.choice((1, 2, 3, rng.randint(1, 9)))
  na = rng.choice((1, 2, 3, rng.randint(1, 9)))
  b = rcoefs(rng, nb, kind, sparse=rng.random() < 0.2)
  if rng.random() < 0.03:
    b = [0] * nb
  a = rden(rng, na, kind, mode)
  ctor = rng.choice(LEAF_CTORS)
  if ctor == "zexpr" and mode == "shift":
    ctor = "Z"
  return (ctor, b, a)


def rbank(rng, tag, depth=0):
  n = rng.choice((1, 2, 2, 3, 3, 4))
  parts = []
  for _ in range(n):
    if depth == 0 and rng.random() < 0.12:
      parts.append(rbank(rng, rng.choice(("C", "P")), depth + 1))
    else:
      parts.append(rleaf(rng, mode=rng.choice(("plain", "plain", "fir"))))
  return (tag, rng.choice(("args", "list")), parts)


def rblock(rng, L):
  kind = rng.choice(("int", "dyadic", "float", "frac", "complex"))
  if kind == "float":
    return [rng.uniform(-8, 8) for _ in range(L)]
  if kind == "complex":
    return [complex(rng.randint(-8, 8) / 4.0, rng.randint(-8, 8) / 4.0)
            for _ in range(L)]
  return rcoefs(rng, L, kind)


def cases(ctx):
  rng = ctx.rng
  # exhaustive sub-space, every run, split over the shards
  i = 0
  grid = [0] + [k * PI / 4 for k in range(1, 8)]
  for b in itertools.product((-1, 0, 1), repeat=3):
    for a in itertools.product((-1, 0, 1), repeat=3):
      if not any(a):
        continue
      if ctx.mine(i):
        ctor = ("Z", "L", "dict")[i % 3] if a[0] == 0 else LEAF_CTORS[i % 4]
        yield ("resp", (ctor, list(b), list(a)), list(grid),
               ("list", "tuple", "gen", "stream", "deque")[(i // 4) % 5],
               ("pos", "kw")[(i // 20) % 2])
      i += 1
  ctx.flag("exhaustive_subspace",
           "freq_response: every b, a in {-1,0,1}^3 (a != 0) at w = k pi/4, "
           "k = 0..7")

  for _ in ctx.loop(80000, 6000000):
    r = rng.random()
    if r < 0.36:
      cont = rng.choice(CONTAINERS + ("scalar", "scalar"))
      yield ("resp", rleaf(rng), rfreqs(rng, cont), cont,
             rng.choice(("pos", "pos", "kw")))
    elif r < 0.44:              # exact zero denominator at w = 0  -> NaN
      cont = rng.choice(CONTAINERS + ("scalar", "scalar"))
      ws = rfreqs(rng, cont)
      zero = rng.choice((0, 0.0, -0.0))
      if cont == "scalar":
        ws = [zero]
      elif cont == "set":
        ws = [zero] + [w for w in ws if w != 0]
      else:
        ws.insert(rng.randint(0, len(ws)), zero)
      yield ("resp", rleaf(rng, mode="zerosum"), ws, cont,
             rng.choice(("pos", "pos", "kw")))
    elif r < 0.60:
      tag = "C" if r < 0.52 else "P"
      cont = rng.choice(CONTAINERS + ("scalar", "scalar", "scalar"))
      yield ("resp", rbank(rng, tag), rfreqs(rng, cont), cont,
             rng.choice(("pos", "pos", "kw")))
    elif r < 0.72:
      nb = rng.choice((1, 2, 3, rng.randint(1, 9)))
      b = rcoefs(rng, nb, rng.choice(("int", "dyadic", "frac", "mixed")),
                 sparse=rng.random() < 0.2)
      ctor = rng.choice(("Z", "L", "Zfir", "zfir", "dict"))
      extra = rng.randint(0, 3)
      ws = [rfreq(rng, nb + extra) for _ in range(rng.randint(1, 3))]
      yield ("imp", (ctor, b, [1]), extra,
             rng.choice(("int", "float", "iter", "stream")),
             rng.choice(("default", "zero0")), ws)
    elif r < 0.82:
      nb = rng.choice((1, 2, 3, rng.randint(1, 9)))
      b = rcoefs(rng, nb, rng.choice(("int", "dyadic", "frac", "mixed")),
                 sparse=rng.random() < 0.2)
      ctor = rng.choice(("Z", "L", "Zfir", "zfir", "dict"))
      yield ("cexp", (ctor, b, [1]), rfreq(rng), rng.randint(1, 12),
             rng.choice(("default", "zero0", "zero0j")))
    elif r < 0.93:
      L = rng.choice((1, 2, 3, 4, 8, rng.randint(1, 24)))
      blk = rblock(rng, L)
      nf = rng.randint(1, 5)
      freqs = [rfreq(rng, L) for _ in range(nf)]
      if rng.random() < 0.4:
        freqs[rng.randrange(nf)] = rng.choice((0, 0.0))
      yield ("dft", blk, freqs, rng.choice((True, False, None)),
             rng.choice(("list", "tuple")))
    else:
      L = rng.randint(1, 16)
      kind = rng.choice(("int", "dyadic"))
      x, y = rcoefs(rng, L, kind), rcoefs(rng, L, kind)
      al, be = rcoef(rng, kind), rcoef(rng, kind)
      freqs = [rfreq(rng, L) for _ in range(rng.randint(1, 3))]
      yield ("dftlin", x, y, al, be, freqs, rng.choice((True, False)))


# ---------------------------------------------------------------------------
# monitor
# ---------------------------------------------------------------------------
def classify_value(got, ref, tol):
  """Mechanism guess for a wrong response (diagnosis only; the caller has
  already established |got - ref| > tol)."""
  try:
    far = abs(got - ref) > 1e6 * tol
    if far and abs(got - ref.conjugate()) <= tol:
      return "value-is-conjugate"
    if far and ref != 0 and \
       abs(got - 1 / ref) <= tol * max(1.0, 1 / abs(ref) ** 2):
      return "value-is-inverse"
  except Exception:  # noqa
    pass
  return "value"


def check_element(ctx, case, part, w, got, where):
  """Compare one returned element with the oracle.  Returns False after
  reporting a violation."""
  bank = part[0] in ("C", "P")
  pre = {"C": "cascade", "P": "parallel"}.get(part[0], "freq_response")
  if exact_zero_den(part, w):
    ctx.count("nan_expected")
    if not is_nan(got):
      ctx.violation(pre + "/not-nan-at-exact-zero-denominator", case, w=w,
                    got=got, where=where)
      return False
    ctx.count("nan_observed")
    return True
  if exact_zero_possible(part, w):
    ctx.count("not_probed:denominator_may_round_to_zero")
    return True
  ref, bound, ok = part_ref(part, w)
  if not ok:
    ctx.count("not_probed:denominator_near_zero")
    return True
  g = as_complex(got)
  if g is None:
    ctx.violation(pre + "/value-type", case, w=w, got=got,
                  type=type(got).__name__, where=where)
    return False
  if is_nan(g) or math.isinf(g.real) or math.isinf(g.imag):
    ctx.violation(pre + "/nan-or-inf-away-from-denominator-zero", case, w=w,
                  got=got, want=ref, where=where)
    return False
  err = abs(g - ref)
  name = {"C": "cascade_vs_product", "P": "parallel_vs_sum"}.get(
    part[0], "H_code_vs_H_ref")
  ctx.err(name, err, bound)
  ctx.count("probe:" + pre)
  if w == 0:
    ctx.count("probe_at_w=0")
  elif w == PI:
    ctx.count("probe_at_w=pi")
  else:
    ctx.count("probe_at_other_w")
  if err > bound:
    if bank:
      key = pre + ("/not-product-of-parts" if part[0] == "C"
                   else "/not-sum-of-parts")
      # diagnosis: does it look like the other combination?
      other = ("P" if part[0] == "C" else "C",) + tuple(part[1:])
      oref, obound, ook = part_ref(other, w)
      looks = bool(ook and abs(g - oref) <= obound)
      ctx.violation(key, case, w=w, got=g, want=ref, err=err, bound=bound,
                    looks_like_other_combination=looks, where=where)
    else:
      ctx.violation("freq_response/" + classify_value(g, ref, bound), case,
                    w=w, got=g, want=ref, err=err, bound=bound, where=where)
    return False
  return True


def run_resp(ctx, case):
  _, part, ws, cont, style = case
  filt = build(part)
  pre = {"C": "cascade", "P": "parallel"}.get(part[0], "freq_response")
  ctx.count("built:" + part[0])
  counter = [0]
  if cont == "scalar":
    arg = ws[0]
  elif cont == "list":
    arg = list(ws)
  elif cont == "tuple":
    arg = tuple(ws)
  elif cont == "deque":
    arg = collections.deque(ws)
  elif cont == "set":
    arg = set(ws)
  elif cont == "stream":
    arg = Stream(list(ws))
  elif cont == "streamcyc":
    arg = Stream(*ws)
  elif cont == "gen":
    arg = counting_gen(ws, counter)
  elif cont == "map":          # the other lazy iterables of the standard
    arg = map(lambda w: w, counting_gen(ws, counter))       # library
  elif cont == "filter":
    arg = filter(lambda w: True, counting_gen(ws, counter))
  else:
    raise ValueError(cont)

  got = filt.freq_response(arg) if style == "pos" else \
        filt.freq_response(freq=arg)
  ctx.count("container:" + cont)
  ctx.count("style:" + style)

  if cont == "scalar":
    return check_element(ctx, case, part, ws[0], got, "scalar")

  # --- kind of the returned container ---------------------------------------
  want_type = {"list": list, "tuple": tuple, "deque": collections.deque,
               "set": set, "stream": Stream, "streamcyc": Stream,
               "gen": types.GeneratorType, "map": types.GeneratorType,
               "filter": types.GeneratorType}[cont]
  exact_type = cont in ("list", "tuple", "deque", "set")
  if (type(got) is not want_type) if exact_type else \
     (not isinstance(got, want_type)):
    ctx.violation("container/%s-comes-back-as-other-kind" % cont.replace(
                    "streamcyc", "stream"), case,
                  got_type=type(got).__name__, want_type=want_type.__name__)
    return True
  if cont in ("gen", "map", "filter"):
    if counter[0] != 0:
      ctx.violation("container/generator-consumed-before-iteration", case,
                    pulls=counter[0])
      return True
    ctx.count("generator_lazy_observed")

  # --- elements -----------------------------------------------------------------
  if cont == "set":
    items = list(got)
    if len(items) > len(ws):
      ctx.violation("container/set-length", case, got=len(items),
                    want_at_most=len(ws))
      return True
    # every frequency the oracle speaks about must be answered by some
    # element; the elements answering none of them can only belong to the
    # frequencies the oracle is silent about (distinct frequencies may share
    # a response, so fewer elements than frequencies is fine)
    used = set()
    silent = 0
    for w in ws:
      if not claimed(part, w):
        check_element(ctx, case, part, w, None, "set")   # counts only
        silent += 1
        continue
      hits = [idx for idx, g in enumerate(items) if element_ok(part, w, g)]
      if not hits:
        # report through the regular path with the closest element
        if check_element(ctx, case, part, w, closest(part, w, items), "set"):
          ctx.violation("container/set-element-missing", case, w=w,
                        got=items)
        return True
      used.update(hits)
      # several elements can qualify (H(w) == H(w + pi) for a filter in
      # z^-2, ...): measure against the closest one
      check_element(ctx, case, part, w,
                    closest(part, w, [items[idx] for idx in hits]), "set")
    if len(items) - len(used) > silent:
      ctx.violation("container/set-extra-element", case, got=items, ws=ws)
    return bool(used)

  if cont == "streamcyc":
    n = 2 * len(ws) + 1
    items = list(itertools.islice(iter(got), n))
    want_ws = list(itertools.islice(itertools.cycle(ws), n))
  else:
    items = list(itertools.islice(iter(got), len(ws) + 3))
    want_ws = list(ws)
  if len(items) != len(want_ws):
    ctx.violation("container/length", case, kind=cont, got=len(items),
                  want=len(want_ws))
    return True
  for idx, (w, g) in enumerate(zip(want_ws, items)):
    if not check_element(ctx, case, part, w, g, "%s[%d]" % (cont, idx)):
      return True
  return bool(want_ws)


def claimed(part, w):
  """Does the oracle say anything about the response at w?"""
  if exact_zero_den(part, w):
    return True
  if exact_zero_possible(part, w):
    return False
  return part_ref(part, w)[2]


def element_ok(part, w, g):
  if exact_zero_den(part, w):
    return is_nan(g)
  if exact_zero_possible(part, w):
    return True
  ref, bound, ok = part_ref(part, w)
  if not ok:
    return True
  c = as_complex(g)
  return c is not None and not is_nan(c) and abs(c - ref) <= bound


def closest(part, w, items):
  ref, bound, ok = part_ref(part, w)
  best, bd = None, None
  for g in items:
    c = as_complex(g)
    if c is None or is_nan(c) or not ok:
      d = float("inf")
    else:
      d = abs(c - ref)
    if bd is None or d < bd:
      best, bd = g, d
  return best


def exact_mean(blk):
  """Exact (rational) mean of a block of int / float / Fraction / complex."""
  re, im = Fraction(0), Fraction(0)
  for v in blk:
    if isinstance(v, complex):
      re += Fraction(v.real)
      im += Fraction(v.imag)
    else:
      re += Fraction(v)
  return re / len(blk), im / len(blk)


def dft_tol(absum, L, w):
  """|dft sum - reference sum|: phase rounding fl(n w) is common to both
  sides; the libm, product and (L-term) summation roundings are not:
  <= (0.71 L + 2.2 + 2) eps sum|x|; taken with a factor >= 4 in hand."""
  return EPS * absum * (2.0 * abs(w) * L + 4.0 * L + 16.0)


def dft_ref(blk, w, normalize):
  re, im, ab = [], [], 0.0
  for n, x in enumerate(blk):
    x = complex(x)
    ang = n * w
    c, s = math.cos(ang), -math.sin(ang)
    re.extend((x.real * c, -x.imag * s))
    im.extend((x.real * s, x.imag * c))
    ab += abs(x)
  v = complex(math.fsum(re), math.fsum(im))
  if normalize:
    v = v / len(blk)
    ab = ab / len(blk)
  return v, ab


def run_imp(ctx, case):
  _, part, extra, inkind, zkind, ws = case
  b = part[1]
  filt = build(part)
  L = len(b) + extra
  if inkind == "float":
    x = [1.0] + [0.0] * (L - 1)
  else:
    x = [1] + [0] * (L - 1)
  src = iter(x) if inkind == "iter" else Stream(x) if inkind == "stream" else x
  out = filt(src) if zkind == "default" else filt(src, zero=0)
  h = list(itertools.islice(iter(out), L + 2))
  ctx.count("impulse_responses")
  if len(h) != L:
    ctx.violation("time/impulse-response-length", case, got=len(h), want=L)
    return True
  habs = 0.0
  for v in h:
    c = as_complex(v)
    if c is None or is_nan(c):
      ctx.violation("time/impulse-response-sample", case, h=h)
      return True
    habs += abs(c)
  got = dft(h, list(ws), normalize=False)
  if not isinstance(got, list) or len(got) != len(ws):
    ctx.violation("dft/result-shape", case, got=got)
    return True
  for w, g in zip(ws, got):
    Hc = filt.freq_response(w)
    ref, bound, ok = leaf_ref(b, [1], w)
    gc, hc = as_complex(g), as_complex(Hc)
    if gc is None or hc is None or is_nan(gc) or is_nan(hc):
      ctx.violation("time/dft-of-impulse-response-vs-freq_response", case,
                    w=w, dft=g, freq_response=Hc)
      return True
    sb = sum(abs(float(c)) for c in b)
    tol = bound + dft_tol(max(habs, sb), L, w) + 4 * EPS * sb
    err = abs(gc - hc)
    ctx.err("dft_of_impulse_response_vs_freq_response", err, tol)
    ctx.count("dft_of_impulse_response_compared")
    if err > tol:
      ctx.violation("time/dft-of-impulse-response-vs-freq_response", case,
                    w=w, dft=gc, freq_response=hc, H_ref=ref, h=h, err=err,
                    tol=tol)
      return True
    # both against the independent reference as well (twice the budget)
    if abs(gc - ref) > tol:
      ctx.violation("time/dft-of-impulse-response-vs-transfer-function", case,
                    w=w, dft=gc, H_ref=ref, h=h, err=abs(gc - ref), tol=tol)
      return True
  return True


def run_cexp(ctx, case):
  _, part, w, more, zkind = case
  b = part[1]
  order = len(b) - 1
  filt = build(part)
  n_tot = order + more
  x = [complex(math.cos(w * n), math.sin(w * n)) for n in range(n_tot)]
  if zkind == "default":
    out = filt(list(x))
  elif zkind == "zero0":
    out = filt(list(x), zero=0)
  else:
    out = filt(iter(x), zero=0j)
  y = list(itertools.islice(iter(out), n_tot + 2))
  ctx.count("complex_exponentials")
  if len(y) != n_tot:
    ctx.violation("time/filter-output-length", case, got=len(y), want=n_tot)
    return True
  Hc = as_complex(filt.freq_response(w))
  ref, bound, ok = leaf_ref(b, [1], w)
  if Hc is None or is_nan(Hc):
    ctx.violation("time/complex-exponential-gain", case, w=w,
                  freq_response=Hc, H_ref=ref)
    return True
  sb = sum(abs(float(c)) for c in b)
  for n in range(order, n_tot):
    yc = as_complex(y[n])
    # |x[n-k] - e^{-jwk} x[n]| <= u w (2n) + 4u;  filter sum: (order+2) u
    tol = bound + EPS * sb * (2.0 * w * n + 4.0 * (order + 2) + 16.0) \
          + 4 * EPS * abs(ref)
    if yc is None or is_nan(yc):
      ctx.violation("time/complex-exponential-gain", case, w=w, n=n, y=y[n])
      return True
    err = abs(yc - Hc * x[n])
    ctx.err("complex_exponential_vs_freq_response", err, tol)
    ctx.count("complex_exponential_samples_compared")
    if err > tol:
      ctx.violation("time/complex-exponential-gain", case, w=w, n=n, y=yc,
                    want=Hc * x[n], freq_response=Hc, H_ref=ref, err=err,
                    tol=tol)
      return True
  return True


def run_dft(ctx, case):
  _, blk, freqs, normalize, blkkind = case
  b = list(blk) if blkkind == "list" else tuple(blk)
  if normalize is None:
    got = dft(b, list(freqs))          # default: normalised
    norm = True
    ctx.count("dft_default_normalize")
  else:
    got = dft(b, list(freqs), normalize)
    norm = normalize
  if not isinstance(got, list) or len(got) != len(freqs):
    ctx.violation("dft/result-shape", case, got=got)
    return True
  L = len(blk)
  for idx, (w, g) in enumerate(zip(freqs, got)):
    ref, ab = dft_ref(blk, w, norm)
    gc = as_complex(g)
    tol = dft_tol(ab, L, w)
    if gc is None or is_nan(gc):
      ctx.violation("dft/defining-sum", case, w=w, got=g, want=ref)
      return True
    err = abs(gc - ref)
    ctx.err("dft_vs_defining_sum", err, tol)
    ctx.count("dft_normalized_compared" if norm
              else "dft_unnormalized_compared")
    if err > tol:
      ctx.violation("dft/defining-sum", case, w=w, index=idx, got=gc,
                    want=ref, normalize=norm, err=err, tol=tol)
      return True
    if norm and w == 0:
      # DC bin of the normalised form == block mean (exact mean, one rounding)
      mre, mim = exact_mean(blk)
      mean = complex(float(mre), float(mim))
      mtol = EPS * ab * (4.0 * L + 16.0)   # derived: (L + 1) / 2
      merr = abs(gc - mean)
      ctx.err("dft_dc_bin_vs_block_mean", merr, mtol)
      ctx.count("dft_dc_bin_compared")
      if merr > mtol:
        ctx.violation("dft/dc-bin-is-not-block-mean", case, index=idx,
                      got=gc, mean=mean, err=merr, tol=mtol)
        return True
  return True


def run_dftlin(ctx, case):
  _, x, y, al, be, freqs, normalize = case
  L = len(x)
  zf = [Fraction(al) * Fraction(p) + Fraction(be) * Fraction(q)
        for p, q in zip(x, y)]
  zz = [float(v) for v in zf]
  if any(Fraction(v) != f for v, f in zip(zz, zf)):   # never for this grid
    return False
  X = dft(list(x), list(freqs), normalize)
  Y = dft(list(y), list(freqs), normalize)
  Z = dft(zz, list(freqs), normalize)
  for got in (X, Y, Z):
    if not isinstance(got, list) or len(got) != len(freqs):
      ctx.violation("dft/result-shape", case, got=got)
      return True
  div = float(L) if normalize else 1.0
  sx = sum(abs(float(v)) for v in x) / div
  sy = sum(abs(float(v)) for v in y) / div
  sz = sum(abs(v) for v in zz) / div
  fa, fb = float(al), float(be)
  for w, gx, gy, gz in zip(freqs, X, Y, Z):
    cx, cy, cz = as_complex(gx), as_complex(gy), as_complex(gz)
    if None in (cx, cy, cz) or is_nan(cx) or is_nan(cy) or is_nan(cz):
      ctx.violation("dft/linearity", case, w=w, X=gx, Y=gy, Z=gz)
      return True
    want = fa * cx + fb * cy
    tol = dft_tol(sz, L, w) + abs(fa) * dft_tol(sx, L, w) + \
          abs(fb) * dft_tol(sy, L, w) + \
          8 * EPS * (abs(fa) * abs(cx) + abs(fb) * abs(cy))
    err = abs(cz - want)
    ctx.err("dft_linearity", err, tol)
    ctx.count("dft_linearity_compared")
    if err > tol:
      ctx.violation("dft/linearity", case, w=w, got=cz, want=want, err=err,
                    tol=tol)
      return True
  return True


def run_case(ctx, case):
  kind = case[0]
  if kind == "resp":
    return run_resp(ctx, case)
  if kind == "imp":
    return run_imp(ctx, case)
  if kind == "cexp":
    return run_cexp(ctx, case)
  if kind == "dft":
    return run_dft(ctx, case)
  if kind == "dftlin":
    return run_dftlin(ctx, case)
  raise ValueError(kind)


def finish(ctx):
  ctx.need("probe:freq_response", 3000)
  ctx.need("probe:cascade", 300)
  ctx.need("probe:parallel", 300)
  ctx.need("probe_at_w=0", 300)
  ctx.need("probe_at_w=pi", 300)
  ctx.need("probe_at_other_w", 3000)
  ctx.need("nan_expected", 200)
  ctx.need("nan_observed", 200)
  for cont in CONTAINERS:
    ctx.need("container:" + cont, 100)
  ctx.need("generator_lazy_observed", 100)
  ctx.need("style:pos", 500)
  ctx.need("style:kw", 500)
  for tag in LEAF_CTORS + ("C", "P"):
    ctx.need("built:" + tag, 100)
  ctx.need("impulse_responses", 300)
  ctx.need("dft_of_impulse_response_compared", 300)
  ctx.need("complex_exponentials", 300)
  ctx.need("complex_exponential_samples_compared", 1000)
  ctx.need("dft_normalized_compared", 300)
  ctx.need("dft_unnormalized_compared", 300)
  ctx.need("dft_dc_bin_compared", 100)
  ctx.need("dft_linearity_compared", 300)


# extension families (second round of seeded changes), see props/c12_x.py
from props import c12_x as _x, ext as _ext
_ext.install(globals(), _x)
