"""C09 - overlap-add is the windowed hop-shifted sum and inverts blocking; the
STFT wrapper windows each block before the user function and passes only the
(stripped) ola_-prefixed options on to the overlap-add callable.

Four case families (all plain data, every library object is built in run_case):

  ("ola", ...)     overlap_add.list on explicit blocks vs the double sum
                   out[n] = sum_k g*w[n-k*h]*B_k[n-k*h] in exact rationals,
                   g computed from its definition in the statement
  ("cola", ...)    ola(blocks(x)) / identity STFT with a window whose shifted
                   copies sum to one returns x on the fully covered samples
  ("stft", ...)    wiring of the wrapper: recording pure-Python stages, a spy
                   around overlap_add.list, three calling styles with overrides
  ("reject", ...)  unknown keyword / ola_ option without overlap-add: refused

Exactness (DESIGN 3.3): samples and windows are dyadic floats k/2^j.  When the
normalisation gain g is a power of two every float operation of a correct
implementation is exact and the comparison is == on Fractions (class D);
otherwise the explicit bound 1e-12*(1+sum|terms|) is used (class T).

Not generated (statement silent / excluded by DESIGN): (m=0 with size=None is
the olaempty family of c09_x.py: nothing may be yielded or raised),
hop>size, an all-zero window under normalisation (g undefined), empty windows,
ola_size different from size, an explicit hop=None in the STFT wrapper, the numpy
strategies (numpy is absent, so transform/inverse_transform/before/after/ola
are always given explicitly).
"""
import math
from collections import deque
import itertools
from fractions import Fraction

from audiolazy import Stream, blocks, overlap_add, stft, window

from vlib.inst import drain, frac

ID = "C09"

OLA_KNOWN = ("size", "hop", "wnd", "normalize")


# --------------------------------------------------------------------------
# oracle
# --------------------------------------------------------------------------
def is_pow2(fr):
  fr = Fraction(fr)
  if fr <= 0:
    return False
  n, d = fr.numerator, fr.denominator
  return (n & (n - 1)) == 0 and (d & (d - 1)) == 0


def small_dyadic(vals):
  for v in vals:
    d = frac(v).denominator
    if d > 4096 or (d & (d - 1)):
      return False
  return True


def strided_sums(wvals, size, hop):
  return [sum((abs(frac(wvals[i])) for i in range(j, size, hop)), Fraction(0))
          for j in range(hop)]


def gain_of(wvals, size, hop, normalize):
  """g of the statement; None when it is undefined (all-zero window)."""
  if not normalize:
    return Fraction(1)
  if wvals is None:
    return Fraction(1, -(-size // hop))      # 1/ceil(size/hop)
  best = max(strided_sums(wvals, size, hop))
  if best == 0:
    return None
  return 1 / best


def ola_expected(blks, size, hop, wvals, g):
  """The double sum, and the sum of the magnitudes of its terms."""
  n_out = len(blks) * hop + size - hop
  out = [Fraction(0)] * n_out
  mag = [Fraction(0)] * n_out
  wf = [Fraction(1)] * size if wvals is None else [frac(w) for w in wvals]
  for k, blk in enumerate(blks):
    base = k * hop
    for i in range(size):
      t = g * wf[i] * frac(blk[i])
      out[base + i] += t
      mag[base + i] += abs(t)
  return out, mag


def blocks_expected(x, size, hop):
  """Blocks of x (zero padded tail), as C08 established them."""
  out = []
  k = 0
  L = len(x)
  while k * hop + size <= L:
    out.append(list(x[k * hop:k * hop + size]))
    k += 1
  real = L - k * hop
  if real > max(size - hop, 0):
    out.append(list(x[k * hop:]) + [0.] * (size - real))
  return out


def to_frac(v):
  """Fraction of an output sample, or None when it is not a finite real."""
  if isinstance(v, (int, float, Fraction)):
    try:
      return frac(v)
    except (ValueError, OverflowError):
      return None
  return None


def compare(ctx, case, key, got, want, mag, exact, errname, lo=0, hi=None,
            **extra):
  """got (raw samples) vs want (Fractions) on [lo, hi).  True when equal."""
  hi = len(want) if hi is None else hi
  for n in range(lo, hi):
    gf = to_frac(got[n])
    if gf is None:
      ctx.violation(key + "/not-a-finite-number", case, index=n,
                    got=repr(got[n]), **extra)
      return False
    if exact:
      if gf != want[n]:
        ctx.violation(key, case, mode="exact", index=n, got=got[n],
                      want=float(want[n]), want_exact=want[n],
                      got_all=got[:60], want_all=[float(w) for w in want[:60]],
                      **extra)
        return False
    else:
      err = abs(gf - want[n])
      tol = Fraction(1, 10 ** 12) * (1 + mag[n])
      ctx.err(errname, float(err), float(tol))
      if err > tol:
        ctx.violation(key, case, mode="toleranced", index=n, got=got[n],
                      want=float(want[n]), err=float(err), tol=float(tol),
                      got_all=got[:60], want_all=[float(w) for w in want[:60]],
                      **extra)
        return False
  return True


# --------------------------------------------------------------------------
# object builders (from plain case data)
# --------------------------------------------------------------------------
def own_window(name, size):
  """Periodic windows from their textbook formulas (independent of the
  library's generated code)."""
  if name == "rect":
    return [1.0] * size
  if name == "hann":
    return [.5 * (1 - math.cos(2 * math.pi * n / size)) for n in range(size)]
  if name == "hamming":
    return [.54 - .46 * math.cos(2 * math.pi * n / size) for n in range(size)]
  if name == "bartlett":
    return [1 - 2.0 / size * abs(n - size / 2.0) for n in range(size)]
  raise ValueError(name)


def wnd_values(spec, size):
  """Sample values of the window described by spec (None: no window)."""
  if spec is None:
    return None
  kind, data = spec
  if kind == "lib":
    return list(window[data](size))
  if kind == "own":
    return own_window(data, size)
  return list(data)


def make_wnd(spec, size, calls):
  """The window object handed to the library."""
  if spec is None:
    return None
  kind, data = spec
  if kind == "lib":
    return window[data]
  if kind == "own":
    return own_window(data, size)
  vals = list(data)
  if kind == "list":
    return list(vals)
  if kind == "tuple":
    return tuple(vals)
  if kind == "gen":
    return (v for v in vals)
  if kind == "stream":
    return Stream(list(vals))
  if kind in ("callable", "callgen"):
    def wfunc(*args, **kwargs):
      calls.append((args, kwargs))
      n = args[0] if args else kwargs.get("size")
      res = list(vals) if n == len(vals) else [.5] * n  # wrong n -> wrong len
      return iter(res) if kind == "callgen" else res
    return wfunc
  raise ValueError(kind)


def wkind(spec):
  if spec is None:
    return "none"
  return {"tuple": "list", "own": "list", "lib": "callable",
          "callgen": "callable", "stream": "gen"}.get(spec[0], spec[0])


def make_blocks(blks, cont, btype, size):
  mk = {"list": list, "tuple": tuple, "deque": deque}[btype]
  items = [mk(b) for b in blks]
  if cont == "list":
    return items
  if cont == "tuple":
    return tuple(items)
  if cont == "deque":
    return deque(items)
  if cont == "gen":
    return (b for b in items)
  if cont == "reuse":       # one deque object refilled, as ``blocks`` does
    def gen():
      dq = deque(maxlen=size)
      for b in blks:
        dq.extend(b)
        yield dq
    return gen()
  raise ValueError(cont)


# -- STFT stages -------------------------------------------------------------
def _seq(blk):
  return blk if isinstance(blk, (list, tuple, deque)) else list(blk)


STAGE_FN = {
  "id": lambda b: b,
  "rev": lambda b: list(b)[::-1],
  "rot": lambda b: list(b)[1:] + list(b)[:1],
  "neg": lambda b: [-v for v in b],
  "dbl": lambda b: [2 * v for v in b],
  "ramp": lambda b: [v * (1 << (i % 3)) for i, v in enumerate(b)],
  "unramp": lambda b: [v / (1 << (i % 3)) for i, v in enumerate(b)],
  "ext": lambda b: list(b) + [sum(b)],
  "unext": lambda b: list(b)[:-1],
  "reversed": lambda b: reversed(b),       # an iterator, as in the docstring
  "decoy": lambda b: b,
}
STAGE_ORDER = ("before", "transform", "func", "inverse_transform", "after")


def make_stage(log, role, sid):
  """Recording stage: logs (role, stage id, snapshot of its input, extra
  positional arguments) and applies the pure function."""
  fn = STAGE_FN[sid]

  def stage(blk, *extra):
    data = _seq(blk)
    log.append((role, sid, list(data), tuple(extra)))
    return fn(data)
  stage.__name__ = "stage_%s_%s" % (role, sid)
  return stage


class OlaSpy(object):
  """Spy around overlap_add.list: records the call, snapshots every block it
  is fed, forwards only the keywords overlap_add.list knows."""
  def __init__(self, name):
    self.name = name
    self.calls = []     # (n positional, kwargs dict)
    self.fed = []       # block snapshots

  def __call__(self, *args, **kwargs):
    self.calls.append((len(args), dict(kwargs)))
    fwd = {k: v for k, v in kwargs.items() if k in OLA_KNOWN}
    if len(args) != 1:
      return overlap_add.list(*args, **fwd)

    def feed():
      for blk in args[0]:
        snap = list(blk)
        self.fed.append(snap)
        yield snap
    return overlap_add.list(feed(), **fwd)


# --------------------------------------------------------------------------
# generators
# --------------------------------------------------------------------------
def rsample(rng):
  return rng.randint(-16, 16) / float(1 << rng.randint(0, 3))


def rsignal(rng, n, ints=False):
  if ints:
    return [rng.randint(-9, 9) for _ in range(n)]
  return [rsample(rng) for _ in range(n)]


def rwindow(rng, size, hop, nonzero_gain, fix_pow2):
  """Dyadic window values; optionally adjusted so that the largest
  hop-strided sum of |w| is a power of two (class D normalisation)."""
  r = rng.random()
  if r < .12:
    vals = [rng.choice([1., .5, .25, 2., -1.])] * size
  elif r < .24:
    vals = [rng.randint(-3, 3) for _ in range(size)]          # ints
  else:
    vals = [rng.randint(-8, 8) / 8. for _ in range(size)]
  if nonzero_gain and not any(vals):
    vals[rng.randrange(size)] = rng.choice([1., .5, -.25])
  if fix_pow2 and any(vals):
    sums = strided_sums(vals, size, hop)
    best = max(sums)
    j = sums.index(best)
    target = Fraction(1, 64)
    while target < best:
      target *= 2
    i = rng.choice(range(j, size, hop))
    sign = -1 if vals[i] < 0 else 1
    vals[i] = sign * float(abs(frac(vals[i])) + target - best)
  return vals


WKINDS = ("list", "tuple", "gen", "callable", "callgen", "stream")


def rwspec(rng, size, hop, normalize_on, kinds=WKINDS):
  vals = rwindow(rng, size, hop, nonzero_gain=normalize_on,
                 fix_pow2=rng.random() < .6)
  return (rng.choice(kinds), vals)


def gen_ola_case(rng, m, size, hop, wclass, norm, size_given):
  blks = [rsignal(rng, size, ints=rng.random() < .15) for _ in range(m)]
  hop_arg = hop
  if hop == size and rng.random() < .5:
    hop_arg = None                    # default hop
  if wclass == "none":
    wspec = None
  elif wclass == "lib":
    wspec = ("lib", rng.choice(["hann", "hamming", "bartlett", "rect",
                                "triangular", "blackman"]))
    if norm is not False and gain_of(wnd_values(wspec, size), size, hop,
                                     True) is None:
      wspec = ("lib", "rect")         # e.g. hann(1) == [0.]: g undefined
  else:
    kinds = {"list": ("list", "tuple"), "callable": ("callable", "callgen"),
             "gen": ("gen", "stream")}[wclass]
    wspec = rwspec(rng, size, hop, norm is not False, kinds)
  cont = rng.choice(["list", "tuple", "deque", "gen", "reuse"])
  btype = rng.choice(["list", "tuple", "deque"])
  style = rng.choice(["kw", "kw", "pos", "item"])
  return ("ola", cont, btype, size, blks, size_given, hop_arg, wspec, norm,
          style)


COLA_SETUPS = [  # (window, divisor of size giving the hop)
  ("rect", 1), ("hann", 2), ("hamming", 2), ("bartlett", 2),
  ("hann", 4), ("hamming", 4), ("bartlett", 4)]


def gen_cola_case(rng):
  wname, div = rng.choice(COLA_SETUPS)
  if div == 1:
    size = rng.randint(1, 12)
  else:
    size = div * rng.choice([1, 2, 3, 4, 5, 6, 8])
  hop = size // div
  L = rng.choice([rng.randint(0, 2 * size), rng.randint(size, 6 * size),
                  rng.randint(size, 6 * size),
                  hop * rng.randint(1, 12) + size - hop])
  x = rsignal(rng, L, ints=rng.random() < .2)
  form = rng.choice(["ola", "stft"])
  wsrc = rng.choice(["lib", "own"])
  if form == "ola":
    variant = rng.choice(["blocks", "stream.blocks", "lists", "nosize"])
  else:
    # A: synthesis window + normalisation; B: analysis window, plain sum
    variant = "A"
    if wname in ("rect", "hann", "bartlett") and div in (1, 2) and \
       rng.random() < .4:
      variant = "B"
  if wname == "rect" and rng.random() < .3:
    wsrc = "none"                      # no window at all, hop == size
  return ("cola", form, variant, wname, wsrc, size, hop, x,
          rng.choice(["list", "tuple", "gen", "stream"]))


def gen_stft_cfg(rng):
  """Effective configuration of one STFT wrapper run (key -> spec).  A key
  that is absent keeps the library default (only where that default does not
  need numpy)."""
  size = rng.choice([1, 2, 3, 4, rng.randint(1, 10), rng.randint(1, 10)])
  hop = rng.choice([None, size, rng.randint(1, size), rng.randint(1, size)])
  h = size if hop is None else hop
  cfg = {"size": size}
  if hop is not None:
    cfg["hop"] = hop
  r = rng.random()
  if r < .2:
    pass                               # default analysis window (none)
  elif r < .35:
    cfg["wnd"] = None
  else:
    cfg["wnd"] = (rng.choice(["list", "tuple", "gen", "callable", "callgen",
                              "stream"]),
                  rwindow(rng, size, h, False, False))
  allnone = rng.random() < .25
  tr = None if allnone else rng.choice([None, "ramp", "ext", "rev"])
  cfg["before"] = None if allnone else rng.choice([None, "rev", "rot", "neg"])
  cfg["transform"] = tr
  if tr == "ext":
    cfg["inverse_transform"] = "unext"
  else:
    cfg["inverse_transform"] = None if allnone else \
        rng.choice([None, "unramp", "rot"])
  cfg["after"] = None if allnone else rng.choice([None, "rev", "neg", "rot"])
  if rng.random() < .25:
    cfg["ola"] = None
  else:
    cfg["ola"] = "spy"
    r = rng.random()
    norm_on = True
    if r < .3:
      cfg["ola_normalize"] = False
      norm_on = False
    elif r < .5:
      cfg["ola_normalize"] = True
    r = rng.random()
    if r < .25:
      pass
    elif r < .4:
      cfg["ola_wnd"] = None
    else:
      cfg["ola_wnd"] = rwspec(rng, size, h, norm_on,
                              ("list", "tuple", "gen", "callable", "callgen",
                               "stream"))
    # the overlap-add's own geometry options travel the same way: a synthesis
    # hop different from the analysis hop, the (same) size under its prefix
    if rng.random() < .2:
      cfg["ola_hop"] = rng.randint(1, size)
    if rng.random() < .1:
      cfg["ola_size"] = size
    for name in rng.sample(["ola_ola_x", "ola_zz", "ola_Wnd", "ola_ola_wnd",
                            "ola_olanormalize", "ola__"],
                           rng.choice([0, 0, 1, 2])):
      cfg[name] = rng.randint(0, 99)
  return cfg


def decoy_for(rng, key, val, size):
  """A different value for an overridden (shadowed) definition of key."""
  if key == "size":
    return val + rng.randint(1, 3)
  if key == "hop":
    return rng.choice([h for h in range(1, size + 2) if h != val])
  if key in ("wnd", "ola_wnd"):
    if val is None:
      return ("list", [.5] * size)
    return rng.choice([None, ("list", [-2. * v - 1 for v in val[1]])])
  if key in ("before", "after", "inverse_transform", "transform"):
    return "decoy" if val is None or rng.random() < .7 else None
  if key == "ola":
    return "spy2" if val is None or rng.random() < .7 else None
  if key == "ola_normalize":
    return not val
  if key == "ola_hop":
    return rng.choice([h for h in range(1, size + 2) if h != val])
  return val + 100


def scatter(rng, cfg, style):
  """Distribute cfg over the keyword layers of a calling style; a key may
  also get shadowed (decoy) definitions in earlier layers."""
  nlayers = {"direct": 2, "decorator": 2, "partial": 4}[style]
  layers = [dict() for _ in range(nlayers)]
  keys = list(cfg)
  rng.shuffle(keys)
  for key in keys:
    if key.startswith("ola_") and cfg.get("ola") is None:
      continue
    f = rng.randrange(nlayers)
    layers[f][key] = cfg[key]
    for e in range(f):
      # an ola_* decoy needs an overlap-add in the *final* merge only
      if rng.random() < .3:
        layers[e][key] = decoy_for(rng, key, cfg[key], cfg["size"])
  return layers


UNKNOWN_KEYS = ["window", "normalize", "olawnd", "Ola_wnd", "OLA_normalize",
                "wnd_ola", "hop_size", "Size", "padval", "zero", "dtype",
                "n", "wnd_", "_ola_wnd", "ola", "transforms", "inverse",
                "block_size", "blk", "overlap"]


def gen_stft_case(rng):
  cfg = gen_stft_cfg(rng)
  style = rng.choice(["direct", "decorator", "partial"])
  layers = scatter(rng, cfg, style)
  size = cfg["size"]
  h = cfg.get("hop", size)
  nblk = rng.choice([0, 1, 2, 3, rng.randint(1, 6), rng.randint(1, 6)])
  L = 0 if nblk == 0 else max(0, (nblk - 1) * h + size -
                              rng.choice([0, 0, rng.randint(0, h)]))
  x = rsignal(rng, L, ints=rng.random() < .15)
  func = rng.choice(["id", "id", "neg", "dbl", "rot", "reversed"])
  entry = rng.choice(["stft", "stft.base", "stft.rfft", "stft['real']"])
  sigkind = rng.choice(["list", "tuple", "gen", "stream"])
  return ("stft", style, entry, func, sigkind, x, layers)


def gen_reject_case(rng):
  cfg = gen_stft_cfg(rng)
  style = rng.choice(["direct", "decorator", "partial"])
  if rng.random() < .6:
    what = "unknown"
    layers = scatter(rng, cfg, style)
    key = rng.choice(UNKNOWN_KEYS)
    if key == "ola":                   # prefix without the underscore
      key = rng.choice(["olawnd", "ola-wnd", "olanormalize"])
    bad = (key, rng.choice([None, 0, 1, True, 2.5]))
  else:
    what = "misplaced-ola"
    for k in [k for k in cfg if k.startswith("ola_")]:
      del cfg[k]
    cfg["ola"] = None
    layers = scatter(rng, cfg, style)
    bad = rng.choice([("ola_wnd", None), ("ola_normalize", False),
                      ("ola_normalize", True), ("ola_zz", 3),
                      ("ola_wnd", ("list", [1.] * cfg["size"]))])
  layers[rng.randrange(len(layers))][bad[0]] = bad[1]
  size = cfg["size"]
  x = rsignal(rng, rng.randint(0, 3 * size))
  func = rng.choice(["id", "neg"])
  return ("reject", what, style, func, x, layers, bad[0])


def cases(ctx):
  rng = ctx.rng
  # enumerated structure grid (values random): every run, split over shards
  i = 0
  for m in range(0, 7):
    for size in range(1, 11):
      for hop in range(1, size + 1):
        for wclass in ("none", "list", "callable", "gen"):
          for norm in (True, False):
            for size_given in (True, False):
              if m == 0 and not size_given:
                continue               # size undefined: excluded
              if ctx.mine(i):
                yield gen_ola_case(rng, m, size, hop, wclass,
                                   (norm, None)[norm and i % 3 == 0],
                                   size_given)
              i += 1
  ctx.flag("exhaustive_subspace",
           "overlap_add.list: every (m 0..6, size 1..10, hop 1..size, window "
           "class none/list/callable/generator, normalise on/off, size "
           "given/detected) structure, random dyadic values")
  for _ in ctx.loop(3000, 200000):
    yield gen_reuse_case(rng)
  for _ in ctx.loop(40000, 3000000):
    r = rng.random()
    if r < .30:
      size = rng.choice([1, 2, 3, rng.randint(1, 10), rng.randint(1, 24)])
      hop = rng.choice([size, 1, rng.randint(1, size), rng.randint(1, size)])
      m = rng.choice([0, 1, 2, rng.randint(0, 6), rng.randint(0, 14)])
      size_given = m == 0 or rng.random() < .6
      norm = rng.choice([None, True, False])
      wclass = rng.choice(["none", "list", "callable", "gen", "lib", "lib"])
      yield gen_ola_case(rng, m, size, hop, wclass, norm, size_given)
    elif r < .50:
      yield gen_cola_case(rng)
    elif r < .90:
      yield gen_stft_case(rng)
    else:
      yield gen_reject_case(rng)


# --------------------------------------------------------------------------
# monitors
# --------------------------------------------------------------------------
def gen_reuse_case(rng):
  """The same user-owned window (a callable handing out its own list, or a
  list object) serves several calls in a row."""
  size = rng.randint(2, 8)
  hop = rng.randint(1, size)
  wvals = [rng.choice([0.25, 0.5, 0.75, 1.0, 1.5, 2.0, 0.125, 3.0])
           for _ in range(size)]
  m = rng.randint(1, 4)
  blks = [[rng.randint(-8, 8) / 4.0 for _ in range(size)] for _ in range(m)]
  calls = [rng.choice([True, False]) for _ in range(rng.randint(2, 4))]
  if not any(calls[:-1]):
    calls[0] = True
  return ("reuse", rng.choice(["callable-shared-list", "cached-callable",
                               "list-object", "stft-shared-callable",
                               "stft-partial-siblings",
                               "stft-processor-called-again"]),
          size, hop, wvals, blks, calls)


def run_reuse(ctx, case):
  _, how, size, hop, wvals, blks, calls = case
  owned = list(wvals)                  # the user's own window data
  if how == "list-object":
    wnd = owned
  elif how == "cached-callable":
    import functools
    wnd = functools.lru_cache(maxsize=None)(lambda n: owned)
  else:
    wnd = lambda n: owned
  ctx.count("reuse:" + how)
  if how == "stft-processor-called-again":
    # one processor object applied several times, once with options given at
    # call time: every call sees the processor's own definition again
    x = [v for blk in blks for v in blk]
    ident = lambda blk: blk
    kw = dict(size=size, hop=hop, transform=None, inverse_transform=None,
              before=None, after=None, ola=overlap_add.list,
              wnd=list(wvals), ola_wnd=list(wvals))
    proc = stft(ident, **kw) if calls[0] else stft(**kw)(ident)
    g = gain_of(wvals, size, hop, True)
    if g is None:
      return False
    xb = blocks_expected(x, size, hop)
    wb = [[frac(v) * frac(w) for v, w in zip(blk, wvals)] for blk in xb]
    want, mag = ola_expected(wb, size, hop, wvals, g)
    g2 = gain_of(None, size, size, True)
    want2, mag2 = ola_expected(blocks_expected(x, size, size), size, size,
                               None, g2)
    plan = [(want, mag, {}), (want, mag, {}),
            (want2, mag2, dict(hop=size, wnd=None, ola_wnd=None)),
            (want, mag, {})]
    for idx, (w_, m_, extra) in enumerate(plan):
      got, exc, hit = drain(proc(list(x), **extra), limit=len(w_) + size + 8)
      if exc is not None:
        ctx.violation("reuse/processor-raises-when-called-again", case,
                      call=idx, error=repr(exc)[:300])
        return True
      if len(got) != len(w_) or not compare(
          ctx, case, "reuse/processor-differs-when-called-again", got, w_, m_,
          False, "reuse_again"):
        if len(got) != len(w_):
          ctx.violation("reuse/processor-differs-when-called-again", case,
                        call=idx, got_len=len(got), want_len=len(w_))
        return True
    ctx.count("reuse:calls-compared", len(plan))
    return True
  if how == "stft-partial-siblings":
    # several wrappers derived from ONE partial object: what one derivation
    # passed must not leak into its siblings
    x = [v for blk in blks for v in blk]
    base = stft(transform=None, inverse_transform=None, before=None,
                after=None, ola=overlap_add.list)
    ident = lambda blk: blk
    first = base(ident, size=size, hop=hop, wnd=list(wvals),
                 ola_wnd=list(wvals))
    list(itertools.islice(iter(first(list(x))), 3))
    second = base(size=size)          # nothing but the size: hop = size, no window
    for derived in (second(ident), base(ident, size=size)):
      out = derived(list(x))
      xb = blocks_expected(x, size, size)
      want, mag = ola_expected(xb, size, size, None,
                               gain_of(None, size, size, True))
      got, exc, hit = drain(out, limit=len(want) + size + 8)
      if exc is not None:
        raise exc
      if len(got) != len(want) or not compare(
          ctx, case, "reuse/partial-sibling-inherits-earlier-keywords", got,
          want, mag, False, "reuse_partial"):
        if len(got) != len(want):
          ctx.violation("reuse/partial-sibling-inherits-earlier-keywords",
                        case, got_len=len(got), want_len=len(want))
        return True
    ctx.count("reuse:calls-compared", 2)
    return True
  if how == "stft-shared-callable":
    # analysis and synthesis window from the same callable, identity process
    x = [v for blk in blks for v in blk]
    g = gain_of(wvals, size, hop, True)
    if g is None:
      return False
    for rep in range(2):
      out = stft(lambda blk: blk, size=size, hop=hop, wnd=wnd, ola_wnd=wnd,
                 transform=None, inverse_transform=None, before=None,
                 after=None, ola=overlap_add.list)(list(x))
      xb = blocks_expected(x, size, hop)
      wb = [[frac(w) * frac(v) for w, v in zip(wvals, b)] for b in xb]
      want, mag = ola_expected(wb, size, hop, wvals, g)
      got, exc, hit = drain(out, limit=len(want) + size + 8)
      if exc is not None:
        raise exc
      if len(got) != len(want):
        ctx.violation("reuse/stft-length", case, got_len=len(got),
                      want_len=len(want))
        return True
      if not compare(ctx, case, "reuse/stft-value-with-shared-window", got,
                     want, mag, False, "reuse_stft", call=rep):
        return True
    ctx.count("reuse:calls-compared", 2)
    return True
  for idx, normalize in enumerate(calls):
    g = gain_of(wvals, size, hop, normalize)
    if g is None:
      return False
    want, mag = ola_expected(blks, size, hop, wvals, g)
    out = overlap_add.list([list(b) for b in blks], size=size, hop=hop,
                           wnd=wnd, normalize=normalize)
    got, exc, hit = drain(out, limit=len(want) + size + 8)
    if exc is not None:
      raise exc
    if len(got) != len(want):
      ctx.violation("reuse/length", case, call=idx)
      return True
    exact = is_pow2(g) and small_dyadic(wvals)
    if not compare(ctx, case, "reuse/value-on-later-call-with-same-window",
                   got, want, mag, exact, "reuse_ola", call=idx,
                   normalize=normalize):
      return True
    ctx.count("reuse:calls-compared")
  return True


def run_ola(ctx, case):
  _, cont, btype, size, blks, size_given, hop_arg, wspec, norm, style = case
  m = len(blks)
  hop = size if hop_arg is None else hop_arg
  normalize = True if norm is None else norm
  wvals = wnd_values(wspec, size)
  g = gain_of(wvals, size, hop, normalize)
  if g is None or (m == 0 and not size_given) or hop > size:
    ctx.count("ola:skipped-outside-statement")
    return False
  want, mag = ola_expected(blks, size, hop, wvals, g)
  exact = is_pow2(g) and (wvals is None or small_dyadic(wvals))

  wcalls = []
  wnd = make_wnd(wspec, size, wcalls)
  src = make_blocks(blks, cont, btype, size)
  if style == "pos":
    out = overlap_add.list(src, size if size_given else None, hop_arg, wnd,
                           normalize)
  else:
    kw = {}
    if size_given:
      kw["size"] = size
    if hop_arg is not None:
      kw["hop"] = hop_arg
    if wspec is not None or m % 2:
      kw["wnd"] = wnd
    if norm is not None:
      kw["normalize"] = norm
    fn = overlap_add["list"] if style == "item" else overlap_add.list
    out = fn(src, **kw)
  got, exc, hit = drain(out, limit=len(want) + size + 8)
  if exc is not None:
    raise exc                           # classified by ctx.crash
  ctx.count("ola:m=0" if m == 0 else "ola:m>=1")
  ctx.count("ola:size-given" if size_given else "ola:size-detected")
  ctx.count("ola:hop-default" if hop_arg is None else
            ("ola:hop==size" if hop == size else "ola:hop<size"))
  ctx.count("ola:wnd-" + wkind(wspec))
  ctx.count("ola:norm-on" if normalize else "ola:norm-off")
  ctx.count("ola:in-" + cont)
  ctx.count("ola:exact" if exact else "ola:toleranced")
  if normalize and wvals is not None:
    ctx.count("ola:norm-on+wnd:" + ("exact" if exact else "toleranced"))
  if normalize and wvals is None and hop < size:
    ctx.count("ola:norm-on+nownd+overlap")
  if len(got) != len(want) or hit:
    ctx.violation("ola/length", case, got_len=len(got), want_len=len(want),
                  more_pending=hit, m=m, size=size, hop=hop, got=got[:60])
    return True
  ctx.count("ola:samples-compared", len(want))
  key = "ola/value:norm-%s,wnd-%s" % ("on" if normalize else "off",
                                      "none" if wvals is None else "given")
  compare(ctx, case, key, got, want, mag, exact, "ola_toleranced",
          g=g, size=size, hop=hop)
  return True


def run_cola(ctx, case):
  _, form, variant, wname, wsrc, size, hop, x, sigkind = case
  L = len(x)
  xb = blocks_expected(x, size, hop)
  m = len(xb)
  if wsrc == "none":
    wspec = None
  else:
    wspec = (wsrc, wname)
  wvals = wnd_values(wspec, size)
  ones = [Fraction(1)] * size
  # effective analysis*synthesis gain of every hop phase, in exact rationals
  if form == "stft" and variant == "B":
    wa, ws, g = wvals, None, Fraction(1)     # ola_wnd=None, ola_normalize off
  else:
    wa, ws = None, wvals
    g = gain_of(ws, size, hop, True)
    if g is None:
      ctx.count("cola:premise-not-met")
      return False
  waf = ones if wa is None else [frac(v) for v in wa]
  wsf = ones if ws is None else [frac(v) for v in ws]
  prod = [g * a * s for a, s in zip(waf, wsf)]
  phase = [sum(prod[j::hop], Fraction(0)) for j in range(hop)]
  phase_abs = [sum((abs(p) for p in prod[j::hop]), Fraction(0))
               for j in range(hop)]
  if any(abs(p - 1) > Fraction(1, 10 ** 12) for p in phase):
    # the window's shifted copies do not sum to one: not a COLA set-up
    ctx.count("cola:premise-not-met")
    return False
  exact = is_pow2(g) and small_dyadic(waf) and small_dyadic(wsf) and \
      all(p == 1 for p in phase)

  def sig():
    if sigkind == "list":
      return list(x)
    if sigkind == "tuple":
      return tuple(x)
    if sigkind == "gen":
      return (v for v in x)
    return Stream(list(x))

  wcalls = []
  if form == "ola":
    wnd = make_wnd(wspec, size, wcalls)
    if variant == "blocks":
      out = overlap_add.list(blocks(sig(), size, hop), size=size, hop=hop,
                             wnd=wnd)
    elif variant == "stream.blocks":
      out = overlap_add.list(Stream(sig()).blocks(size=size, hop=hop),
                             size, hop, wnd)
    elif variant == "lists":
      out = overlap_add.list([list(b) for b in blocks(sig(), size, hop)],
                             size=size, hop=hop, wnd=wnd, normalize=True)
    else:
      if m == 0:
        ctx.count("cola:skipped-m=0-with-size-undetectable")
        return False
      out = overlap_add.list(blocks(sig(), size, hop), hop=hop, wnd=wnd)
  else:
    spy = OlaSpy("spy")
    kw = dict(size=size, hop=hop, transform=None, inverse_transform=None,
              before=None, after=None, ola=spy)
    if variant == "B":
      kw.update(wnd=make_wnd(wspec, size, wcalls), ola_wnd=None,
                ola_normalize=False)
    else:
      kw.update(ola_wnd=make_wnd(wspec, size, wcalls))
      if L % 2:
        kw["wnd"] = None
    out = stft(lambda blk: blk, **kw)(sig())
  n_out = m * hop + size - hop
  got, exc, hit = drain(out, limit=n_out + size + 8)
  if exc is not None:
    raise exc
  ctx.count("cola:form-" + form)
  ctx.count("cola:%s@size/%d" % (wname, size // hop))
  ctx.count("cola:exact" if exact else "cola:toleranced")
  if len(got) != n_out or hit:
    ctx.violation("cola/length", case, got_len=len(got), want_len=n_out,
                  more_pending=hit, m=m, size=size, hop=hop)
    return True
  # samples covered by size/hop blocks (and holding real signal)
  lo, hi = size - hop, min(L, m * hop)
  if hi <= lo:
    ctx.count("cola:no-fully-covered-sample")
    return False
  want = [frac(v) for v in x[:hi]]
  mag = [phase_abs[n % hop] * abs(want[n]) for n in range(hi)]
  ctx.count("cola:samples-compared", hi - lo)
  compare(ctx, case, "cola/reconstruction:%s-form" % form, got, want, mag,
          exact, "cola_toleranced", lo=lo, hi=hi, size=size, hop=hop, g=g)
  return True


def merge_layers(layers):
  eff = {}
  for layer in layers:
    eff.update(layer)
  return eff


def build_objects(layers, size_eff, log, spies, wcalls):
  """Library-facing keyword dicts for each layer (fresh objects)."""
  out = []
  for layer in layers:
    kw = {}
    for key, val in layer.items():
      if key in ("wnd", "ola_wnd"):
        n = len(val[1]) if val is not None else size_eff
        kw[key] = make_wnd(val, n, wcalls.setdefault(key, []))
      elif key in ("before", "after", "transform", "inverse_transform"):
        kw[key] = None if val is None else \
            make_stage(log, key if val != "decoy" else "decoy:" + key, val)
      elif key == "ola":
        kw[key] = None if val is None else spies[val]
      else:
        kw[key] = val
    out.append(kw)
  return out


def stft_entry(entry):
  return {"stft": stft, "stft.base": stft.base, "stft.rfft": stft.rfft,
          "stft['real']": stft["real"]}[entry]


def apply_style(style, entry, func, kws, sig):
  """Build the wrapper in the given calling style and call it on sig."""
  base = stft_entry(entry)
  if style == "direct":
    wrapper = base(func, **kws[0])
    return wrapper(sig, **kws[1])
  if style == "decorator":
    deco = base(**kws[0])
    wrapper = deco(func)                # what ``@deco`` does
    return wrapper(sig, **kws[1])
  part = base(**kws[0])
  part = part(**kws[1])
  wrapper = part(func, **kws[2])
  return wrapper(sig, **kws[3])


def make_sig(x, sigkind):
  if sigkind == "list":
    return list(x)
  if sigkind == "tuple":
    return tuple(x)
  if sigkind == "gen":
    return (v for v in x)
  return Stream(list(x))


def fr_list(vals):
  out = []
  for v in vals:
    f = to_frac(v)
    if f is None:
      return None
    out.append(f)
  return out


def run_stft(ctx, case):
  _, style, entry, func_id, sigkind, x, layers = case
  eff = merge_layers(layers)
  size = eff["size"]
  hop_given = "hop" in eff
  hop = eff.get("hop", size)
  wa = wnd_values(eff.get("wnd"), size)
  ola_on = eff["ola"] is not None
  ws_spec = eff.get("ola_wnd")
  normalize = eff.get("ola_normalize", True)
  ws = wnd_values(ws_spec, size)
  ohop = eff.get("ola_hop", hop) if ola_on else hop     # synthesis hop
  g = gain_of(ws, size, ohop, normalize) if ola_on else Fraction(1)
  if g is None or hop > size or ohop > size:
    ctx.count("stft:skipped-outside-statement")
    return False

  # ---- oracle: blocks, analysis window, documented stage order ----------
  xb = blocks_expected(x, size, hop)
  present = []
  for role in STAGE_ORDER:
    sid = func_id if role == "func" else eff[role]
    if sid is not None:
      present.append((role, sid))
  want_log = []
  processed = []
  for blk in xb:
    data = [frac(v) for v in blk]
    if wa is not None:
      data = [d * frac(w) for d, w in zip(data, wa)]
    for role, sid in present:
      extra = (size,) if role in ("transform", "inverse_transform") else ()
      want_log.append((role, sid, list(data), extra))
      data = list(STAGE_FN[sid](data))
    processed.append(data)

  # ---- run the real wrapper ----------------------------------------------
  log = []
  spies = {"spy": OlaSpy("spy"), "spy2": OlaSpy("spy2")}
  wcalls = {}
  kws = build_objects(layers, size, log, spies, wcalls)
  func = make_stage(log, "func", func_id)
  out = apply_style(style, entry, func, kws, make_sig(x, sigkind))
  m = len(xb)
  if ola_on:
    n_out = m * ohop + size - ohop
    got, exc, hit = drain(out, limit=n_out + size + 8)
  else:
    got, exc, hit = [], None, False
    it = iter(out)
    try:
      while len(got) <= m + 3:
        got.append(list(next(it)))      # snapshot: the object may be reused
      hit = True
    except StopIteration:
      pass
  if exc is not None:
    raise exc

  ctx.count("stft:style-" + style)
  if layers[-1]:
    ctx.count("stft:keywords-at-call-time")
  shadowed = sum(1 for i, layer in enumerate(layers) for k in layer
                 if any(k in later for later in layers[i + 1:]))
  if shadowed:
    ctx.count("stft:overridden-definitions", shadowed)
  ctx.count("stft:wnd-" + wkind(eff.get("wnd")))
  ctx.count("stft:ola-spy" if ola_on else "stft:ola-none")
  if len(present) == 1:
    ctx.count("stft:stages-all-none")
  for role, sid in present:
    if role != "func":
      ctx.count("stft:stage-" + role)
  ctx.count("stft:blocks=0" if m == 0 else "stft:blocks>=1")
  ctx.count("stft:hop-given" if hop_given else "stft:hop-default")

  # ---- stage log: analysis window, order, chain ----------------------------
  names_got = [(e[0], e[1]) for e in log]
  names_want = [(e[0], e[1]) for e in want_log]
  if names_got != names_want:
    decoys = [n for n in names_got if n[0].startswith("decoy")]
    ctx.violation("stft/override-ignored" if decoys else
                  "stft/stage-order-or-count", case, got=names_got[:30],
                  want=names_want[:30], blocks=m)
    return True
  per = len(present)
  for idx, (ge, we) in enumerate(zip(log, want_log)):
    gv = fr_list(ge[2])
    if gv != we[2]:
      first = idx % per == 0
      ctx.violation("stft/analysis-window" if first else "stft/stage-chain",
                    case, block=idx // per, stage=ge[0], got=ge[2],
                    want=[float(v) for v in we[2]])
      return True
    if ge[3] != we[3]:
      ctx.violation("stft/transform-size-argument", case, stage=ge[0],
                    got=ge[3], want=we[3])
      return True
  ctx.count("stft:func-inputs-checked", m)
  if wa is not None and m:
    ctx.count("stft:windowed-func-inputs-checked", m)

  # ---- overlap-add dispatch ------------------------------------------------
  if spies["spy2"].calls or (not ola_on and spies["spy"].calls):
    ctx.violation("stft/override-ignored", case, what="ola",
                  spy2_calls=len(spies["spy2"].calls),
                  spy_calls=len(spies["spy"].calls))
    return True
  if not ola_on:
    want_blocks = processed
    if hit or len(got) != len(want_blocks) or \
       any(fr_list(a) != b for a, b in zip(got, want_blocks)):
      ctx.violation("stft/blocks-output(ola=None)", case, got=got[:10],
                    want=[[float(v) for v in b] for b in want_blocks[:10]])
    else:
      ctx.count("stft:block-outputs-compared", m)
    return True

  spy = spies["spy"]
  if len(spy.calls) != 1 or spy.calls[0][0] != 1:
    ctx.violation("stft/ola-call-shape", case, calls=[
      (n, sorted(kw)) for n, kw in spy.calls])
    return True
  kw = spy.calls[0][1]
  stripped = {k[4:]: v for k, v in eff.items() if k.startswith("ola_")}
  extra = sorted(set(kw) - set(stripped) - {"size", "hop"})
  if extra:
    pref = [k for k in extra if k.startswith("ola_")]
    ctx.violation("stft/ola-keyword-not-stripped" if pref else
                  "stft/ola-keyword-extra", case, extra=extra,
                  got=sorted(kw), want=sorted(set(stripped) | {"size", "hop"}))
    return True
  missing = sorted(set(stripped) - set(kw))
  if missing:
    ctx.violation("stft/ola-keyword-missing", case, missing=missing,
                  got=sorted(kw))
    return True
  # values: the window object of the final definition, plain data otherwise
  final_objs = {}
  for layer_kw in kws:
    final_objs.update(layer_kw)
  for name in stripped:
    wantv = final_objs["ola_" + name]
    gotv = kw[name]
    same = gotv is wantv or (type(gotv) is type(wantv) and
                             not callable(wantv) and gotv == wantv)
    if not same:
      ctx.violation("stft/ola-keyword-value", case, name=name,
                    got=repr(gotv)[:200], want=repr(wantv)[:200])
      return True
  ctx.count("stft:ola-keywords-stripped-checked", len(stripped))
  if any(k.startswith("ola_") for k in stripped):
    ctx.count("stft:ola-double-prefix-checked")
  if "ola_hop" in eff:
    ctx.count("stft:ola_hop-given")
    if ohop != hop:
      ctx.count("stft:ola_hop-differs-from-hop")
  if "ola_size" in eff:
    ctx.count("stft:ola_size-given")
  if kw.get("size") != size or \
     ("ola_hop" in eff and kw.get("hop") != ohop) or \
     ("ola_hop" not in eff and hop_given and kw.get("hop") != hop) or \
     ("ola_hop" not in eff and not hop_given and
      kw.get("hop") not in (None, size)):
    ctx.violation("stft/ola-size-hop", case, got_size=kw.get("size"),
                  got_hop=kw.get("hop", "<absent>"), size=size,
                  hop=hop if hop_given else None)
    return True
  fed = [fr_list(b) for b in spy.fed]
  if fed != processed:
    ctx.violation("stft/ola-input-blocks", case, got=spy.fed[:10],
                  want=[[float(v) for v in b] for b in processed[:10]])
    return True

  # ---- final output: the double sum over the processed blocks --------------
  want, mag = ola_expected(processed, size, ohop, ws, g)
  exact = is_pow2(g) and (ws is None or small_dyadic(ws))
  ctx.count("stft:output-exact" if exact else "stft:output-toleranced")
  if len(got) != len(want) or hit:
    ctx.violation("stft/output-length", case, got_len=len(got),
                  want_len=len(want), more_pending=hit, m=m, size=size,
                  hop=hop)
    return True
  ctx.count("stft:samples-compared", len(want))
  compare(ctx, case, "stft/output-value", got, want, mag, exact,
          "stft_toleranced", g=g, size=size, hop=ohop)
  return True


def run_reject(ctx, case):
  _, what, style, func_id, x, layers, badkey = case
  eff = merge_layers(layers)
  size = eff["size"]
  log = []
  spies = {"spy": OlaSpy("spy"), "spy2": OlaSpy("spy2")}
  kws = build_objects(layers, size, log, spies, {})
  func = make_stage(log, "func", func_id)
  try:
    out = apply_style(style, "stft", func, kws, list(x))
    n = 0
    for item in out:
      n += 1
      if n > 6 * len(x) + 4 * size + 20:
        break
  except Exception as exc:  # noqa - any refusal counts, the type is recorded
    ctx.count("reject:%s" % what)
    ctx.count("reject:raised-" + type(exc).__name__)
    return True
  ctx.violation("stft/%s-keyword-accepted" % what, case, keyword=badkey,
                outputs=n)
  return True


def run_case(ctx, case):
  kind = case[0]
  if kind == "ola":
    return run_ola(ctx, case)
  if kind == "cola":
    return run_cola(ctx, case)
  if kind == "stft":
    return run_stft(ctx, case)
  if kind == "reuse":
    return run_reuse(ctx, case)
  if kind == "reject":
    return run_reject(ctx, case)
  raise ValueError(kind)


def finish(ctx):
  for how in ["callable-shared-list", "cached-callable", "list-object",
              "stft-shared-callable", "stft-partial-siblings",
              "stft-processor-called-again"]:
    ctx.need("reuse:" + how, 50)
  ctx.need("reuse:calls-compared", 500)
  q = ctx.quick
  def need(key, quick, thorough=None):
    ctx.need(key, quick if q else (thorough or quick))
  for key in ("ola:m=0", "ola:m>=1", "ola:size-given", "ola:size-detected",
              "ola:hop-default", "ola:hop==size", "ola:hop<size",
              "ola:wnd-none", "ola:wnd-list", "ola:wnd-callable",
              "ola:wnd-gen", "ola:norm-on", "ola:norm-off",
              "ola:in-list", "ola:in-tuple", "ola:in-deque", "ola:in-gen",
              "ola:in-reuse", "ola:exact", "ola:toleranced",
              "ola:norm-on+wnd:exact", "ola:norm-on+wnd:toleranced",
              "ola:norm-on+nownd+overlap"):
    need(key, 100)
  need("ola:samples-compared", 20000)
  for wname, div in COLA_SETUPS:
    need("cola:%s@size/%d" % (wname, div), 20)
  for key in ("cola:form-ola", "cola:form-stft", "cola:exact",
              "cola:toleranced"):
    need(key, 50)
  need("cola:samples-compared", 2000)
  for key in ("stft:style-direct", "stft:style-decorator",
              "stft:style-partial", "stft:keywords-at-call-time",
              "stft:overridden-definitions", "stft:wnd-none", "stft:wnd-list",
              "stft:wnd-callable", "stft:wnd-gen", "stft:ola-spy",
              "stft:ola-none", "stft:stages-all-none", "stft:stage-before",
              "stft:stage-transform", "stft:stage-inverse_transform",
              "stft:stage-after", "stft:blocks=0", "stft:blocks>=1",
              "stft:hop-given", "stft:hop-default",
              "stft:ola-double-prefix-checked", "stft:output-exact",
              "stft:output-toleranced", "stft:block-outputs-compared"):
    need(key, 50)
  need("stft:func-inputs-checked", 1000)
  need("stft:windowed-func-inputs-checked", 500)
  need("stft:ola-keywords-stripped-checked", 300)
  need("stft:ola_hop-differs-from-hop", 50)
  need("stft:ola_size-given", 30)
  need("stft:samples-compared", 5000)
  need("reject:unknown", 50)
  need("reject:misplaced-ola", 50)


from props import c09_x as _x, ext as _ext
_ext.install(globals(), _x)
