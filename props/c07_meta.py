META = {
  "rule":
    "cases are plain descriptions of Laurent polynomials as (power, coeff) "
    "tuples: (ring, class, P, Q, R, n, c, route) for + - * ** and scalar "
    "operands; (eval, class, P, Q, v) for p(v) under horner=True/False/auto, "
    "the evaluation homomorphism, order and values(); (compose, P, Q); "
    "(calc, P, Q, c1, c2, n) for diff / product rule / integrate; (eqhash, P, "
    "routeA, zeroA, typesA, routeB, zeroB, typesB, perturbation) for "
    "==, != and hash; (lagrange, points).  Enumerated completely on every "
    "run: all 81x81 pairs of polynomials with coefficients in {-1,0,1} over "
    "powers -1..2, evaluation of every support subset of powers -3..5, p**n "
    "(n 0..5) on all 1-/2-term supports in -2..2, Lagrange sets of 1..6 "
    "points.  Random: <= 5 terms, powers -4..6, Fraction coefficients with "
    "zero=Fraction(0) (class E) or dyadic floats with the default zero "
    "(class D).  A case is non-trivial when at least one real Poly / value "
    "was compared with the model; distinct = distinct case descriptions",
  "assumptions": [
    "coefficients are exact rationals (Fraction/int) with zero=Fraction(0), "
    "or dyadic floats k/2^j (|k|<=8, j<=3, powers<=6, exponents<=4) for "
    "which every intermediate value of any evaluation order is exactly "
    "representable; evaluation points and Lagrange abscissae are Fractions "
    "(ints only for polynomials without negative powers)",
    "not generated because the statement is silent or the value undefined: "
    "evaluation of a polynomial with negative powers at 0; p(q) with a "
    "negative power of a multi-term q; p**n for n<0 or n>5; integrate() with "
    "an x^-1 term; non-integer powers; Stream coefficients; division; "
    "comparison / hashing of a Poly against a plain number",
    "int coefficients are used only where the operation is closed over "
    "ints (+ - * **n, diff, evaluation); integrate() and negative powers of "
    "a monomial get Fraction coefficients because int / int is a float in "
    "Python",
    "a bare number returned by lagrange.poly for a single point would be "
    "accepted as the constant interpolator; Polys whose zero values have "
    "different numeric types (0, 0.0, Fraction(0)) are not required to "
    "compare equal, only to have equal hashes when they do",
  ],
  "level_text":
    "Runtime monitoring of the real Poly operators, Poly.__call__, diff, "
    "integrate, __eq__/__ne__/__hash__ and lagrange.func/.poly: every "
    "produced Poly is observed through list(p.terms()) and every value "
    "through the returned number, and compared with == against an "
    "independent {power: Fraction} model; no stored coefficient may equal "
    "zero.  Small operand spaces (coefficient patterns, support sets, "
    "exponents) are enumerated completely on every run, larger operands are "
    "sampled.  Exact comparison on everything observed, sampled beyond the "
    "enumerated sub-spaces.",
  "soft_s": {"quick": 30, "thorough": 270},
  "technique": "runtime monitor: stored terms and returned values vs an "
               "independent exact dict model, exhaustive small spaces + "
               "random operands",
}

# EXTENSION families added after the seeded-change rounds
META["rule"] += (" Added after the seeded-change rounds: " '(c07_x) hash/eq of results derived from an already-hashed operand; products / sums / squares of 8..14-term polynomials with non-dyadic Fractions under the default float zero, zero=0 and zero=Fraction(0); evaluate - overwrite a coefficient - evaluate' ".")
