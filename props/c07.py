"""C07 - Poly is an exact commutative ring with evaluation, composition and
calculus; lagrange passes through its points; eq/ne/hash are coherent.

Every observation is `list(p.terms())` (or the plain number returned by
`p(v)`) of a REAL Poly produced by the real operators; it is compared with an
independent dict model {power: Fraction}.  The library is never used to
compute an expected value and `Poly.__eq__` is never used to decide a law (it
is itself one of the things under test, see kind "eqhash").

Input classes (DESIGN 3.3)
  E  Fraction/int coefficients, `zero=Fraction(0)`: every code path keeps exact
     rationals, comparison is `==`.
  D  default float zero 0.0 and dyadic float coefficients k/2^j with so much
     headroom that each intermediate value of ANY evaluation order is exactly
     representable; comparison is `==` after Fraction(float).

Not generated (statement silent / undefined, see c07_meta.py): evaluation of a
polynomial with negative powers at 0; p(q) with a negative power of a
multi-term q; p ** n for n < 0 or n > 5; integrate() of a polynomial with an
x^-1 term; non-integer powers; Stream coefficients; division.
"""
import itertools
from fractions import Fraction

from audiolazy import Poly, lagrange

from vlib.inst import frac

ID = "C07"

F0 = Fraction(0)
MODES = (True, False, "auto")


# ---------------------------------------------------------------------------
# independent model: dict power -> Fraction, never holding a zero
# ---------------------------------------------------------------------------
def m_norm(pairs):
  out = {}
  for k, c in (pairs.items() if isinstance(pairs, dict) else pairs):
    c = frac(c)
    k = int(k)
    out[k] = out.get(k, F0) + c
  return {k: c for k, c in out.items() if c != 0}


def m_add(a, b):
  out = dict(a)
  for k, c in b.items():
    out[k] = out.get(k, F0) + c
  return {k: c for k, c in out.items() if c != 0}


def m_neg(a):
  return {k: -c for k, c in a.items()}


def m_sub(a, b):
  return m_add(a, m_neg(b))


def m_scale(a, s):
  s = frac(s)
  return {k: c * s for k, c in a.items() if c * s != 0}


def m_mul(a, b):
  out = {}
  for k1, c1 in a.items():
    for k2, c2 in b.items():
      out[k1 + k2] = out.get(k1 + k2, F0) + c1 * c2
  return {k: c for k, c in out.items() if c != 0}


M_ONE = {0: Fraction(1)}


def m_pow(a, n):
  """n-fold product, n >= 0 (empty product = the ring's one)."""
  out = dict(M_ONE)
  for _ in range(n):
    out = m_mul(out, a)
  return out


def m_eval(a, v):
  v = frac(v)
  total = F0
  for k, c in a.items():
    if k >= 0:
      total += c * v ** k
    else:
      total += c / (v ** (-k))     # v != 0 guaranteed by the generators
  return total


def m_diff(a):
  return {k - 1: k * c for k, c in a.items() if k != 0}


def m_int(a):
  assert -1 not in a
  return {k + 1: c / (k + 1) for k, c in a.items()}


def m_compose(a, b):
  """a(b): non-negative powers of any b, negative powers of a monomial b."""
  out = {}
  for k, c in a.items():
    if k >= 0:
      bk = m_pow(b, k)
    else:
      assert len(b) == 1
      (m, coef), = b.items()
      bk = {m * k: Fraction(1) / (coef ** (-k))}
    out = m_add(out, m_scale(bk, c))
  return out


# ---------------------------------------------------------------------------
# observation helpers
# ---------------------------------------------------------------------------
def num(v):
  """Exact rational value of a returned number, or None."""
  if isinstance(v, (bool, int, float, Fraction)):
    if isinstance(v, float) and (v != v or v in (float("inf"), -float("inf"))):
      return None
    return frac(v)
  return None


class Mon(object):
  """Per-case monitor: compares real Poly objects with model dicts."""

  def __init__(self, ctx, case):
    self.ctx = ctx
    self.case = case
    self.bad = False

  def vio(self, key, **detail):
    self.bad = True
    self.ctx.violation(key, self.case, **detail)

  def terms(self, what, p, want):
    """`p` must be a Poly whose stored terms are exactly the model `want`."""
    ctx = self.ctx
    if not isinstance(p, Poly):
      self.vio(what + "/result-not-a-Poly", got=repr(p)[:300])
      return False
    pairs = list(p.terms())
    ctx.count("polys_observed")
    got = {}
    for k, c in pairs:
      r = num(c)
      if r is None or isinstance(k, bool) or \
         not (isinstance(k, int) or (isinstance(k, float) and k == int(k))):
        self.vio(what + "/non-numeric-term", power=repr(k), coeff=repr(c))
        return False
      if r == 0:
        self.vio("zero-coefficient-stored/" + what, terms=repr(pairs)[:600],
                 want=want)
        return False
      if int(k) in got:
        self.vio(what + "/duplicate-power", terms=repr(pairs)[:600])
        return False
      got[int(k)] = r
    if len(p) != len(pairs):     # len() = number of stored terms
      self.vio(what + "/len-differs-from-terms", len=len(p), terms=len(pairs))
      return False
    if got != want:
      self.vio(what + "/terms", got=got, want=want)
      return False
    return True

  def value(self, what, got, want):
    r = num(got)
    self.ctx.count("values_observed")
    if r is None:
      self.vio(what + "/non-numeric-value", got=repr(got)[:300], want=want)
      return False
    if r != want:
      self.vio(what + "/value", got=r, want=want, got_type=type(got).__name__)
      return False
    return True

  def equal_pair(self, law, p, q, must_equal=True):
    """Two real Polys known (by the model) to be the same polynomial.
    must_equal=False checks only the implication p==q => hash / not !=."""
    self.ctx.count("eq_pairs_equal")
    show = dict(law=law, p=repr(list(p.terms())), q=repr(list(q.terms())),
                zeros=[repr(p.zero), repr(q.zero)])
    for x, y in ((p, q), (q, p)):
      e, n = (x == y), (x != y)
      if e and n:
        self.vio("ne/true-while-eq", eq=repr(e), ne=repr(n), **show)
        return False
      if not e:
        if must_equal:
          self.vio("eq/false-for-equal-polynomials", eq=repr(e), **show)
          return False
        self.ctx.count("eq_pairs_equal:not-eq-tolerated")
      elif hash(x) != hash(y):
        self.vio("hash/differs-for-equal-polynomials", **show)
        return False
    return True

  def unequal_pair(self, law, p, q):
    """Two real Polys that are different polynomials by the model."""
    self.ctx.count("eq_pairs_unequal")
    show = dict(law=law, p=repr(list(p.terms())), q=repr(list(q.terms())))
    for x, y in ((p, q), (q, p)):
      e, n = (x == y), (x != y)
      if e:
        self.vio("eq/true-for-different-polynomials", eq=repr(e), **show)
        return False
      if not n:
        self.vio("ne/false-for-different-polynomials", ne=repr(n), **show)
        return False
    return True


# ---------------------------------------------------------------------------
# building real Polys from case data
# ---------------------------------------------------------------------------
def conv(c, variant):
  """Numeric-type variants of the same rational coefficient."""
  f = frac(c)
  if variant == "frac":
    return f
  if variant == "int":
    return int(f) if f.denominator == 1 else f
  if variant == "float":
    d = f.denominator
    if d & (d - 1) == 0 and d <= 64 and abs(f.numerator) < 2 ** 20:
      return float(f)
    return f
  return c  # "asis"


ZEROS = {"F": F0, "i": 0, "f": 0.0, "d": None}


def build(P, route="dict", zero="F", variant="asis"):
  """A real Poly with the terms P (sequence of (power, coeff)) made through
  one of several public construction routes."""
  z = ZEROS[zero]
  P = [(k, conv(c, variant)) for k, c in P]
  if route == "list" and (not P or min(k for k, _ in P) < 0 or
                          len(set(k for k, _ in P)) != len(P)):
    route = "dict"
  if route == "dict":
    return Poly(dict(P), zero=z)
  if route == "rdict":
    return Poly(dict(reversed(P)), zero=z)
  if route == "list":
    lst = [0] * (max(k for k, _ in P) + 1)
    for k, c in P:
      lst[k] = c
    return Poly(lst, zero=z)
  if route == "fkeys":
    return Poly(dict((float(k), c) for k, c in P), zero=z)
  if route == "xops":
    X = Poly({1: 1}, zero=z)
    acc = Poly(zero=z)
    for k, c in P:
      acc = acc + c * X ** k
    return acc
  if route == "xops2":
    X = Poly({1: 1}, zero=z)
    acc = Poly(zero=z)
    for k, c in reversed(P):
      acc = X ** k * c + acc
    return acc
  if route == "setitem":
    p = Poly(zero=z)
    p[7] = 1
    for k, c in P:
      p[k] = c
    if 7 not in dict(P):
      p[7] = 0            # item set to zero removes the term
    return p
  if route == "copy":
    return Poly(dict(P), zero=z).copy()
  if route == "polyinit":
    return Poly(Poly(dict(P), zero=z), zero=z)
  if route == "addsub":
    t = Poly({-2: Fraction(3, 2), 0: 1, 5: -2}, zero=z)
    return (Poly(dict(P), zero=z) + t) - t
  if route == "mulone":
    return Poly(dict(P), zero=z) * Poly({0: 1}, zero=z)
  if route == "negneg":
    return -(-Poly(dict(P), zero=z))
  if route == "pos":
    return +Poly(dict(P), zero=z)
  raise ValueError(route)


ROUTES = ("dict", "rdict", "list", "fkeys", "xops", "xops2", "setitem",
          "copy", "polyinit", "addsub", "mulone", "negneg", "pos")
VARIANTS = ("asis", "int", "float", "frac")


# ---------------------------------------------------------------------------
# case generation
# ---------------------------------------------------------------------------
def g_coef(rng, cls):
  if cls == "D":
    while True:
      c = rng.randint(-8, 8) / float(1 << rng.randint(0, 3))
      if c != 0:
        return c
  r = rng.random()
  if r < 0.25:
    return rng.choice([1, -1, 2, -2, 3])               # ints (and the 1 branch)
  if r < 0.35:
    return Fraction(rng.choice([1, -1, 2, -3]))
  while True:
    c = Fraction(rng.randint(-9, 9), rng.randint(1, 6))
    if c != 0:
      return c


def g_poly(rng, cls="E", lo=-4, hi=6, maxterms=5, minterms=0, zeros=True):
  """Tuple of (power, coeff) with distinct powers (insertion order random)."""
  n = rng.choice([1, 2, 3, 4, rng.randint(1, maxterms),
                  rng.randint(1, maxterms)])
  if rng.random() < 0.04:
    n = 0
  n = max(minterms, min(n, maxterms, hi - lo + 1))
  r = rng.random()
  if r < 0.3 and n > 1:       # consecutive run of powers (dense Horner steps)
    start = rng.randint(lo, hi - n + 1)
    powers = list(range(start, start + n))
    rng.shuffle(powers)
  else:
    powers = rng.sample(range(lo, hi + 1), n)
  P = [(k, g_coef(rng, cls)) for k in powers]
  if zeros and P and rng.random() < 0.12:   # explicit zero given to __init__
    i = rng.randrange(len(P))
    P[i] = (P[i][0], 0 if cls == "E" else 0.0)
  return tuple(P)


def g_related(rng, P, cls):
  """A polynomial sharing powers with P and cancelling some of its terms."""
  Q = []
  for k, c in P:
    r = rng.random()
    if r < 0.35:
      Q.append((k, -c))
    elif r < 0.6:
      Q.append((k, g_coef(rng, cls)))
  used = set(k for k, _ in P)
  for _ in range(rng.randint(0, 2)):
    k = rng.randint(-4, 6)
    if k not in used:
      used.add(k)
      Q.append((k, g_coef(rng, cls)))
  rng.shuffle(Q)
  return tuple(Q)


def g_point(rng, nonzero):
  while True:
    r = rng.random()
    if r < 0.15:
      v = Fraction(rng.choice([1, -1, 2, -2, 3]))
    elif r < 0.25 and not nonzero:
      v = F0
    else:
      v = Fraction(rng.randint(-7, 7), rng.randint(1, 5))
    if v != 0 or not nonzero:
      return v


def all_frac(P):
  return tuple((k, Fraction(c)) for k, c in P)


def has_neg(*Ps):
  return any(k < 0 for P in Ps for k, _ in P)


def cases(ctx):
  rng = ctx.rng
  i = 0
  # --- exhaustive: all pairs of polynomials with coefficients in {-1,0,1}
  #     over the powers -1..2 (81 x 81): intersection merge, cancellation ----
  small = list(itertools.product((-1, 0, 1), repeat=4))
  for a in small:
    for b in small:
      if ctx.mine(i):
        yield ("pair",
               tuple((k - 1, Fraction(c)) for k, c in enumerate(a) if c),
               tuple((k - 1, c) for k, c in enumerate(b) if c))
      i += 1
  # --- exhaustive: every support set inside the powers -3..5, every scheme -
  span = list(range(-3, 6))
  for mask in range(1 << len(span)):
    if ctx.mine(i):
      powers = tuple(k for j, k in enumerate(span) if mask >> j & 1)
      yield ("support", powers, Fraction(3, 2), Fraction(-2, 3))
    i += 1
  # --- exhaustive: one-term and two-term powers p ** n, n = 0..5 -----------
  for k1 in range(-2, 3):
    for k2 in range(-2, 3):
      for n in range(0, 6):
        if ctx.mine(i):
          P = ((k1, Fraction(2, 3)),) if k1 == k2 else \
              ((k1, Fraction(2, 3)), (k2, -1))
          yield ("pow", P, n)
        i += 1
  # --- Lagrange: every size 1..6 on every run (4 fixed point sets each) ----
  for n in range(1, 7):
    for variant in range(4):
      if ctx.mine(i):
        xs = [Fraction(2 * j - variant, variant + 1) for j in range(n)]
        ys = [Fraction((j * j + variant) % 5 - 2, 1 + (j + variant) % 3)
              for j in range(n)]
        yield ("lagrange", tuple(zip(xs, ys)))
      i += 1
  ctx.flag("exhaustive_subspace",
           "add/sub/mul on all 81x81 pairs with coefficients in {-1,0,1} over "
           "powers -1..2; evaluation (3 schemes, 2 points) of every support "
           "subset of powers -3..5; p**n for n=0..5 on all 1-/2-term supports "
           "in -2..2")

  for _ in ctx.loop(40000, 1600000):
    kind = rng.random()
    if kind < 0.22:
      cls = "E" if rng.random() < 0.7 else "D"
      P = g_poly(rng, cls)
      Q = g_related(rng, P, cls) if rng.random() < 0.4 else g_poly(rng, cls)
      R = g_related(rng, Q, cls) if rng.random() < 0.3 else g_poly(rng, cls)
      n = rng.randint(0, 5 if cls == "E" else 4)
      c = g_coef(rng, cls) if rng.random() < 0.9 else (0 if cls == "E" else 0.)
      route = rng.choice(ROUTES) if rng.random() < 0.3 else "dict"
      yield ("ring", cls, P, Q, R, n, c, route if cls == "E" else "dict")
    elif kind < 0.42:
      cls = "E" if rng.random() < 0.8 else "D"
      if cls == "E":
        if rng.random() < 0.5:
          P, Q = g_poly(rng, lo=0), g_poly(rng, lo=0)
        else:
          P, Q = g_poly(rng), g_poly(rng)
        if rng.random() < 0.3:
          Q = g_related(rng, P, cls)
        v = g_point(rng, nonzero=has_neg(P, Q))
        if not has_neg(P, Q) and rng.random() < 0.2:
          v = int(v) if v.denominator == 1 else v     # int evaluation point
      else:
        # class D: non-negative powers <= 4, point k/4 with |k| <= 8
        P = g_poly(rng, "D", lo=0, hi=4)
        Q = g_poly(rng, "D", lo=0, hi=4)
        v = rng.randint(-8, 8) / 4.0
      yield ("eval", cls, P, Q, v)
    elif kind < 0.54:
      if rng.random() < 0.6:
        P = g_poly(rng, lo=0, hi=4, maxterms=4)     # outer: polynomial
        Q = g_poly(rng, maxterms=4)                 # inner: any Laurent
      else:
        P = g_poly(rng)                             # outer: Laurent
        # inner: monomial; Fraction coefficient (int ** -k would be a float)
        Q = ((rng.randint(-3, 3), Fraction(g_coef(rng, "E"))),)
        if rng.random() < 0.15:                     # undefined composition
          Q2 = g_poly(rng, lo=0, hi=3, maxterms=3)
          if len(m_norm(Q2)) >= 2:
            Q = Q2
      yield ("compose", P, Q)
    elif kind < 0.70:
      # Fraction coefficients only: integrate() divides, and int / int is a
      # float in Python (outside the exact class, not a Poly matter)
      P = all_frac(g_poly(rng))
      Q = g_related(rng, P, "E") if rng.random() < 0.3 else g_poly(rng)
      yield ("calc", P, all_frac(Q), Fraction(g_coef(rng, "E")),
             Fraction(g_coef(rng, "E")), rng.randint(0, 3))
    elif kind < 0.92:
      P = g_poly(rng, minterms=0 if rng.random() < 0.1 else 1, zeros=False)
      if rng.random() < 0.5:    # integer / dyadic coefficients: type mixing
        P = tuple((k, Fraction(rng.choice([1, -1, 2, -2, 3, 5, -7]),
                               rng.choice([1, 1, 1, 2, 4])))
                  for k, _ in P)
      perturb = rng.choice([None, None, None, None, None, None, "coef",
                            "drop", "add", "shift", "drop-first", "add-first"])
      yield ("eqhash", P,
             rng.choice(ROUTES), rng.choice("Fifd"), rng.choice(VARIANTS),
             rng.choice(ROUTES), rng.choice("Fifd"), rng.choice(VARIANTS),
             perturb, rng.randrange(1 << 16))
    else:
      n = rng.choice([1, 2, 2, 3, 3, 4, 5, 6])
      xs = set()
      while len(xs) < n:
        xs.add(Fraction(rng.randint(-9, 9), rng.randint(1, 4)))
      xs = list(xs)
      rng.shuffle(xs)
      ys = [rng.choice([F0, Fraction(rng.randint(-9, 9), rng.randint(1, 5)),
                        rng.randint(-3, 3)]) for _ in xs]
      yield ("lagrange", tuple(zip(xs, ys)))


# ---------------------------------------------------------------------------
# running a case
# ---------------------------------------------------------------------------
def count_merge(ctx, tag, a, b):
  """Which branch of the term merge a model sum exercises."""
  common = set(a) & set(b)
  if common:
    ctx.count(tag + ":intersection")
    if any(a[k] + b[k] == 0 for k in common):
      ctx.count(tag + ":cancellation")
  else:
    ctx.count(tag + ":disjoint")


def run_ring(ctx, mon, cls, P, Q, R, n, c, route):
  zero = "F" if cls == "E" else "d"
  p = build(P, route, zero)
  q = build(Q, "dict", zero)
  r = build(R, "dict", zero)
  a, b, d = m_norm(P), m_norm(Q), m_norm(R)
  ctx.count("ring_" + cls)
  count_merge(ctx, "add", a, b)
  T = mon.terms
  ok = T("init", p, a) and T("init", q, b) and T("init", r, d)
  if not ok:
    return
  # the operands must not have been changed by any operator: re-observed last
  pq, qp = p + q, q + p
  ok = T("add", pq, m_add(a, b)) and T("add", qp, m_add(a, b))
  ok = ok and T("add", (p + q) + r, m_add(m_add(a, b), d)) \
          and T("add", p + (q + r), m_add(m_add(a, b), d))
  if not ok:
    return
  ok = T("sub", p - q, m_sub(a, b)) and T("sub", q - p, m_sub(b, a)) \
       and T("sub", p - p, {}) and T("sub", (p + q) - q, a) \
       and T("neg", -p, m_neg(a)) and T("pos", +p, a)
  if not ok:
    return
  ab = m_mul(a, b)
  if len(ab) < len(a) * len(b):
    ctx.count("mul:accumulate")
  ok = T("mul", p * q, ab) and T("mul", q * p, ab) \
       and T("mul", (p * q) * r, m_mul(ab, d)) \
       and T("mul", p * (q * r), m_mul(ab, d))
  if not ok:
    return
  dist = m_mul(a, m_add(b, d))
  ok = T("distributive", p * (q + r), dist) \
       and T("distributive", p * q + p * r, dist) \
       and T("distributive", (q + r) * p, dist)
  if not ok:
    return
  ctx.count("pow:n=%d" % n)
  ctx.count("pow:terms=%s" % ("0" if not a else "1" if len(a) == 1 else "many"))
  if not T("pow", p ** n, m_pow(a, n)):
    return
  # constants of the ring given as plain numbers, on either side
  one = {0: frac(c)} if frac(c) != 0 else {}
  ctx.count("scalar_ops")
  ok = T("scalar-add", p + c, m_add(a, one)) \
       and T("scalar-radd", c + p, m_add(a, one)) \
       and T("scalar-sub", p - c, m_sub(a, one)) \
       and T("scalar-rsub", c - p, m_sub(one, a)) \
       and T("scalar-mul", p * c, m_scale(a, c)) \
       and T("scalar-rmul", c * p, m_scale(a, c))
  if not ok:
    return
  # laws seen through the library's own == / hash (different routes)
  if cls == "E":
    mon.equal_pair("commutative-add", pq, qp)
    mon.equal_pair("associative-mul", (p * q) * r, p * (q * r))
    mon.equal_pair("distributive", p * (q + r), p * q + p * r)
    mon.equal_pair("p-p", p - p, Poly(zero=F0))
  T("operand-mutated", p, a)
  T("operand-mutated", q, b)
  T("operand-mutated", r, d)


def run_pair(ctx, mon, P, Q):
  p, q = build(P), build(Q)
  a, b = m_norm(P), m_norm(Q)
  ctx.count("pair_exhaustive")
  count_merge(ctx, "add", a, b)
  T = mon.terms
  s = m_add(a, b)
  _ = T("add", p + q, s) and T("add", q + p, s) \
      and T("sub", p - q, m_sub(a, b)) \
      and T("mul", p * q, m_mul(a, b)) and T("mul", q * p, m_mul(a, b)) \
      and mon.equal_pair("commutative-mul", p * q, q * p)
  return bool(a) and bool(b)


def eval_all(ctx, mon, what, p, model, v):
  """p(v) under the three schemes (keyword and positional) vs the model."""
  want = m_eval(model, v)
  neg = any(k < 0 for k in model)
  powers = sorted(model, reverse=True)
  if len(powers) > 1:
    steps = [x - y for x, y in zip(powers, powers[1:])]
    if 1 in steps:
      ctx.count("horner:step==1")
    if any(s > 1 for s in steps):
      ctx.count("horner:step>1")
  if not model:
    ctx.count("eval:empty")
  elif frac(v) == 0:
    ctx.count("eval:x=0")
  ctx.count("eval:laurent" if neg else "eval:polynomial")
  ok = mon.value(what + "/auto", p(v), want)
  for mode in MODES:
    ok = ok and mon.value(what + "/horner=%s" % mode, p(v, horner=mode), want)
  ok = ok and mon.value(what + "/horner=True", p(v, True), want)
  return ok


def run_eval(ctx, mon, cls, P, Q, v):
  zero = "F" if cls == "E" else "d"
  p, q = build(P, "dict", zero), build(Q, "dict", zero)
  a, b = m_norm(P), m_norm(Q)
  ctx.count("eval_" + cls)
  if frac(v) == 0 and has_neg(P, Q):
    raise ValueError("generator produced an undefined evaluation")
  ok = eval_all(ctx, mon, "eval", p, a, v) and \
       eval_all(ctx, mon, "eval", q, b, v)
  if not ok:
    return
  # homomorphism: the real product / sum evaluated by the real __call__
  ok = eval_all(ctx, mon, "eval-of-product", p * q,
                m_mul(a, b), v) and \
       eval_all(ctx, mon, "eval-of-sum", p + q, m_add(a, b), v)
  if not ok:
    return
  pv, qv = num(p(v)), num(q(v))
  mon.value("homomorphism-mul", (p * q)(v), pv * qv)
  mon.value("homomorphism-add", (p + q)(v, horner=False), pv + qv)
  # order / values() of polynomials without negative powers
  if not has_neg(P) and a:
    ctx.count("order_values")
    if p.order != max(a):
      mon.vio("order/value", got=p.order, want=max(a))
    vals = list(p.values())
    want = [a.get(k, F0) for k in range(max(a) + 1)]
    if len(vals) != len(want) or \
       any(num(g) is None or num(g) != w for g, w in zip(vals, want)):
      mon.vio("values/content", got=repr(vals), want=want)


def run_support(ctx, mon, powers, v1, v2):
  coefs = [Fraction(2, 3), Fraction(-5, 2), Fraction(1), Fraction(7, 4),
           Fraction(-1, 3), Fraction(3), Fraction(-2), Fraction(1, 5),
           Fraction(4, 3)]
  P = tuple((k, coefs[j % len(coefs)]) for j, k in enumerate(powers))
  p = build(P)
  a = m_norm(P)
  ctx.count("support_exhaustive")
  for v in (v1, v2):
    if not eval_all(ctx, mon, "eval", p, a, v):
      return
  if powers and min(powers) >= 0:
    eval_all(ctx, mon, "eval", p, a, F0)
    eval_all(ctx, mon, "eval", p, a, 0)
  return bool(powers)


def run_pow(ctx, mon, P, n):
  p = build(P)
  a = m_norm(P)
  ctx.count("pow:n=%d" % n)
  ctx.count("pow:terms=%s" % ("0" if not a else "1" if len(a) == 1 else "many"))
  ctx.count("pow_exhaustive")
  mon.terms("pow", p ** n, m_pow(a, n))
  mon.terms("operand-mutated", p, a)


def run_compose(ctx, mon, P, Q):
  p, q = build(P), build(Q)
  a, b = m_norm(P), m_norm(Q)
  if has_neg(P) and len(b) > 1:
    # 1 / (several terms) is not a Laurent polynomial: the composition has
    # no value, so it must not come back as some (wrong) Poly
    ctx.count("compose:undefined-must-not-return-a-wrong-poly")
    try:
      r = p(q)
    except (NotImplementedError, ZeroDivisionError, ValueError, TypeError):
      return True
    for v in (Fraction(2), Fraction(-3, 2), Fraction(5, 3)):
      qv = sum(c * v ** k for k, c in b.items())
      if qv == 0:
        continue
      want = sum(c * qv ** k for k, c in a.items())
      got = r(v) if isinstance(r, Poly) else r
      if num(got) is None or frac(got) != want:
        mon.vio("compose/undefined-composition-returns-a-wrong-poly",
                result=repr(r)[:300], at=str(v), got=repr(got),
                want=str(want))
        return True
    return True
  if has_neg(P):
    ctx.count("compose:laurent-outer-monomial-inner")
  else:
    ctx.count("compose:polynomial-outer")
    if has_neg(Q):
      ctx.count("compose:polynomial-outer-laurent-inner")
  want = m_compose(a, b)
  if not mon.terms("compose", p(q), want):
    return
  mon.terms("compose", p(q, horner=False), want)
  # composition with the identity, on either side
  X = Poly({1: Fraction(1)}, zero=F0)
  mon.terms("compose-identity", p(X), a)
  mon.terms("compose-identity", X(p), a)
  mon.terms("operand-mutated", p, a)
  mon.terms("operand-mutated", q, b)
  return bool(a)


def run_calc(ctx, mon, P, Q, c1, c2, n):
  p, q = build(P), build(Q)
  a, b = m_norm(P), m_norm(Q)
  ctx.count("calc")
  T = mon.terms
  if 0 in a:
    ctx.count("diff:constant-term")
  if any(k < 0 for k in a):
    ctx.count("diff:negative-power")
  da, db = m_diff(a), m_diff(b)
  ok = T("diff", p.diff(), da) and T("diff", q.diff(), db)
  if not ok:
    return
  dn = a
  for _ in range(n):
    dn = m_diff(dn)
  ctx.count("diff:n=%d" % n)
  if not T("diff-n", p.diff(n), dn):
    return
  # linearity
  lin = m_add(m_scale(da, c1), m_scale(db, c2))
  ok = T("diff-linear", (c1 * p + c2 * q).diff(), lin) and \
       T("diff-linear", c1 * p.diff() + c2 * q.diff(), lin)
  if not ok:
    return
  # product rule
  prod = m_diff(m_mul(a, b))
  ok = T("diff-product-rule", (p * q).diff(), prod) and \
       T("diff-product-rule", p.diff() * q + p * q.diff(), prod)
  if not ok:
    return
  # integrate (no x^-1 term), and diff undoes integrate
  if -1 not in a:
    ctx.count("integrate")
    ip = p.integrate()
    ok = T("integrate", ip, m_int(a)) and T("diff-of-integrate", ip.diff(), a)
    if not ok:
      return
  # a derivative never has an x^-1 term: integrate(diff(p)) = p - p[0]
  ctx.count("integrate")
  T("integrate", p.diff().integrate(), {k: v for k, v in a.items() if k != 0})
  T("operand-mutated", p, a)


def perturbed(P, how, salt):
  P = list(P)
  used = set(k for k, _ in P)
  free = [k for k in range(-5, 9) if k not in used]
  j = salt % len(P) if P else 0
  if how == "coef" and P:
    P[j] = (P[j][0], P[j][1] + 1 if frac(P[j][1]) != -1 else Fraction(5))
  elif how == "drop" and P:
    del P[j]
  elif how == "drop-first" and P:
    del P[0]
  elif how == "add":
    P.append((free[salt % len(free)], Fraction(1 + salt % 3)))
  elif how == "add-first":
    P.insert(0, (free[salt % len(free)], Fraction(-1 - salt % 3)))
  elif how == "shift" and P:
    P[j] = (free[salt % len(free)], P[j][1])
  else:
    return None
  return tuple(P)


def run_eqhash(ctx, mon, P, rA, zA, vA, rB, zB, vB, perturb, salt):
  PB = P
  if perturb is not None:
    PB = perturbed(P, perturb, salt)
    if PB is None:
      perturb = None
      PB = P
  p = build(P, rA, zA, vA)
  q = build(PB, rB, zB, vB)
  a, b = m_norm(P), m_norm(PB)
  if not (mon.terms("init", p, a) and mon.terms("init", q, b)):
    return
  if vA != vB:
    ctx.count("eqhash:mixed-coefficient-types")
  if zA != zB:
    ctx.count("eqhash:mixed-zero-types")
  if rA != rB:
    ctx.count("eqhash:different-routes")
  if a == b:
    ctx.count("eqhash:equal")
    # zeros of different numeric type (0, 0.0, Fraction(0)): the statement
    # does not say such Polys must compare equal, only that IF they do the
    # hashes agree; with the same zero, equal terms must compare equal
    same_zero = type(p.zero) is type(q.zero)
    mon.equal_pair("routes", p, q, must_equal=same_zero)
    mon.equal_pair("self", p, p)
  else:
    ctx.count("eqhash:unequal")
    mon.unequal_pair("routes", p, q)
  # hash is stable
  if hash(p) != hash(p):
    mon.vio("hash/unstable")


def run_lagrange(ctx, mon, pairs):
  n = len(pairs)
  ctx.count("lagrange:n=%d" % n)
  ctx.count("lagrange")
  xs = [x for x, _ in pairs]
  if len(set(xs)) != n:
    raise ValueError("generator produced repeated abscissae")
  # --- lagrange.func ---
  try:
    f = lagrange.func(list(pairs))
    got = [f(x) for x in xs]
  except TypeError as exc:
    if n == 1 and "reduce" in str(exc):
      mon.vio("lagrange/one-point-TypeError", strategy="func", error=str(exc))
      got = None
    else:
      raise
  if got is not None:
    for (x, y), g in zip(pairs, got):
      ctx.count("lagrange_points")
      if not mon.value("lagrange-func/misses-point", g, frac(y)):
        break
    # the StrategyDict itself is callable (its default strategy)
    g = lagrange(iter(pairs))(xs[-1])
    mon.value("lagrange-default/misses-point", g, frac(pairs[-1][1]))
  # --- lagrange.poly ---
  try:
    lp = lagrange.poly(tuple(pairs))
  except TypeError as exc:
    if n == 1 and "reduce" in str(exc):
      mon.vio("lagrange/one-point-TypeError", strategy="poly", error=str(exc))
      return
    raise
  if not isinstance(lp, Poly):
    # (a bare number cannot be evaluated at its point: lagrange.poly of one
    # point is the constant polynomial)
    mon.vio("lagrange-poly/one-point-result-not-a-Poly" if n == 1 else
            "lagrange-poly/result-not-a-Poly", got=repr(lp)[:300])
    return
  for x, y in pairs:
    ctx.count("lagrange_points")
    for mode in MODES:
      if not mon.value("lagrange-poly/misses-point", lp(x, horner=mode),
                       frac(y)):
        return


def run_case(ctx, case):
  kind = case[0]
  mon = Mon(ctx, case)
  if kind == "ring":
    run_ring(ctx, mon, *case[1:])
    return True
  if kind == "pair":
    return run_pair(ctx, mon, *case[1:])
  if kind == "eval":
    run_eval(ctx, mon, *case[1:])
    return True
  if kind == "support":
    return run_support(ctx, mon, *case[1:])
  if kind == "pow":
    run_pow(ctx, mon, *case[1:])
    return True
  if kind == "compose":
    return run_compose(ctx, mon, *case[1:])
  if kind == "calc":
    run_calc(ctx, mon, *case[1:])
    return True
  if kind == "eqhash":
    run_eqhash(ctx, mon, *case[1:])
    return True
  if kind == "lagrange":
    run_lagrange(ctx, mon, case[1])
    return True
  raise ValueError(kind)


def finish(ctx):
  if not ctx.quick and ctx.shard == 0:
    # extra workload: the repository's own test-suite under passive monitors
    # (invariants at hooks on the real classes; vlib/passive.py)
    from vlib.passive_run import run_suite
    if run_suite(ctx, "poly"):
      ctx.need("passive:poly:constructed", 100000)
      ctx.need("passive:poly:coefficients_checked", 100000)
      ctx.need("passive:poly:eq_true_hash_checked", 1000)
      ctx.need("passive:poly:products_evaluated", 10000)
      ctx.need("passive:poly:sums_evaluated", 1000)
  for key, minimum in [
      ("ring_E", 100), ("ring_D", 50), ("pair_exhaustive", 6561),
      ("support_exhaustive", 512), ("pow_exhaustive", 150),
      ("add:intersection", 100), ("add:cancellation", 100),
      ("add:disjoint", 50), ("mul:accumulate", 100), ("scalar_ops", 100),
      ("pow:n=0", 20), ("pow:n=1", 20), ("pow:n=2", 20), ("pow:n=3", 20),
      ("pow:n=4", 20), ("pow:n=5", 20),
      ("pow:terms=0", 5), ("pow:terms=1", 50), ("pow:terms=many", 50),
      ("eval_E", 100), ("eval_D", 50), ("eval:x=0", 50), ("eval:empty", 5),
      ("eval:laurent", 100), ("eval:polynomial", 100),
      ("horner:step==1", 100), ("horner:step>1", 100), ("order_values", 50),
      ("compose:polynomial-outer", 50),
      ("compose:polynomial-outer-laurent-inner", 50),
      ("compose:laurent-outer-monomial-inner", 50),
      ("calc", 100), ("integrate", 100), ("diff:constant-term", 50),
      ("diff:negative-power", 50), ("diff:n=0", 10), ("diff:n=2", 10),
      ("diff:n=3", 10),
      ("eqhash:equal", 100), ("eqhash:unequal", 100),
      ("eqhash:mixed-coefficient-types", 100),
      ("eqhash:mixed-zero-types", 100), ("eqhash:different-routes", 100),
      ("eq_pairs_equal", 500), ("eq_pairs_unequal", 100),
      ("lagrange", 50), ("lagrange_points", 200),
      ("compose:undefined-must-not-return-a-wrong-poly", 30),
      ("lagrange:n=1", 4), ("lagrange:n=2", 4), ("lagrange:n=3", 4),
      ("lagrange:n=4", 4), ("lagrange:n=5", 4), ("lagrange:n=6", 4),
      ("polys_observed", 10000), ("values_observed", 5000)]:
    ctx.need(key, minimum)


# extension families (second round of seeded changes), see props/c07_x.py
from props import c07_x as _x, ext as _ext
_ext.install(globals(), _x)
