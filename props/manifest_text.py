"""Per-property text for MANIFEST.json (level claimed, trusted base, technique)."""
SOURCE_COMMITS = []
NOT_APPLICABLE = {}

_NOTE = ("Trusted: CPython 3.12 semantics, the stdlib (itertools, fractions, "
         "struct, wave), and the independent reference oracle in props/%s.py. "
         "Held = no monitor fired on the executions of this run; says nothing "
         "about inputs/histories/schedules not generated.")

def _t(pid, level_text, technique):
  return {"level_text": level_text, "level_note": _NOTE % pid.lower(),
          "technique": technique}

TEXT = {
  "C08": _t("C08",
    "Runtime monitoring of the real blocks / Stream.blocks / zero_pad "
    "generators: every yielded block is snapshotted and compared with list "
    "slicing. The (len 0..40, size 1..9, hop 1..12) space is enumerated "
    "completely on every run; larger sizes/hops, heterogeneous items and "
    "periodic streams are sampled. Exhaustive on the small space, sampled "
    "beyond it - the right level for a pure index-bookkeeping function.",
    "runtime monitor: output snapshots vs list-slicing oracle, exhaustive "
    "small space + random cases"),
}
