"""C08 - blocks are the hop-spaced windows of the input, padded only at the end;
zero_pad yields left pads, the items, right pads."""
import collections.abc
import itertools
from collections import deque

from audiolazy import Stream, blocks, zero_pad

ID = "C08"

HETERO = [None, "a", "pad", (1, 2), (), 0, 1, -7, 2.5, True, "0.0", (None,)]


class IntIndexedSeq(collections.abc.Sequence):
  """A legitimate Sequence that supports integer indexes only (no slicing)."""
  def __init__(self, items):
    self._items = list(items)

  def __len__(self):
    return len(self._items)

  def __getitem__(self, idx):
    if not isinstance(idx, int):
      raise TypeError("integer indexes only")
    return self._items[idx]


def expected_blocks(x, size, hop, padval, endless=False, nblocks=None):
  """Oracle: slicing a list."""
  out = []
  L = len(x)
  k = 0
  while True:
    if nblocks is not None and len(out) >= nblocks:
      return out
    start = k * hop
    if start + size <= L:
      out.append(list(x[start:start + size]))
      k += 1
      continue
    break
  if endless:
    return out
  real = L - k * hop
  if real > max(size - hop, 0):
    out.append(list(x[k * hop:]) + [padval] * (size - real))
  return out


def cases(ctx):
  # exhaustive sub-space (every run, split over the shards)
  i = 0
  maxlen = 40
  for L in range(0, maxlen + 1):
    for size in range(1, 10):
      for hop in range(1, 13):
        if ctx.mine(i):
          variant = ("func", "stream", "funciter")[i % 3]
          yield ("blocks", variant, list(range(100, 100 + L)), size, hop,
                 (0., None, "P")[(i // 3) % 3], True)
        i += 1
  ctx.flag("exhaustive_subspace",
           "blocks: every (len 0..40, size 1..9, hop 1..12)")
  rng = ctx.rng
  for _ in ctx.loop(6000, 400000):
    kind = rng.random()
    if kind < 0.70:
      L = rng.choice([0, 1, 2, 3, rng.randint(0, 60), rng.randint(0, 200)])
      size = rng.choice([1, 2, 3, rng.randint(1, 12), rng.randint(1, 40)])
      hop = rng.choice([None, 1, size, size + 1, rng.randint(1, 50),
                        max(1, size - 1), rng.randint(1, size)])
      if rng.random() < 0.5:
        items = [rng.choice(HETERO) for _ in range(L)]
      else:
        items = [rng.randint(-5, 5) for _ in range(L)]
      pad = rng.choice([0., None, "P", (0,), -1, items and items[0]])
      yield ("blocks", rng.choice(["func", "stream", "funciter", "kw",
                                   "func-deque", "func-seq", "stream-pos",
                                   "func-blocks-of-blocks"]),
             items, size, hop, pad, False)
    elif kind < 0.85:
      period = [rng.choice(HETERO) for _ in range(rng.randint(1, 5))]
      size = rng.randint(1, 9)
      hop = rng.choice([None, rng.randint(1, 12)])
      yield ("periodic", period, size, hop, rng.randint(1, 12))
    else:
      L = rng.randint(0, 12)
      items = [rng.choice(HETERO) for _ in range(L)]
      yield ("zero_pad", items, rng.randint(0, 6), rng.randint(0, 6),
             rng.choice([0., None, "Z", 0, (0,)]),
             rng.choice(["pos", "kw", "default"]))


def same(a, b):
  """Element identity-or-equality with type check (1 vs True vs 1.0)."""
  if len(a) != len(b):
    return False
  for p, q in zip(a, b):
    if p is q:
      continue
    if type(p) is not type(q) or p != q:
      return False
  return True


def run_case(ctx, case):
  kind = case[0]
  if kind == "blocks":
    _, variant, items, size, hop, pad, exhaustive = case
    h = size if hop is None else hop
    want = expected_blocks(items, size, h, pad)
    if variant == "func-deque":
      gen = blocks(deque(items), size, hop, pad)
    elif variant == "func-seq":
      gen = blocks(IntIndexedSeq(items), size, hop, pad)
    elif variant == "func-blocks-of-blocks":
      # a yielded block (a deque) fed back into blocks
      first = next(blocks(list(items) + [pad], len(items) or 1), None)
      gen = blocks(first if first is not None and len(items) else [], size,
                   hop, pad)
    elif variant == "stream-pos":
      st = Stream(list(items))
      gen = st.blocks(size, hop, pad) if hop is not None else st.blocks(size)
      if hop is None:
        pad = 0.
        want = expected_blocks(items, size, h, pad)
    elif variant == "func":
      gen = blocks(list(items), size, hop, pad) if hop is not None else \
            blocks(list(items), size, padval=pad)
    elif variant == "funciter":
      gen = blocks(iter(items), size=size, hop=hop, padval=pad)
    elif variant == "kw":
      gen = blocks(seq=tuple(items), size=size, hop=hop, padval=pad)
    else:
      gen = Stream(iter(items)).blocks(size=size, hop=hop, padval=pad)
    got = []
    for blk in gen:
      got.append(list(blk))  # snapshot at the moment it is produced
      if len(got) > len(want) + 3:
        break
    ctx.count("blocks_compared", len(got))
    ctx.count("variant:" + variant)
    if h < size:
      ctx.count("branch:hop<size")
    elif h == size:
      ctx.count("branch:hop==size")
    else:
      ctx.count("branch:hop>size")
    padded = bool(want) and (len(items) < size or
                             (len(want) - 1) * h + size > len(items))
    if padded:
      ctx.count("padded_tail_expected")
    if len(got) != len(want):
      # classify: is the difference only the tail block?
      key = "blocks/tail-block-presence" if got[:len(want)] == want[:len(got)] \
            else "blocks/content"
      ctx.violation(key, case, got=got, want=want)
      return True
    for k, (g, w) in enumerate(zip(got, want)):
      if not same(g, w):
        last = k == len(want) - 1 and padded
        ctx.violation("blocks/padded-tail-content" if last
                      else "blocks/content", case, block=k, got=g, want=w)
        return True
    return len(want) > 0

  if kind == "periodic":
    _, period, size, hop, nblk = case
    h = size if hop is None else hop
    need = (nblk - 1) * h + size
    x = list(itertools.islice(itertools.cycle(period), need))
    want = expected_blocks(x, size, h, None, endless=True, nblocks=nblk)
    if len(period) == 1:
      s = Stream(period[0]) if not hasattr(period[0], "__iter__") else None
    else:
      s = Stream(*period) if not any(hasattr(p, "__iter__") for p in period) \
          else None
    if s is None or h > size:
      # (hop > size skips items: a skip loop that never ends would spin for
      # ever on an endless source, so that branch gets a generous finite one)
      s = Stream(itertools.islice(itertools.cycle(period), need + 64))
    st = s.blocks(size=size, hop=hop)
    if not isinstance(st, Stream):
      ctx.violation("blocks/stream-method-type", case, got=type(st).__name__)
    got = [list(b) for b in itertools.islice(iter(st), nblk)]
    ctx.count("blocks_compared", len(got))
    ctx.count("periodic_cases")
    if len(got) != len(want) or not all(same(g, w) for g, w in zip(got, want)):
      ctx.violation("blocks/content", case, got=got, want=want)
    return True

  if kind == "zero_pad":
    _, items, left, right, zero, style = case
    if style == "pos":
      gen = zero_pad(iter(items), left, right, zero)
      z = zero
    elif style == "kw":
      gen = zero_pad(list(items), right=right, left=left, zero=zero)
      z = zero
    else:
      gen = zero_pad(tuple(items), left, right)
      z = 0.
    got = list(itertools.islice(gen, left + right + len(items) + 5))
    want = [z] * left + list(items) + [z] * right
    ctx.count("zero_pad_compared")
    if not same(got, want):
      ctx.violation("zero_pad/content", case, got=got, want=want)
    return len(want) > 0
  raise ValueError(kind)


def finish(ctx):
  for v in ["func-deque", "func-seq", "stream-pos", "func-blocks-of-blocks"]:
    ctx.need("variant:" + v, 50)
  if not ctx.quick and ctx.shard == 0:
    # extra workload: the repository's own test-suite under passive monitors
    from vlib.passive_run import run_suite
    run_suite(ctx, "blocks")
  ctx.need("branch:hop<size", 50)
  ctx.need("branch:hop==size", 50)
  ctx.need("branch:hop>size", 50)
  ctx.need("padded_tail_expected", 50)
  ctx.need("zero_pad_compared", 50)
  ctx.need("periodic_cases", 50)
