META = {
  "rule":
    "cases: (tv) a filter shape of order <= 3 with any subset of numerator / "
    "denominator coefficients (including the leading denominator coefficient, "
    "values in {+-1, +-2, +-4, +-1/2}) replaced by finite or periodic integer "
    "streams fed by pull-counting probes, built from dicts or as Stream*z**-k "
    "expressions, run on symbolic inputs of length 0..14 with coefficient "
    "streams shorter than, equal to and longer than the input; (tvalg) sums, "
    "differences, products, scalings, f*(g+h), g*g and g+g of such filters "
    "(one IIR operand at most, so the element-wise result is unambiguous) "
    "compared with per-sample polynomial arithmetic on the coefficient tables. "
    "Non-trivial = at least one output; distinct = distinct case descriptions",
  "assumptions": [
    "algebra is checked for combinations whose element-wise meaning is "
    "unambiguous (time-varying IIR op FIR, FIR op FIR); sums of two "
    "time-varying IIR filters are not generated because cancelling a common "
    "time-varying denominator is not an identity",
    "each filter object is called once (calling a filter with a stream-valued "
    "leading denominator coefficient rewrites its polynomials)"],
  "level_text":
    "Runtime monitoring of real time-varying filters: exact symbolic samples "
    "go through the generated code while every coefficient Stream sits on a "
    "pull-counting probe; after each output the linear form is compared with "
    "the per-sample recursion and every probe must show exactly k pulls after "
    "k outputs; the point where the output ends is compared with the shortest "
    "of input and coefficient streams.",
  "technique": "runtime monitor: exact linear shadow samples + pull-counting "
               "probes on coefficient streams vs per-sample recursion oracle",
}

# EXTENSION families added after the seeded-change rounds
META["rule"] += (" Added after the seeded-change rounds: " '30% of the shapes are sparse and wide (delays up to 14, several streams); coefficient streams also built directly on itertools.repeat / lazy_itertools.repeat; pull counts at the end of the input' ".")
