"""C20 - sample-wise analysis tools equal their defining formulas.

maverage.deque / recursive / fir, accumulate.accumulate / func / z, amdf,
envelope.rms / abs / squared, clip, zcross and unwrap are run on short inputs
(lists, tuples, generators, Streams) and every output sample is compared with
a direct evaluation of the defining formula in exact rationals.

Exactness classes (DESIGN.md 3.3):
  E  clip, zcross, unwrap, accumulate on ints / Fractions: ``==``
  D  maverage / amdf with power-of-two sizes on dyadic floats, accumulate.z on
     dyadic data: ``==`` after Fraction(float)
  T  other window sizes, accumulate.z (float memory) on non-dyadic Fractions,
     envelopes: explicit tolerance 1e-9 (relative, see each runner)

What is *not* decided because the statement is silent (never generated or
only observed without a verdict):
  * clip with low > high (observed only, counter ``clip:low>high:*``)
  * negative hysteresis, step <= 0, max_delta < 0, NaN / inf samples
  * a non-zero ``zero`` for accumulate.z (it would be an offset, not a sum)
  * amdf with a non-zero ``zero``: the pre-input values of |x[n]-x[n-lag]| are
    either ``zero`` (the maverage memory, what the code does) or 0 (= |zero -
    zero|); both readings are accepted, a result matching neither is refuted.
"""
import itertools
import math
from fractions import Fraction

from audiolazy import (Stream, maverage, accumulate, amdf, envelope, clip,
                       zcross, unwrap)

from vlib.inst import drain, frac, dyadic, rfrac

ID = "C20"

FORMS = ("list", "tuple", "gen", "stream")
REL = 1e-9                      # class T tolerance
DEFAULT_CUTOFF = math.pi / 512  # documented default of every envelope


# ---------------------------------------------------------------------------
# observation helpers (never through Stream.take / almost_eq)
# ---------------------------------------------------------------------------
def feed(form, xs):
  """A fresh input object of the requested form."""
  if form == "list":
    return list(xs)
  if form == "tuple":
    return tuple(xs)
  if form == "gen":
    return (v for v in xs)
  if form == "stream":
    return Stream(iter(list(xs)))
  raise ValueError(form)


def observe(ctx, case, tool, thunk, n):
  """Runs ``thunk`` (one call of the real tool), drains its output with a
  bound and checks "one output per input".  Returns the outputs, or None when
  a violation has been recorded."""
  ctx.count("tool:" + tool)
  out, over = [], False
  try:
    out, exc, over = drain(thunk(), n + 4)
  except Exception as e:  # raised by the call itself
    exc = e
  if exc is not None:
    if n == 0 and isinstance(exc, RuntimeError):
      key = tool + "/empty-input-RuntimeError"
    elif n == 0:
      key = "%s/empty-input-%s" % (tool, type(exc).__name__)
    else:
      key = "%s/raises-%s" % (tool, type(exc).__name__)
    ctx.violation(key, case, tool=tool, exception=repr(exc),
                  outputs_before_exception=out, input_len=n)
    return None
  if over or len(out) != n:
    ctx.violation(tool + "/length", case, tool=tool, want_len=n,
                  got_len=(">=%d" % len(out)) if over else len(out), got=out)
    return None
  if n == 0:
    ctx.count("empty-input-ok:" + tool)
  return out


def tofrac(v):
  try:
    return frac(v)
  except (TypeError, ValueError, OverflowError):
    return None


def cmp_exact(ctx, case, tool, got, want, startup=0, **extra):
  for i, (g, w) in enumerate(zip(got, want)):
    if tofrac(g) != w:
      key = tool + ("/value-startup" if i < startup else "/value")
      ctx.violation(key, case, tool=tool, index=i, got=g, want=w,
                    got_all=got, want_all=want, **extra)
      return False
  ctx.count("samples_compared_exact", len(want))
  return True


def cmp_tol(ctx, case, tool, got, want, tols, errname, startup=0, **extra):
  """|got - want| <= tol sample by sample (want exact rationals)."""
  worst, worst_tol = 0.0, None
  for i, (g, w, tol) in enumerate(zip(got, want, tols)):
    gf = tofrac(g)
    err = None if gf is None else float(abs(gf - w))
    if err is None or not (err <= tol):
      key = tool + ("/value-startup" if i < startup else "/value")
      ctx.violation(key, case, tool=tool, index=i, got=g, want=float(w),
                    err=err, tol=tol, got_all=got,
                    want_all=[float(v) for v in want], **extra)
      return False
    if tol and (worst_tol is None or err / tol > worst / worst_tol):
      worst, worst_tol = err, tol
  if worst_tol is not None:
    ctx.err(errname, worst, worst_tol)
  ctx.count("samples_compared_toleranced", len(want))
  return True


def is_pow2(k):
  return k >= 1 and (k & (k - 1)) == 0


def is_dyadic_value(v):
  return not isinstance(v, Fraction) or is_pow2(v.denominator)


# ---------------------------------------------------------------------------
# oracles (plain formulas over Fractions)
# ---------------------------------------------------------------------------
def moving_mean(X, size, pre):
  """Mean of the last ``size`` values, values before time 0 taken as pre."""
  out = []
  for n in range(len(X)):
    lo = n - size + 1
    s = sum(X[max(lo, 0):n + 1], Fraction(0))
    if lo < 0:
      s += pre * (-lo)
    out.append(s / size)
  return out


def running_sums(X):
  out, s = [], Fraction(0)
  for v in X:
    s += v
    out.append(s)
  return out


def one_pole(U, R):
  """y[n] = (1-R) u[n] + R y[n-1], y[-1] = 0 (unit DC gain, one pole)."""
  out, y = [], Fraction(0)
  for u in U:
    y = (1 - R) * u + R * y
    out.append(y)
  return out


def pole_radius(cutoff):
  """lowpass.pole: half-power at ``cutoff``, unit gain at DC ->
  R^2 - 2 (2 - cos w) R + 1 = 0, root inside the unit circle."""
  x = 2.0 - math.cos(cutoff)
  return x - math.sqrt(x * x - 1.0)


def sign_automaton(X, h, first_sign):
  """The statement's automaton.  Returns (outputs, event flags)."""
  sign = (first_sign > 0) - (first_sign < 0)
  out, ev = [], set()
  for el in X:
    if el == h or el == -h:
      ev.add("at-threshold-sample")
    elif -h < el < h:
      ev.add("in-band-sample")
    if sign == 0:
      out.append(0)
      if el > h or el < -h:           # first sample outside the band
        sign = 1 if el > 0 else -1
        ev.add("first-sign-from-data")
    elif (sign > 0 and el < -h) or (sign < 0 and el > h):
      out.append(1)                   # beyond the opposite threshold: flip
      sign = -sign
      ev.add("crossing")
    else:
      out.append(0)
      if (el > h or el < -h):
        ev.add("beyond-threshold-same-side")
  return out, ev


# ---------------------------------------------------------------------------
# case generation
# ---------------------------------------------------------------------------
def rand_len(rng):
  return rng.choice([0, 1, 2, 3, rng.randint(0, 8), rng.randint(0, 24),
                     rng.randint(4, 24), rng.randint(10, 24)])


def dyadic_items(rng, n):
  mode = rng.random()
  if mode < 0.2:
    return [rng.randint(-9, 9) for _ in range(n)]              # ints
  if mode < 0.3:
    return [float(rng.randint(-9, 9)) for _ in range(n)]
  return [dyadic(rng, 8, 3) for _ in range(n)]


def zero_spec(rng):
  """None = argument omitted (documented default 0.0)."""
  return rng.choice([None, None, 0, 0., dyadic(rng, 8, 2), dyadic(rng, 8, 2),
                     rng.randint(-5, 5), Fraction(rng.randint(-8, 8), 4)])


def rat_items(rng, n, den=None):
  den = den or rng.randint(1, 6)
  mode = rng.random()
  if mode < 0.15:
    return [rng.randint(-9, 9) for _ in range(n)]
  if mode < 0.6:
    return [Fraction(rng.randint(-12, 12), den) for _ in range(n)]
  if mode < 0.75:  # random walk
    out, v = [], Fraction(rng.randint(-6, 6), den)
    for _ in range(n):
      v += Fraction(rng.randint(-5, 5), den)
      out.append(v)
    return out
  if mode < 0.85:
    return [dyadic(rng, 8, 3) for _ in range(n)]
  return [rfrac(rng, 12, 6) for _ in range(n)]


def limit(rng, den):
  r = rng.random()
  if r < 0.3:
    return None
  if r < 0.45:
    return rng.randint(-6, 6)
  if r < 0.55:
    return dyadic(rng, 8, 2)
  return Fraction(rng.randint(-10, 10), den)


def gen_clip(rng):
  den = rng.randint(1, 4)
  xs = rat_items(rng, rand_len(rng), den)
  low, high = limit(rng, den), limit(rng, den)
  if low is not None and high is not None and high < low:
    if rng.random() < 0.9:      # the statement is silent about low > high
      low, high = high, low
  return ("clip", rng.choice(FORMS), xs, low, high,
          rng.choice(["pos", "pos", "kw", "default"]))


def gen_zcross(rng):
  den = rng.randint(1, 4)
  n = rand_len(rng)
  r = rng.random()
  if r < 0.5:
    xs = [Fraction(rng.randint(-8, 8), den) for _ in range(n)]
  elif r < 0.8:                 # slow walk: stays long inside the band
    xs, v = [], Fraction(rng.randint(-3, 3), den)
    for _ in range(n):
      v += Fraction(rng.randint(-3, 3), den)
      xs.append(v)
  elif r < 0.9:
    xs = [rng.randint(-4, 4) for _ in range(n)]
  else:
    xs = [dyadic(rng, 8, 2) for _ in range(n)]
  h = rng.choice([0, 0, 0., Fraction(rng.randint(0, 6), den),
                  Fraction(rng.randint(1, 4), den), rng.randint(0, 3),
                  dyadic(rng, 8, 2).__abs__()])
  fs = rng.choice([0, 0, 0., Fraction(0), 1, -1, 7, -3, 0.5, -0.25,
                   Fraction(rng.randint(1, 9), den),
                   Fraction(-rng.randint(1, 9), den)])
  return ("zcross", rng.choice(FORMS), xs, h, fs,
          rng.choice(["pos", "pos", "kw", "default"]))


def gen_unwrap(rng):
  den = rng.randint(1, 4)
  n = rand_len(rng)
  ints = rng.random() < 0.15
  if ints:
    den = 1
  step = Fraction(rng.randint(1, 12), den)
  md = rng.choice([Fraction(rng.randint(0, 8), den), step / 2, step,
                   Fraction(rng.randint(0, 14), den)])
  r = rng.random()
  v = Fraction(rng.randint(-8, 8), den)
  xs = []
  if r < 0.3:                   # arbitrary walk, big and small jumps
    for _ in range(n):
      xs.append(v)
      v += Fraction(rng.randint(-14, 14), den)
  elif r < 0.55:                # jump-free: |increment| <= max_delta, often ==
    m = int(md * den)           # floor: m/den <= max_delta
    for _ in range(n):
      xs.append(v)
      v += rng.choice([md, -md, Fraction(rng.randint(-m, m), den)])
  elif r < 0.8:                 # smooth ramp wrapped into [0, step)
    slope = Fraction(rng.randint(-6, 6), den)
    for _ in range(n):
      xs.append(v % step)
      v += slope + Fraction(rng.randint(-1, 1), den)
  else:                         # iid
    xs = [Fraction(rng.randint(-15, 15), den) for _ in range(n)]
  if ints:
    xs = [int(v) for v in xs]
    step = int(step)
    md = int(md) if md.denominator == 1 else md
  return ("unwrap", rng.choice(FORMS), xs, md, step,
          rng.choice(["pos", "kw"]))


def gen_mavg(rng):
  size = rng.choice([1, 2, 4, 8, rng.randint(1, 8), rng.randint(1, 8)])
  return ("maverage", rng.choice(FORMS), dyadic_items(rng, rand_len(rng)),
          size, zero_spec(rng))


def gen_amdf(rng):
  size = rng.choice([1, 2, 4, 8, rng.randint(1, 8), rng.randint(1, 8)])
  z = rng.choice([None, None, 0, 0., Fraction(0), dyadic(rng, 8, 2),
                  rng.randint(-4, 4)])
  return ("amdf", rng.choice(FORMS), dyadic_items(rng, rand_len(rng)),
          rng.randint(1, 5), size, z)


def gen_acc(rng):
  n = rand_len(rng)
  r = rng.random()
  if r < 0.35:
    xs = [rng.randint(-20, 20) for _ in range(n)]
  elif r < 0.7:
    xs = [rfrac(rng, 12, 7) for _ in range(n)]
  else:
    xs = [dyadic(rng, 8, 3) for _ in range(n)]
  return ("accumulate", rng.choice(FORMS), xs,
          rng.choice([None, None, 0, 0., Fraction(0)]))


def gen_env(rng):
  c = rng.choice([None, None, rng.uniform(0.005, math.pi),
                  rng.uniform(0.005, 0.5), rng.uniform(0.005, math.pi),
                  math.pi, math.pi / 2, 0.0])
  return ("envelope", rng.choice(FORMS), dyadic_items(rng, rand_len(rng)), c)


GENS = [(0.14, gen_mavg), (0.12, gen_env), (0.12, gen_amdf), (0.12, gen_acc),
        (0.14, gen_clip), (0.18, gen_zcross), (0.18, gen_unwrap)]


def cases(ctx):
  i = 0
  # -- fixed edge cases: every tool on the empty / one-sample input, every form
  for form in FORMS:
    for xs in ([], [Fraction(3, 2)], [-2]):
      dx = [float(v) for v in xs]
      edge = [("maverage", form, dx, 3, None), ("maverage", form, dx, 2, 0.5),
              ("accumulate", form, list(xs), None),
              ("accumulate", form, list(xs), 0),
              ("amdf", form, dx, 1, 2, None),
              ("envelope", form, dx, None), ("envelope", form, dx, 1.0),
              ("clip", form, list(xs), -1, 1, "pos"),
              ("clip", form, list(xs), None, None, "kw"),
              ("zcross", form, list(xs), 0, 0, "default"),
              ("zcross", form, list(xs), Fraction(1, 2), -1, "pos"),
              ("unwrap", form, list(xs), Fraction(1), Fraction(2), "pos")]
      for c in edge:
        if ctx.mine(i):
          yield c
        i += 1
  # -- exhaustive small spaces (every run, split over the shards)
  alpha = [-2, -1, 0, 1, 2]
  for n in range(0, 5):
    for xs in itertools.product(alpha, repeat=n):
      for h in (0, 1):
        for fs in (-1, 0, 1):
          if ctx.mine(i):
            yield ("zcross", FORMS[i % 4], list(xs), h, fs, "pos")
          i += 1
  pairs = [(0, 1), (1, 2), (1, 3), (2, 3), (3, 2), (2, 4), (0, 5), (5, 5)]
  for n in range(0, 5):
    for xs in itertools.product(range(6), repeat=n):
      for md, step in pairs:
        if ctx.mine(i):
          yield ("unwrap", FORMS[i % 4], list(xs), md, step, "pos")
        i += 1
  lims = [(lo, hi) for lo in (None, -1, 0, 1) for hi in (None, -1, 0, 1)
          if lo is None or hi is None or lo <= hi]
  for n in range(0, 4):
    for xs in itertools.product(alpha, repeat=n):
      for lo, hi in lims:
        if ctx.mine(i):
          yield ("clip", FORMS[i % 4], list(xs), lo, hi, "pos")
        i += 1
  ctx.flag("exhaustive_subspace",
           "zcross: every sequence over {-2..2} of length 0..4 x hysteresis "
           "{0,1} x first_sign {-1,0,1}; unwrap: every sequence over {0..5} of "
           "length 0..4 x 8 (max_delta, step) pairs; clip: every sequence over "
           "{-2..2} of length 0..3 x every ordered limit pair from "
           "{None,-1,0,1}")
  # -- random cases
  rng = ctx.rng
  for _ in ctx.loop(24000, 1600000):
    r = rng.random()
    for w, g in GENS:
      r -= w
      if r < 0:
        break
    yield g(rng)


# ---------------------------------------------------------------------------
# runners
# ---------------------------------------------------------------------------
def count_common(ctx, kind, form, n):
  ctx.count("form:" + form)
  ctx.count("kind:" + kind)
  if n == 0:
    ctx.count("empty-input:" + kind)


def run_maverage(ctx, case):
  _, form, xs, size, zspec = case
  n = len(xs)
  count_common(ctx, "maverage", form, n)
  kw = {} if zspec is None else {"zero": zspec}
  Z = frac(0. if zspec is None else zspec)
  X = [frac(v) for v in xs]
  want = moving_mean(X, size, Z)
  exact = is_pow2(size) and all(is_dyadic_value(v) for v in xs) \
          and is_dyadic_value(Z)
  ctx.count("maverage:exact-pow2-size" if exact else "maverage:toleranced")
  if Z != 0:
    ctx.count("maverage:zero-nonzero")
  if n and size > 1:
    ctx.count("maverage:window-reaches-before-time-0")
  if n >= size:
    ctx.count("maverage:full-window-reached")
  scale = max([1, abs(Z)] + [abs(v) for v in X])
  tools = [("maverage.deque", maverage.deque),
           ("maverage.recursive", maverage.recursive),
           ("maverage.fir", maverage.fir),
           ("maverage.default", maverage)]
  for tool, strat in tools:
    got = observe(ctx, case, tool,
                  lambda: strat(size)(feed(form, xs), **kw), n)
    if got is None:
      continue
    if exact:
      cmp_exact(ctx, case, tool, got, want, startup=size - 1, size=size,
                zero=zspec)
    else:
      cmp_tol(ctx, case, tool, got, want, [REL * float(scale)] * n,
              "maverage_abs_err", startup=size - 1, size=size, zero=zspec)
  return n > 0


def run_accumulate(ctx, case):
  _, form, xs, zspec = case
  n = len(xs)
  count_common(ctx, "accumulate", form, n)
  X = [frac(v) for v in xs]
  want = running_sums(X)
  if xs:
    ctx.count("accumulate:data-" + ("int" if all(isinstance(v, int)
                                                  for v in xs) else
                                    "float" if all(isinstance(v, float)
                                                   for v in xs) else
                                    "fraction"))
  kw = {} if zspec is None else {"zero": zspec}
  zval = 0. if zspec is None else zspec
  if frac(zval) != 0:
    raise ValueError("accumulate.z with an offset is outside the statement")
  # accumulate.z keeps y[-1] = zero as its memory: a float zero turns
  # Fractions into floats (class T), everything else stays exact
  z_exact = not isinstance(zval, float) or \
            all(is_dyadic_value(v) for v in xs)
  tools = [("accumulate.accumulate",
            lambda: accumulate.accumulate(feed(form, xs)), True),
           ("accumulate.func", lambda: accumulate.func(feed(form, xs)), True),
           ("accumulate.default", lambda: accumulate(feed(form, xs)), True),
           ("accumulate.z", lambda: accumulate.z(feed(form, xs), **kw),
            z_exact)]
  scale = float(max([1] + [abs(v) for v in want]))
  for tool, thunk, exact in tools:
    got = observe(ctx, case, tool, thunk, n)
    if got is None:
      continue
    if exact:
      cmp_exact(ctx, case, tool, got, want)
      if tool == "accumulate.z":
        ctx.count("accumulate.z:exact")
    else:
      ctx.count("accumulate.z:toleranced")
      cmp_tol(ctx, case, tool, got, want, [REL * scale] * n,
              "accumulate_z_abs_err")
  return n > 0


def run_amdf(ctx, case):
  _, form, xs, lag, size, zspec = case
  n = len(xs)
  count_common(ctx, "amdf", form, n)
  kw = {} if zspec is None else {"zero": zspec}
  Z = frac(0. if zspec is None else zspec)
  X = [frac(v) for v in xs]
  D = [abs(X[k] - (X[k - lag] if k >= lag else Z)) for k in range(n)]
  wants = [("memory=zero", moving_mean(D, size, Z))]
  if Z != 0:
    wants.append(("memory=|zero-zero|", moving_mean(D, size, Fraction(0))))
    ctx.count("amdf:zero-nonzero")
  exact = is_pow2(size) and all(is_dyadic_value(v) for v in xs) \
          and is_dyadic_value(Z)
  ctx.count("amdf:exact-pow2-size" if exact else "amdf:toleranced")
  if n > lag:
    ctx.count("amdf:lagged-sample-inside-input")
  got = observe(ctx, case, "amdf",
                lambda: amdf(lag, size)(feed(form, xs), **kw), n)
  if got is None:
    return n > 0
  G = [tofrac(g) for g in got]
  scale = float(max([1, abs(Z)] + [2 * abs(v) for v in X]))
  tol = 0.0 if exact else REL * scale
  best = None
  for name, want in wants:
    errs = [None if g is None else abs(g - w) for g, w in zip(G, want)]
    bad = [k for k, e in enumerate(errs) if e is None or e > tol]
    if not bad:
      if Z != 0:
        ctx.count("amdf:zero-nonzero:" + name)
      if not exact and errs:
        ctx.err("amdf_abs_err", float(max(errs)), tol)
      ctx.count("samples_compared_exact" if exact else
                "samples_compared_toleranced", n)
      return n > 0
    if best is None or bad[0] > best[1]:
      best = (name, bad[0], want)
  name, k, want = best
  start = k < max(lag, size - 1)
  ctx.violation("amdf/value-startup" if start else "amdf/value", case,
                index=k, got=got[k], want=float(want[k]), reading=name,
                lag=lag, size=size, zero=zspec, got_all=got,
                want_all=[float(v) for v in want])
  return True


def run_envelope(ctx, case):
  _, form, xs, cutoff = case
  n = len(xs)
  count_common(ctx, "envelope", form, n)
  c = DEFAULT_CUTOFF if cutoff is None else cutoff
  ctx.count("envelope:cutoff-default" if cutoff is None else
            "envelope:cutoff-given")
  R = Fraction(pole_radius(c))
  X = [frac(v) for v in xs]
  if any(v < 0 for v in X):
    ctx.count("envelope:negative-sample")
  y_abs = one_pole([abs(v) for v in X], R)
  y_sq = one_pole([v * v for v in X], R)
  peaks, p = [], Fraction(0)
  for v in X:
    p = max(p, abs(v))
    peaks.append(p)

  def tols(want, pk):
    return [REL * max(float(w), 1e-3 * float(q)) for w, q in zip(want, pk)]

  y_rms = [Fraction(math.sqrt(v)) for v in y_sq]
  table = {"abs": (y_abs, tols(y_abs, peaks)),
           "squared": (y_sq, tols(y_sq, [q * q for q in peaks])),
           "rms": (y_rms, tols(y_rms, peaks))}
  args = () if cutoff is None else (cutoff,)
  tools = [("envelope." + k, envelope[k], k) for k in ("rms", "abs", "squared")]
  for k in ("rms", "abs", "squared"):
    if envelope.default is envelope[k]:
      tools.append(("envelope.default", envelope, k))
  for tool, fn, k in tools:
    got = observe(ctx, case, tool, lambda: fn(feed(form, xs), *args), n)
    if got is None:
      continue
    want, tl = table[k]
    cmp_tol(ctx, case, tool, got, want, tl, "envelope_%s_err" % k,
            cutoff=c, pole=float(R))
  return n > 0


def run_clip(ctx, case):
  _, form, xs, low, high, style = case
  n = len(xs)
  count_common(ctx, "clip", form, n)
  if style == "default":
    low, high = -1., 1.
    call = lambda data: clip(data)
  elif style == "kw":
    call = lambda data: clip(sig=data, high=high, low=low)
  else:
    call = lambda data: clip(data, low, high)
  if low is not None and high is not None and high < low:
    # The statement cannot hold ("bounded by both limits") and says nothing
    # else about this input: observed, never judged.
    try:
      list(itertools.islice(iter(call(feed(form, xs))), n + 1))
      ctx.count("clip:low>high:returned")
    except ValueError:
      ctx.count("clip:low>high:ValueError")
    except Exception as exc:  # noqa
      ctx.count("clip:low>high:" + type(exc).__name__)
    return False
  ctx.count("clip:limits-" + ("none" if low is None and high is None else
                              "high-only" if low is None else
                              "low-only" if high is None else "both"))
  got = observe(ctx, case, "clip", lambda: call(feed(form, xs)), n)
  if got is None:
    return n > 0
  X = [frac(v) for v in xs]
  L = None if low is None else frac(low)
  H = None if high is None else frac(high)
  for k, (x, g) in enumerate(zip(X, got)):
    gf = tofrac(g)
    below = L is not None and x < L
    above = H is not None and x > H
    if gf is None or (L is not None and gf < L) or (H is not None and gf > H):
      ctx.violation("clip/output-outside-limits", case, index=k, sample=xs[k],
                    got=g, low=low, high=high, got_all=got)
      return True
    if not below and not above and gf != x:
      ctx.violation("clip/in-range-sample-changed", case, index=k,
                    sample=xs[k], got=g, low=low, high=high, got_all=got)
      return True
    ctx.count("clip:sample-below" if below else "clip:sample-above" if above
              else "clip:sample-at-limit" if (x == L or x == H)
              else "clip:sample-inside")
  again = observe(ctx, case, "clip", lambda: call(feed(form, got)), n)
  if again is None:
    return True
  if [tofrac(v) for v in again] != [tofrac(v) for v in got]:
    ctx.violation("clip/not-idempotent", case, once=got, twice=again, low=low,
                  high=high)
    return True
  ctx.count("clip:idempotence-checked")
  return n > 0


def run_zcross(ctx, case):
  _, form, xs, h, fs, style = case
  n = len(xs)
  count_common(ctx, "zcross", form, n)
  if style == "default":
    h, fs = 0, 0
    call = lambda data: zcross(data)
  elif style == "kw":
    call = lambda data: zcross(seq=data, first_sign=fs, hysteresis=h)
  else:
    call = lambda data: zcross(data, h, fs)
  H, F = frac(h), frac(fs)
  if H < 0:
    raise ValueError("negative hysteresis is outside the statement")
  want, ev = sign_automaton([frac(v) for v in xs], H, F)
  ctx.count("zcross:first_sign-" + ("zero" if F == 0 else
                                    "positive" if F > 0 else "negative"))
  ctx.count("zcross:hysteresis-" + ("zero" if H == 0 else "positive"))
  for e in ev:
    ctx.count("zcross:" + e)
  got = observe(ctx, case, "zcross", lambda: call(feed(form, xs)), n)
  if got is None:
    return n > 0
  for k, (g, w) in enumerate(zip(got, want)):
    if not (isinstance(g, (int, float, Fraction)) and g == w):
      ctx.violation("zcross/missed-crossing" if w else
                    "zcross/spurious-crossing", case, index=k, sample=xs[k],
                    got=g, want=w, hysteresis=h, first_sign=fs, got_all=got,
                    want_all=want)
      return True
  ctx.count("samples_compared_exact", n)
  return n > 0


def run_unwrap(ctx, case):
  _, form, xs, md, step, style = case
  n = len(xs)
  count_common(ctx, "unwrap", form, n)
  M, S = frac(md), frac(step)
  if S <= 0 or M < 0:
    raise ValueError("step <= 0 / max_delta < 0 is outside the statement")
  if style == "kw":
    call = lambda data: unwrap(sig=data, step=step, max_delta=md)
  else:
    call = lambda data: unwrap(data, md, step)
  X = [frac(v) for v in xs]
  jumps = [abs(b - a) for a, b in zip(X, X[1:])]
  jumpfree = all(j <= M for j in jumps)
  if n > 1:
    ctx.count("unwrap:jump-free-input" if jumpfree else
              "unwrap:input-with-jump-above-max_delta")
    if any(j == M for j in jumps):
      ctx.count("unwrap:jump-equal-max_delta")
    if any(j > M and (j % S) * 2 == S for j in jumps):
      ctx.count("unwrap:residue-tie-step/2")
    ctx.count("unwrap:max_delta<step/2" if 2 * M < S else
              "unwrap:max_delta>=step/2")
  got = observe(ctx, case, "unwrap", lambda: call(feed(form, xs)), n)
  if got is None:
    return n > 0
  G = [tofrac(g) for g in got]
  for k, (x, g) in enumerate(zip(X, G)):
    if g is None or ((g - x) / S).denominator != 1:
      ctx.violation("unwrap/change-not-multiple-of-step", case, index=k,
                    sample=xs[k], got=got[k], step=step, got_all=got)
      return True
  if G != X:
    ctx.count("unwrap:some-sample-changed")
    if jumpfree:
      k = [a != b for a, b in zip(G, X)].index(True)
      ctx.violation("unwrap/jump-free-input-altered", case, index=k,
                    sample=xs[k], got=got[k], max_delta=md, step=step,
                    got_all=got)
      return True
  bound = max(M, S / 2)
  for k in range(1, n):
    if abs(G[k] - G[k - 1]) > bound:
      ctx.violation("unwrap/output-jump-above-bound", case, index=k,
                    jump=abs(G[k] - G[k - 1]), bound=bound, max_delta=md,
                    step=step, got_all=got)
      return True
  ctx.count("samples_compared_exact", n)
  return n > 0


RUNNERS = {"maverage": run_maverage, "accumulate": run_accumulate,
           "amdf": run_amdf, "envelope": run_envelope, "clip": run_clip,
           "zcross": run_zcross, "unwrap": run_unwrap}


def run_case(ctx, case):
  return RUNNERS[case[0]](ctx, case)


def finish(ctx):
  for tool in ("maverage.deque", "maverage.recursive", "maverage.fir",
               "maverage.default", "accumulate.accumulate", "accumulate.func",
               "accumulate.z", "accumulate.default", "amdf", "envelope.rms",
               "envelope.abs", "envelope.squared", "envelope.default", "clip",
               "zcross", "unwrap"):
    ctx.need("tool:" + tool, 200)
  for kind in RUNNERS:
    ctx.need("kind:" + kind, 200)
    ctx.need("empty-input:" + kind, 4)
  for form in FORMS:
    ctx.need("form:" + form, 500)
  for key in ("maverage:exact-pow2-size", "maverage:toleranced",
              "maverage:zero-nonzero", "maverage:window-reaches-before-time-0",
              "maverage:full-window-reached",
              "accumulate:data-int", "accumulate:data-fraction",
              "accumulate:data-float", "accumulate.z:exact",
              "accumulate.z:toleranced",
              "amdf:exact-pow2-size", "amdf:toleranced", "amdf:zero-nonzero",
              "amdf:lagged-sample-inside-input",
              "envelope:cutoff-default", "envelope:cutoff-given",
              "envelope:negative-sample",
              "clip:limits-none", "clip:limits-high-only",
              "clip:limits-low-only", "clip:limits-both", "clip:sample-below",
              "clip:sample-above", "clip:sample-at-limit",
              "clip:sample-inside", "clip:idempotence-checked",
              "zcross:first_sign-zero", "zcross:first_sign-positive",
              "zcross:first_sign-negative", "zcross:hysteresis-zero",
              "zcross:hysteresis-positive", "zcross:crossing",
              "zcross:in-band-sample", "zcross:at-threshold-sample",
              "zcross:first-sign-from-data",
              "zcross:beyond-threshold-same-side",
              "unwrap:jump-free-input",
              "unwrap:input-with-jump-above-max_delta",
              "unwrap:jump-equal-max_delta", "unwrap:residue-tie-step/2",
              "unwrap:max_delta<step/2", "unwrap:max_delta>=step/2",
              "unwrap:some-sample-changed"):
    ctx.need(key, 50)
  ctx.need("samples_compared_exact", 5000)
  ctx.need("samples_compared_toleranced", 5000)


# extension family (second round of seeded changes), see props/c20_x.py
from props import c20_x as _x, ext as _ext
_ext.install(globals(), _x)
