META = {
  "rule":
    "cases: (i) every one of the 35 operator methods x element type (int, "
    "float, complex, Fraction, bool, a 2x2 matrix class for @, str for +) x "
    "kind of the other operand (Stream, periodic Stream, list, tuple, deque, "
    "generator, scalar) x calling form (dunder call / real Python operator "
    "dispatch), lengths 0..6 and beyond the horizon, unequal lengths, periodic "
    "operands truncated by finite ones; (ii) random expression trees of depth "
    "1..4 whose inner nodes each have a Stream-valued child; (iii) "
    "element-wise attribute access / call / abs; (iv) every broadcasting "
    "function of the math/dB/MIDI family x container kind (scalar, list, "
    "tuple, deque, set, frozenset, Stream, ControlStream, generator, range, "
    "map, filter, zip, enumerate) with pull-counting probes under the lazy "
    "kinds. Non-trivial = non-empty expected output compared; distinct = "
    "distinct case descriptions",
  "assumptions": [
    "the oracle applies the same Python element operation to list models, so "
    "element exceptions (ZeroDivisionError, negative shift, TypeError) are "
    "mirrored, and when an exception and the end of a shorter operand fall on "
    "the same index either outcome is accepted (the statement does not order "
    "them)",
    "str / dict / raw iterator arguments of broadcasting functions are outside "
    "the statement's container list and are not generated; for zip / enumerate "
    "inputs (tuple elements) only laziness is judged",
    "re-stated functions (log family, dB, MIDI) are compared within 1e-12 "
    "relative, thin stdlib wrappers exactly"],
  "level_text":
    "Runtime monitoring of real Stream expressions and broadcasting-function "
    "calls: the yielded elements, their types, the index at which the result "
    "ends or raises, and the kind of container returned are compared with an "
    "independent list interpreter. All 35 operator methods are exercised in "
    "both calling forms with every operand kind; nested trees to depth 4 are "
    "sampled by the thousands. Sampling, not proof: it holds on the cases of "
    "this run.",
  "technique": "runtime monitor: element/termination comparison against a "
               "list interpreter; pull-counting probes for lazy inputs",
}

# EXTENSION families added after the seeded-change rounds
META["rule"] += (" Added after the seeded-change rounds: " 'operators applied repeatedly to ONE reusable operand (ControlStream) with direct reads in between; Stream-subclass operands (thub, ControlStream); secondary operands (log base, midi2str sharp) positional and by keyword' ".")
