"""C01 extension family (fifth round of seeded changes):

attrcall   Stream.__getattr__ / Stream.__call__ (anchored with the operators):
           `s.name` is the Stream of every element's attribute, and calling a
           Stream calls every element with the same positional AND keyword
           arguments; chains such as `Stream(words).split(sep="-")`,
           `Stream(zs).conjugate().real`, a Stream of functions called with
           keywords, combined with the arithmetic operators.
"""
import itertools
from fractions import Fraction

from audiolazy import Stream

KINDS = ("attrcall",)

WORDS = ["a-b-c", "x", "", "do-re", "--", "Mi-Fa", "sol", "la-Si-do-re"]
ZS = [1 + 2j, -3j, 0j, 2.5 - 1j, -1 + 0.5j, 4j, 7 + 0j]
FRS = [Fraction(1, 3), Fraction(-7, 2), Fraction(22, 7), Fraction(0),
       Fraction(355, 113), Fraction(5, 8)]


def make_funcs(ids):
  def mk(i):
    def fn(a, b=0, *rest, **kw):
      return (i, a, b, rest, tuple(sorted(kw.items())))
    return fn
  return [mk(i) for i in ids]


def cases(ctx):
  rng = ctx.rng
  for _ in ctx.loop(2400, 80000):
    n = rng.randint(0, 6)
    form = rng.choice(["str-split-kw", "str-split-pos", "str-upper",
                       "str-replace", "complex-real", "complex-conj-chain",
                       "frac-limit-kw", "frac-numerator", "funcs-kw",
                       "funcs-pos", "funcs-mixed", "arith-after-attr"])
    yield ("attrcall", form, [rng.randrange(8) for _ in range(n)],
           rng.randint(1, 3), rng.choice(["finite", "periodic"]))


def run_case(ctx, case):
  _, form, idx, k, shape = case
  take = len(idx) if shape == "finite" else 2 * len(idx) + 1

  def stream(vals):
    if shape == "finite" or not vals:
      return Stream(list(vals)), list(vals)
    # (strings are iterables for the Stream constructor: cycle explicitly)
    return Stream(itertools.cycle(vals)), [vals[i % len(vals)]
                                           for i in range(take)]

  if form.startswith("str"):
    s, m = stream([WORDS[i] for i in idx])
    if form == "str-split-kw":
      res, want = s.split(sep="-", maxsplit=k), [w.split(sep="-", maxsplit=k)
                                                 for w in m]
    elif form == "str-split-pos":
      res, want = s.split("-", k), [w.split("-", k) for w in m]
    elif form == "str-upper":
      res, want = s.upper(), [w.upper() for w in m]
    else:
      res, want = s.replace("-", "+", k), [w.replace("-", "+", k) for w in m]
  elif form.startswith("complex"):
    s, m = stream([ZS[i % len(ZS)] for i in idx])
    if form == "complex-real":
      res, want = s.real, [z.real for z in m]
    else:
      res, want = s.conjugate().imag, [z.conjugate().imag for z in m]
  elif form.startswith("frac"):
    s, m = stream([FRS[i % len(FRS)] for i in idx])
    if form == "frac-limit-kw":
      res = s.limit_denominator(max_denominator=k + 1)
      want = [f.limit_denominator(max_denominator=k + 1) for f in m]
    else:
      res, want = s.numerator, [f.numerator for f in m]
  elif form.startswith("funcs"):
    fs = make_funcs(idx)
    s, m = stream(fs)
    if form == "funcs-kw":
      res, want = s(a=k, b=-k), [f(a=k, b=-k) for f in m]
    elif form == "funcs-pos":
      res, want = s(k, 2, "x"), [f(k, 2, "x") for f in m]
    else:
      res = s(k, c=3, d=None)
      want = [f(k, c=3, d=None) for f in m]
  else:
    s, m = stream([ZS[i % len(ZS)] for i in idx])
    twin = s.copy()          # before s is handed over to the attribute Stream
    res, want = s.real * 2 - twin.imag, [z.real * 2 - z.imag for z in m]
  ctx.count("attrcall:" + form)
  if not isinstance(res, Stream):
    ctx.violation("attrcall/result-is-not-a-Stream", case,
                  got=type(res).__name__)
    return True
  got = res.take(take + 2) if shape == "finite" else res.take(take)
  if len(got) != len(want) or any(
      type(g) is not type(w) or g != w for g, w in zip(got, want)):
    ctx.violation("attrcall/%s/wrong-element" % form.split("-")[0], case,
                  got=repr(got)[:300], want=repr(want)[:300])
    return True
  return bool(want)


def finish(ctx):
  for form in ["str-split-kw", "str-split-pos", "str-upper", "str-replace",
               "complex-real", "complex-conj-chain", "frac-limit-kw",
               "frac-numerator", "funcs-kw", "funcs-pos", "funcs-mixed",
               "arith-after-attr"]:
    ctx.need("attrcall:" + form, 30)
