"""C11 extension family (second round of seeded changes; each case costs
a few seconds, so there are few of them):

highorder  denominators of order 33..129 (mostly 100..104) built by the exact step-up recursion
           from chosen reflection coefficients (all |k| < 1 but possibly one
           |k| > 1, an exactly-zero coefficient at a low stage, any non-zero
           gain): parcor_stable must report exactly "all |k| < 1"
"""
from fractions import Fraction

from audiolazy import ZFilter, parcor_stable

from props.c11 import stepup

KINDS = ("highorder",)


def cases(ctx):
  rng = ctx.rng
  for _ in ctx.loop(24, 160):
    # around the sizes at which an implementation might switch algorithms
    order = rng.choice([rng.randint(100, 104), rng.randint(100, 104),
                        rng.choice([64, 65]), rng.randint(33, 40),
                        rng.choice([128, 129])])
    base = rng.choice([Fraction(1, 2), Fraction(-1, 2), Fraction(3, 5),
                       Fraction(-2, 3), Fraction(1, 3)])
    ks = [base] * order
    if rng.random() < 0.8:
      ks[rng.randint(2, 10)] = Fraction(0)        # a low stage exactly zero
    unstable = rng.random() < 0.5
    if unstable:
      ks[rng.choice([0, 0, 1, 3])] = Fraction(rng.choice([11, -11]), 10)
    yield ("highorder", ks, rng.choice([1, Fraction(-7, 3), 2]), unstable)


def run_case(ctx, case):
  _, ks, gain, unstable = case
  den = [gain * c for c in stepup(ks)]
  got = parcor_stable(ZFilter([1], den))
  ctx.count("high-order-denominators")
  if got is not (not unstable):
    ctx.violation("parcor_stable/high-order-wrong-verdict", case,
                  got=got, want=not unstable, order=len(ks))
  return True


def finish(ctx):
  ctx.need("high-order-denominators", 12)
