"""C10 - LPC / Levinson-Durbin solve their normal equations and report the
true error; acorr, lag_matrix and toeplitz are the plain sums / tables.

What is observed: ``filt.numerator``, ``filt.denominator`` and ``filt.error``
of the filters returned by ``levinson_durbin``, ``lpc.kautocor`` and
``lpc.kcovar`` (floats whenever an input sample is a float or an int - the
recursion divides; all-Fraction inputs stay exact since fix F33 and are judged
with ``==`` by the exactld / exactauto / exactcov families of c10_x.py), and
the lists returned by
``acorr`` / ``lag_matrix`` / ``toeplitz`` (these keep Fractions: compared
with ``==``).

Oracle for the float outputs (class T, backward error): every returned float
is converted exactly (``Fraction(float)``), the residual of each normal
equation is computed in exact integer arithmetic on a common denominator, and
must satisfy

    |sum_j a[j] r[|i-j|]|  <=  TOL * sum_j |a[j]| |r[|i-j|]|          (rows)
    |error - sum_j a[j] r[j]|  <=  TOL * sum_ij |a[i] a[j] r[|i-j|]|   (error)

with TOL = 1e-9.  Worst ratio seen on the unchanged tree (reflection
coefficients all +-0.9 at order 8, constant / alternating / geometric blocks,
covariance matrices with relative pivots down to 1e-16): < 1e-14, i.e. five
orders of magnitude of margin; a single wrong term moves a residual by
>= 1e-3 of the scale on generic data.  The second scale is the natural one for
the code's ``error = <A, A>`` double sum and dominates
``sum_i |a[i]| * (row bound i)``, the amount by which ``sum_j a[j] r[j]`` and
``a' R a`` may differ when the rows hold only within their bounds.

Judged domain (the statement says "autocorrelation sequence ... on which the
recursion does not divide by zero"): an *exact* rational Levinson recursion on
the (zero-extended) r decides it -
  * a division by zero in exact arithmetic         -> not judged,
  * some |k_m| >= 1 for m < p, |k_p| > 1 or r0 <= 0 -> r is not an
    autocorrelation (indefinite; e.g. a truncated r extended with zeros):
    not judged (Levinson is numerically unstable there: residual ratios of
    1e-8 were measured on the unchanged tree),
  * growth factor prod(1+|k_m|) > 1e4 or min E_m/r0 < 1e-9 -> too close to the
    division-by-zero corner for a fixed float tolerance: not judged (never
    reached by the generators below; counted if it happens).
For ``lpc.kcovar`` the exact pivots of the covariance matrix decide: a zero
pivot among the first p means the exact recursion divides by zero (whatever
the float code then does - raise or return - is counted, not judged); any
ValueError / ZeroDivisionError is "does not return".
"""
import math
from fractions import Fraction

from audiolazy import acorr, lag_matrix, toeplitz, levinson_durbin, lpc

from vlib.inst import frac

ID = "C10"

TOL_NUM, TOL_DEN = 1, 10 ** 9          # TOL = 1e-9 as an exact ratio
TOL = Fraction(TOL_NUM, TOL_DEN)
GROWTH_MAX = 10 ** 4
MIN_REL_E = Fraction(1, 10 ** 9)

KAUTO_NAMES = ("kautocor", "kacorr", "kautocorrelation", "kauto_correlation")
KCOVAR_NAMES = ("kcovar", "kcov", "kcovariance")


# --------------------------------------------------------------------------
# exact reference computations (plain Python, Fractions / ints only)
# --------------------------------------------------------------------------
def step_up(ks, r0):
  """Reflection coefficients -> (r[0..p], a[0..p], E_p), all exact."""
  a = [Fraction(1)]
  r = [Fraction(r0)]
  err = Fraction(r0)
  for m, k in enumerate(ks, 1):
    r.append(-(k * err + sum(a[j] * r[m - j] for j in range(1, m))))
    ext = a + [Fraction(0)]
    a = [ext[j] + k * ext[m - j] for j in range(m + 1)]
    err *= 1 - k * k
  return r, a, err


def exact_levinson(r, p):
  """Own Levinson recursion in Fractions on r[0..p].

  Returns None when a step divides by zero, else (a, E_p, ks, Es) with
  Es = [E_0 .. E_p]."""
  a = [Fraction(1)]
  err = r[0]
  ks, errs = [], [err]
  for m in range(1, p + 1):
    if err == 0:
      return None
    k = -sum(a[j] * r[m - j] for j in range(m)) / err
    ext = a + [Fraction(0)]
    a = [ext[j] + k * ext[m - j] for j in range(m + 1)]
    err = err * (1 - k * k)
    ks.append(k)
    errs.append(err)
  return a, err, ks, errs


def ref_acorr(x, max_lag):
  """Plain sums: every pair (i, j), j >= i, adds x[i]*x[j] to lag j-i."""
  out = [0] * (max_lag + 1)
  n = len(x)
  for i in range(n):
    for j in range(i, n):
      if j - i <= max_lag:
        out[j - i] += x[i] * x[j]
  return out


def ref_lag_matrix(x, p, absolute=False):
  """Sum over n = p..N-1 of the outer products of (x[n], x[n-1] .. x[n-p])."""
  m = [[0] * (p + 1) for _ in range(p + 1)]
  for n in range(p, len(x)):
    v = [x[n - i] for i in range(p + 1)]
    for i in range(p + 1):
      for j in range(p + 1):
        t = v[i] * v[j]
        m[i][j] += abs(t) if absolute else t
  return m


def ref_toeplitz(vect):
  n = len(vect)
  m = [[None] * n for _ in range(n)]
  for d in range(n):
    for i in range(n - d):
      m[i][i + d] = vect[d]
      m[i + d][i] = vect[d]
  return m


def pivots(mat, lo, count):
  """Exact Gaussian pivots of mat[lo:lo+count, lo:lo+count] (symmetric PSD:
  pivot m is the squared norm of the m-th Gram-Schmidt vector).  Stops at the
  first zero pivot."""
  m = [[Fraction(mat[i][j]) for j in range(lo, lo + count)]
       for i in range(lo, lo + count)]
  out = []
  for c in range(count):
    piv = m[c][c]
    out.append(piv)
    if piv == 0:
      return out
    for r_ in range(c + 1, count):
      if m[r_][c] != 0:
        f = m[r_][c] / piv
        for cc in range(c, count):
          m[r_][cc] -= f * m[c][cc]
  return out


def to_ints(values):
  """List of Fractions -> (list of ints, common denominator)."""
  den = 1
  for v in values:
    den = den * v.denominator // math.gcd(den, v.denominator)
  return [v.numerator * (den // v.denominator) for v in values], den


def ratio(num, den):
  if den == 0:
    return 0.0 if num == 0 else float("inf")
  return float(Fraction(num, den))


def within(num, den):
  """num <= TOL * den  (ints or Fractions, num, den >= 0)."""
  return num * TOL_DEN <= den * TOL_NUM


# --------------------------------------------------------------------------
# reading the returned filter
# --------------------------------------------------------------------------
def finite_number(v):
  if isinstance(v, bool):
    return False
  if isinstance(v, (int, Fraction)):
    return True
  return isinstance(v, float) and not (math.isnan(v) or math.isinf(v))


def read_filter(ctx, case, tag, filt, p):
  """(a[0..p] as Fractions, error as Fraction) or None after reporting."""
  num = list(filt.numerator)
  den = list(filt.denominator)
  if not hasattr(filt, "error"):
    ctx.violation(tag + "/no-error-attribute", case, numerator=num)
    return None
  err = filt.error
  if not all(finite_number(v) for v in num + den + [err]):
    ctx.violation(tag + "/non-finite-or-non-real-output", case, numerator=num,
                  denominator=den, error=err)
    return None
  if den != [1] or len(num) > p + 1 or not num or num[0] != 1:
    ctx.violation(tag + "/not-monic-FIR-of-order-p", case, numerator=num,
                  denominator=den, order=p)
    return None
  if len(num) < p + 1:
    ctx.count("trailing_zero_coefficients_dropped")
  a = [frac(v) for v in num] + [Fraction(0)] * (p + 1 - len(num))
  return a, frac(err)


def judge_symmetric(ctx, case, tag, a, err, mat, absmat, p):
  """Normal equations  sum_j mat[i][j] a[j] = 0 (i = 1..p)  and
  error = sum_j mat[0][j] a[j], with scales taken from absmat (>= |mat|).

  mat / absmat: (p+1) x (p+1) exact Fractions.  Returns True when all hold."""
  ai, da = to_ints(a)
  flat, dm = to_ints([mat[i][j] for i in range(p + 1) for j in range(p + 1)] +
                     [absmat[i][j] for i in range(p + 1) for j in range(p + 1)])
  n = p + 1
  mi = [flat[i * n:(i + 1) * n] for i in range(n)]
  mabs = [flat[(n + i) * n:(n + i + 1) * n] for i in range(n)]
  aabs = [abs(v) for v in ai]
  # rounding-noise floor: a row of a sparse system can consist of nothing but
  # coefficients that are zero in exact arithmetic and ~1e-17 in floats (its
  # own scale is then noise as well: thorough seed 41).  1e-12 * |a|max * |m|max
  # is far above that noise and far below any wrong equation.
  floor = max(aabs) * max(max(row) for row in mabs)
  for i in range(1, n):
    res = abs(sum(ai[j] * mi[i][j] for j in range(n)))
    scale = sum(aabs[j] * mabs[i][j] for j in range(n))
    ctx.err(tag + ":row-residual/scale", ratio(res, scale), 1e-9)
    if not within(res, scale) and res * 10 ** 12 > floor:
      ctx.violation(tag + "/normal-equation-residual", case, row=i,
                    a=[float(v) for v in a], residual=ratio(res, da * dm),
                    scale=ratio(scale, da * dm), ratio=ratio(res, scale))
      return False
  ctx.count(tag + ":rows_checked", p)
  want = Fraction(sum(ai[j] * mi[0][j] for j in range(n)), da * dm)
  s2 = Fraction(sum(aabs[i] * aabs[j] * mabs[i][j]
                    for i in range(n) for j in range(n)), da * da * dm)
  diff = abs(err - want)
  ctx.err(tag + ":error-identity/scale", float(diff / s2) if s2 else
          (0.0 if diff == 0 else float("inf")), 1e-9)
  if not within(diff, s2):
    ctx.violation(tag + "/error-attribute", case, a=[float(v) for v in a],
                  error=float(err), expected=float(want),
                  ratio=float(diff / s2) if s2 else "inf")
    return False
  return True


def toeplitz_of(r, p):
  return [[r[abs(i - j)] for j in range(p + 1)] for i in range(p + 1)]


def classify_autocorrelation(ctx, tag, r_ext, p):
  """Exact decision whether (r_ext, p) is in the judged domain.
  Returns (verdict, exact) with verdict in 'judge', 'divzero', 'skip'."""
  ex = exact_levinson(r_ext, p)
  if ex is None:
    ctx.count(tag + ":not-judged/exact-recursion-divides-by-zero")
    return "divzero", None
  _, _, ks, errs = ex
  if r_ext[0] <= 0 or any(abs(k) >= 1 for k in ks[:-1]) or abs(ks[-1]) > 1:
    ctx.count(tag + ":not-judged/indefinite-sequence")
    return "skip", ex
  growth = 1
  for k in ks:
    growth *= 1 + abs(k)
  if growth > GROWTH_MAX or min(errs[:-1]) < MIN_REL_E * r_ext[0]:
    ctx.count(tag + ":not-judged/near-singular")
    return "skip", ex
  return "judge", ex


# --------------------------------------------------------------------------
# case generation
# --------------------------------------------------------------------------
SCALES = [Fraction(1, 2 ** 20), Fraction(1, 2 ** 34), Fraction(1, 10 ** 6),
          Fraction(1, 10 ** 8), Fraction(2 ** 12), Fraction(10 ** 6),
          Fraction(3, 10 ** 5)]


def rand_block(rng, n, kind):
  """A block, sometimes rescaled: every quantity of the statement is either
  scale invariant (the coefficients) or homogeneous (the error), so quiet and
  loud blocks must be solved as well as ordinary ones."""
  blk = rand_block_unscaled(rng, n, kind)
  if rng.random() < 0.25:
    s = rng.choice(SCALES)
    if kind == "float":
      s = rng.choice([2.0 ** -20, 2.0 ** -34, 2.0 ** 12, 2.0 ** -27])
      return [v * s for v in blk]
    return [Fraction(v) * s for v in blk]
  return blk


def rand_block_unscaled(rng, n, kind):
  if kind == "frac":
    return [Fraction(rng.randint(-9, 9), rng.randint(1, 6)) for _ in range(n)]
  if kind == "int":
    return [rng.randint(-6, 6) for _ in range(n)]
  if kind == "float":                       # dyadic k/16: products exact
    return [rng.randint(-64, 64) / 16. for _ in range(n)]
  # structured blocks: near-constant, alternating, geometric, ramp, sinusoid
  t = rng.randint(0, 4)
  if t == 0:
    base = [Fraction(1)] * n
  elif t == 1:
    base = [Fraction((-1) ** i) for i in range(n)]
  elif t == 2:
    q = Fraction(rng.choice([1, 2, 3, -2, -3]), rng.choice([2, 3, 4]))
    base = [q ** i for i in range(n)]
  elif t == 3:
    base = [Fraction(i + 1) for i in range(n)]
  else:
    base = [Fraction([0, 1, 0, -1][i % 4]) for i in range(n)]
  eps = Fraction(1, rng.choice([1, 10, 100]))
  return [b + eps * rng.randint(-3, 3) for b in base]


def block_kind(rng):
  return rng.choice(["frac", "frac", "int", "float", "struct"])


def rand_k(rng):
  t = rng.random()
  if t < 0.15:
    return Fraction(rng.choice([-9, 9]), 10)
  if t < 0.6:
    return Fraction(rng.randint(-9, 9), 10)
  d = rng.randint(2, 12)
  lim = (9 * d) // 10
  return Fraction(rng.randint(-lim, lim), d)


def convert(rng, r):
  """How the exact rational r is handed to the code."""
  t = rng.random()
  if t < 0.5:
    return list(r)
  if t < 0.8:
    return [float(v) for v in r]
  ints, _ = to_ints(list(r))
  return ints


def cases(ctx):
  # -- exhaustive sub-space: every ternary block of length 2..4 ---------------
  i = 0
  for n in range(2, 5):
    for code in range(3 ** n):
      x = [(code // 3 ** d) % 3 - 1 for d in range(n)]
      for order in list(range(1, n + 2)) + [None]:
        if ctx.mine(i):
          yield ("kautocor", x, order, i % 8)
        i += 1
      for order in list(range(1, n)) + [None]:
        if ctx.mine(i):
          yield ("kcovar", x, order, i % 6)
        i += 1
      for lag in list(range(0, n + 2)) + [None]:
        if ctx.mine(i):
          yield ("acorr", x, lag)
        i += 1
      for lag in list(range(0, n)) + [None]:
        if ctx.mine(i):
          yield ("lagm", x, lag)
        i += 1
  ctx.flag("exhaustive_subspace",
           "every block in {-1,0,1}^n, n=2..4: lpc.kautocor orders 1..n+1/None, "
           "lpc.kcovar orders 1..n-1/None, acorr lags 0..n+1/None, lag_matrix "
           "lags 0..n-1/None")
  # singular / division-by-zero corner, a fixed handful per shard
  for c in (1, Fraction(3, 2), 2.5):
    for order in (2, 3, None):
      yield ("ld", [c, c, c, c], order, 0)
      yield ("ld", [c, -c, c, -c], order, 1)
      yield ("ld", [0, 0, 0], order, 2)
    yield ("kautocor", [0, 0, 0, 0], 2, 0)
    yield ("kautocor", [0 * c, 0 * c], None, 1)
    yield ("kcovar", [0, 0, 0, 0], 1, 0)
    yield ("kcovar", [c, c, c, c, c], 2, 1)      # rank one: singular at m=2

  rng = ctx.rng
  for _ in ctx.loop(9000, 900000):
    t = rng.random()
    if t < 0.22:
      # Levinson on r generated from reflection coefficients (exact step-up)
      p = rng.randint(1, 8)
      ks = [rand_k(rng) for _ in range(p)]
      if rng.random() < 0.25:               # small k's: zero extension stays PD
        ks = [k / 4 for k in ks]
      r, _, _ = step_up(ks, Fraction(rng.randint(1, 20), rng.randint(1, 5)))
      u = rng.random()
      if u < 0.4:
        order = None
      elif u < 0.7:
        order = rng.randint(1, p)
      else:
        order = rng.randint(p + 1, p + 4)
      yield ("ld", convert(rng, r), order, rng.randint(0, 2))
    elif t < 0.40:
      # Levinson on r computed from data (own exact sums), maybe truncated
      n = rng.randint(2, 16)
      x = [frac(v) for v in rand_block(rng, n, block_kind(rng))]
      nlags = rng.choice([n, n, rng.randint(1, n), rng.randint(1, min(n, 3))])
      r = ref_acorr(x, nlags - 1)
      u = rng.random()
      if u < 0.3 and nlags > 1:
        order = None
      elif u < 0.65 and nlags > 1:
        order = rng.randint(1, nlags - 1)
      else:
        order = rng.randint(nlags, nlags + 4)
      yield ("ld", convert(rng, r), order, rng.randint(0, 2))
    elif t < 0.62:
      n = rng.choice([2, 3, rng.randint(2, 16), rng.randint(2, 16)])
      x = rand_block(rng, n, block_kind(rng))
      u = rng.random()
      if u < 0.15:
        order = None
      elif u < 0.8:
        order = rng.randint(1, n - 1)
      else:
        order = rng.randint(n, n + 3)
      yield ("kautocor", x, order, rng.randint(0, 7))
    elif t < 0.84:
      n = rng.choice([2, 3, rng.randint(2, 16), rng.randint(4, 16),
                      rng.randint(8, 16)])
      x = rand_block(rng, n, block_kind(rng))
      u = rng.random()
      if u < 0.05:
        order = None
      elif u < 0.75:
        order = rng.randint(1, max(1, n // 3))
      else:
        order = rng.randint(1, n - 1)
      yield ("kcovar", x, order, rng.randint(0, 5))
    elif t < 0.90:
      n = rng.randint(1, 16)
      x = rand_block(rng, n, block_kind(rng))
      lag = rng.choice([None, rng.randint(0, n - 1), rng.randint(0, n + 4)])
      yield ("acorr", x, lag)
    elif t < 0.96:
      n = rng.randint(1, 16)
      x = rand_block(rng, n, block_kind(rng))
      lag = rng.choice([None, rng.randint(0, n - 1), rng.randint(0, n - 1)])
      yield ("lagm", x, lag)
    else:
      n = rng.randint(0, 9)
      if rng.random() < 0.3:
        vect = [rng.choice([None, "a", "b", (1,), 0, 1, 2.5, True])
                for _ in range(n)]
      else:
        vect = rand_block(rng, n, rng.choice(["frac", "int", "float"]))
      yield ("toep", vect, rng.random() < 0.5)


# --------------------------------------------------------------------------
# monitors
# --------------------------------------------------------------------------
def same_item(p, q):
  return p is q or (type(p) is type(q) and p == q)


def run_ld(ctx, case):
  _, rlist, order, style = case
  r = [frac(v) for v in rlist]
  p = len(r) - 1 if order is None else order
  if p < 1:
    return False
  r_ext = r + [Fraction(0)] * (p + 1 - len(r))
  verdict, ex = classify_autocorrelation(ctx, "ld", r_ext, p)
  if verdict == "skip":
    return False
  arg = list(rlist) if style != 2 else tuple(rlist)
  try:
    if order is None:
      filt = levinson_durbin(arg)
    elif style == 1:
      filt = levinson_durbin(acdata=arg, order=order)
    else:
      filt = levinson_durbin(arg, order)
  except ZeroDivisionError as exc:
    if verdict == "divzero":
      ctx.count("ld:divzero-input/raised-" + type(exc).__name__)
      return False
    ctx.violation("ld/raises-%s-on-positive-definite-r" % type(exc).__name__,
                  case, ks=[float(k) for k in ex[2]])
    return True
  if verdict == "divzero":
    ctx.count("ld:divzero-input/returned")
    return False
  if order is not None and order >= len(r):
    ctx.count("branch:ld-zero-extension-judged")
  elif order is not None and order < len(r) - 1:
    ctx.count("branch:ld-truncated-order-judged")
  else:
    ctx.count("branch:ld-full-order-judged")
  got = read_filter(ctx, case, "ld", filt, p)
  if got is None:
    return True
  a, err = got
  mat = toeplitz_of(r_ext, p)
  absmat = [[abs(v) for v in row] for row in mat]
  if not judge_symmetric(ctx, case, "ld", a, err, mat, absmat, p):
    return True
  # forward cross-check against the exact recursion on well-conditioned
  # instances (p <= 4, |k| <= 1/2: ||R^-1|| <= 27/r0 by Cybenko's bound)
  astar, estar, ks, _ = ex
  if p <= 4 and all(abs(k) <= Fraction(1, 2) for k in ks):
    ctx.count("ld:forward-checked")
    sa = sum(abs(v) for v in astar)
    worst = max(abs(u - v) for u, v in zip(a, astar))
    ctx.err("ld:forward-coefficient-error", float(worst / sa), 1e-9)
    ediff = abs(err - estar)
    ctx.err("ld:forward-error-attribute", float(ediff / r_ext[0]), 1e-9)
    if not within(worst, sa) or not within(ediff, r_ext[0]):
      ctx.violation("ld/differs-from-exact-levinson", case,
                    a=[float(v) for v in a], exact=[float(v) for v in astar],
                    error=float(err), exact_error=float(estar))
  return True


def run_kautocor(ctx, case):
  _, x, order, style = case
  xs = [frac(v) for v in x]
  n = len(xs)
  p = n - 1 if order is None else order
  if p < 1:
    return False
  r = ref_acorr(xs, p)
  r = [Fraction(v) for v in r]
  verdict, ex = classify_autocorrelation(ctx, "kautocor", r, p)
  if verdict == "skip":
    return False
  func = getattr(lpc, KAUTO_NAMES[style % 4])
  blk = list(x) if style < 4 else tuple(x)
  try:
    if order is None:
      filt = func(blk)
    elif style % 2:
      filt = func(blk, order=order)
    else:
      filt = func(blk, order)
  except ZeroDivisionError as exc:
    if verdict == "divzero":
      ctx.count("kautocor:divzero-input/raised-" + type(exc).__name__)
      return False
    ctx.violation("kautocor/raises-%s-on-nonzero-block" % type(exc).__name__,
                  case)
    return True
  if verdict == "divzero":
    ctx.count("kautocor:divzero-input/returned")
    return False
  ctx.count("branch:kautocor-order>=len-judged" if p >= n else
            "branch:kautocor-order<len-judged")
  got = read_filter(ctx, case, "kautocor", filt, p)
  if got is None:
    return True
  a, err = got
  # own convolution of a with the zero-extended block, in integers
  ai, da = to_ints(a)
  xi, dx = to_ints(xs)
  xpad = [0] * p + xi + [0] * p            # xpad[p + m] = x[m]
  e = [sum(ai[j] * xpad[p + m - j] for j in range(p + 1))
       for m in range(n + p)]             # e[m], m = 0 .. n+p-1
  absr = ref_acorr([abs(v) for v in xi], p)
  absr = absr + [0] * (p + 1 - len(absr))
  aabs = [abs(v) for v in ai]
  # gradient of the energy:  d/da_i sum e^2 = 2 sum_m e[m] x[m-i]
  for i in range(1, p + 1):
    g = abs(sum(e[m] * xpad[p + m - i] for m in range(n + p)))
    scale = sum(aabs[j] * absr[abs(i - j)] for j in range(p + 1))
    ctx.err("kautocor:gradient/scale", ratio(g, scale), 1e-9)
    if not within(g, scale) and g * 10 ** 12 > max(aabs) * max(absr):
      ctx.violation("kautocor/energy-gradient-nonzero", case, row=i,
                    a=[float(v) for v in a], ratio=ratio(g, scale))
      return True
  ctx.count("kautocor:gradient_rows_checked", p)
  energy = Fraction(sum(v * v for v in e), da * da * dx * dx)
  s2 = Fraction(sum(aabs[i] * aabs[j] * absr[abs(i - j)]
                    for i in range(p + 1) for j in range(p + 1)),
                da * da * dx * dx)
  diff = abs(err - energy)
  ctx.err("kautocor:error-vs-energy/scale", float(diff / s2), 1e-9)
  if not within(diff, s2):
    ctx.violation("kautocor/error-is-not-the-residual-energy", case,
                  a=[float(v) for v in a], error=float(err),
                  energy=float(energy), ratio=float(diff / s2))
    return True
  # the same through the Toeplitz normal equations of the exact r
  mat = toeplitz_of(r, p)
  absmat = toeplitz_of([Fraction(v, dx * dx) for v in absr], p)
  judge_symmetric(ctx, case, "kautocor", a, err, mat, absmat, p)
  return True


def run_kcovar(ctx, case):
  _, x, order, style = case
  xs = [frac(v) for v in x]
  n = len(xs)
  p = n - 1 if order is None else order
  if p < 1 or p >= n:
    return False                  # lag_matrix refuses: statement is silent
  phi = ref_lag_matrix(xs, p)
  piv = pivots(phi, 1, p)
  singular = len(piv) < p or any(v == 0 for v in piv)
  func = getattr(lpc, KCOVAR_NAMES[style % 3])
  blk = list(x) if style < 3 else tuple(x)
  try:
    if order is None:
      filt = func(blk)
    elif style % 2:
      filt = func(blk, order=order)
    else:
      filt = func(blk, order)
  except ValueError as exc:
    if "nstable" not in str(exc):
      raise
    ctx.count("kcovar:does-not-return/ValueError-unstable")
    return False
  except ZeroDivisionError:
    ctx.count("kcovar:does-not-return/ZeroDivisionError" +
              ("-singular" if singular else "-regular"))
    return False
  if singular:
    # exact recursion divides by zero: outside the statement.  Information
    # only (never a violation): does the float result still solve the system?
    ok = False
    try:
      num = list(filt.numerator)
      if all(finite_number(v) for v in num) and len(num) <= p + 1:
        a = [frac(v) for v in num] + [Fraction(0)] * (p + 1 - len(num))
        absphi = ref_lag_matrix(xs, p, absolute=True)
        ok = all(within(abs(sum(a[j] * phi[i][j] for j in range(p + 1))),
                        sum(abs(a[j]) * absphi[i][j] for j in range(p + 1)))
                 for i in range(1, p + 1))
    except Exception:  # noqa - information only
      ok = False
    ctx.count("kcovar:singular-input/returned-" +
              ("consistent" if ok else "inconsistent"))
    return False
  ctx.count("kcovar:returned-judged")
  ctx.count("branch:kcovar-order%s" % ("1" if p == 1 else ">=2"))
  got = read_filter(ctx, case, "kcovar", filt, p)
  if got is None:
    return True
  a, err = got
  absphi = ref_lag_matrix(xs, p, absolute=True)
  mat = [[Fraction(v) for v in row] for row in phi]
  absmat = [[Fraction(v) for v in row] for row in absphi]
  if not judge_symmetric(ctx, case, "kcovar", a, err, mat, absmat, p):
    return True
  # error == residual energy over n >= p, by direct filtering
  energy = sum(sum(a[j] * xs[m - j] for j in range(p + 1)) ** 2
               for m in range(p, n))
  s2 = sum(abs(a[i] * a[j]) * absmat[i][j]
           for i in range(p + 1) for j in range(p + 1))
  diff = abs(err - energy)
  ctx.err("kcovar:error-vs-energy/scale", float(diff / s2) if s2 else
          (0.0 if diff == 0 else float("inf")), 1e-9)
  if not within(diff, s2):
    ctx.violation("kcovar/error-is-not-the-residual-energy", case,
                  a=[float(v) for v in a], error=float(err),
                  energy=float(energy))
  return True


def run_acorr(ctx, case):
  _, x, lag = case
  n = len(x)
  blk = list(x)
  got = acorr(blk) if lag is None else acorr(blk, lag)
  m = n - 1 if lag is None else lag
  want = ref_acorr([frac(v) for v in x], m)
  ctx.count("acorr_compared")
  if m > n - 1:
    ctx.count("branch:acorr-lag>=len")
  if not isinstance(got, list) or len(got) != len(want) or \
     not all(finite_number(g) and frac(g) == w for g, w in zip(got, want)):
    ctx.violation("acorr/differs-from-plain-sums", case, got=got, want=want)
  return True


def run_lagm(ctx, case):
  _, x, lag = case
  n = len(x)
  blk = list(x)
  got = lag_matrix(blk) if lag is None else lag_matrix(blk, lag)
  m = n - 1 if lag is None else lag
  want = ref_lag_matrix([frac(v) for v in x], m)
  ctx.count("lag_matrix_compared")
  ok = isinstance(got, list) and len(got) == m + 1 and all(
    isinstance(row, list) and len(row) == m + 1 and
    all(finite_number(g) and frac(g) == w for g, w in zip(row, wrow))
    for row, wrow in zip(got, want))
  if not ok:
    ctx.violation("lag_matrix/differs-from-plain-sums", case, got=got,
                  want=want)
  return True


def run_toep(ctx, case):
  _, vect, as_tuple = case
  arg = tuple(vect) if as_tuple else list(vect)
  got = toeplitz(arg)
  want = ref_toeplitz(vect)
  ctx.count("toeplitz_compared")
  ok = isinstance(got, list) and len(got) == len(want) and all(
    isinstance(row, list) and len(row) == len(wrow) and
    all(same_item(g, w) for g, w in zip(row, wrow))
    for row, wrow in zip(got, want))
  if not ok:
    ctx.violation("toeplitz/differs-from-table", case, got=got, want=want)
  return len(vect) > 0


RUNNERS = {"ld": run_ld, "kautocor": run_kautocor, "kcovar": run_kcovar,
           "acorr": run_acorr, "lagm": run_lagm, "toep": run_toep}


def run_case(ctx, case):
  return RUNNERS[case[0]](ctx, case)


def finish(ctx):
  ctx.need("branch:ld-full-order-judged", 100)
  ctx.need("branch:ld-truncated-order-judged", 100)
  ctx.need("branch:ld-zero-extension-judged", 100)
  ctx.need("ld:rows_checked", 1000)
  ctx.need("ld:forward-checked", 50)
  ctx.need("ld:not-judged/exact-recursion-divides-by-zero", 10)
  ctx.need("branch:kautocor-order<len-judged", 100)
  ctx.need("branch:kautocor-order>=len-judged", 100)
  ctx.need("kautocor:gradient_rows_checked", 1000)
  ctx.need("kautocor:rows_checked", 1000)
  ctx.need("kcovar:returned-judged", 200)
  ctx.need("branch:kcovar-order1", 50)
  ctx.need("branch:kcovar-order>=2", 100)
  ctx.need("kcovar:rows_checked", 400)
  ctx.need("kcovar:does-not-return/ValueError-unstable", 20)
  ctx.need("acorr_compared", 100)
  ctx.need("branch:acorr-lag>=len", 20)
  ctx.need("lag_matrix_compared", 100)
  ctx.need("toeplitz_compared", 50)
  ctx.need("trailing_zero_coefficients_dropped", 10)


# extension family (second round of seeded changes), see props/c10_x.py
from props import c10_x as _x, ext as _ext
_ext.install(globals(), _x)
