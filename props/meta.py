"""Static metadata per property, collected from props/cNN_meta.py files (which
never import audiolazy, so the driver can read them without touching the tree
under test).  Each cNN_meta.py defines a dict META with keys

  rule         how cases are generated and what makes one distinct/non-trivial
  assumptions  list of strings (property-specific trusted base)
  level_text   what assurance the check gives (MANIFEST level_claimed.text)
  technique    a few words naming the deciding method
  shards       optional {"quick": n, "thorough": n}
  soft_s       optional {"quick": s, "thorough": s}  soft per-shard time budget
  hard_s       optional {"quick": s, "thorough": s}  watchdog (inconclusive)
"""
import glob
import importlib
import os

COMMON_ASSUMPTIONS = [
  "CPython /venv/bin/python executes the pure-Python library as written; the "
  "monitors observe only the executions of this run",
  "the independent reference oracle in props/<id>.py states the property "
  "correctly",
]

META = {}
for _path in sorted(glob.glob(os.path.join(os.path.dirname(__file__),
                                           "c[0-9][0-9]_meta.py"))):
  _name = os.path.basename(_path)[:-3]
  try:
    _mod = importlib.import_module("props." + _name)
    _m = dict(_mod.META)
    _m["rule"], _m["level_text"], _m["technique"]
  except Exception as _exc:  # a broken meta file must not break other checks
    import sys
    sys.stderr.write("props/%s.py unusable: %r\n" % (_name, _exc))
    continue
  _m["assumptions"] = COMMON_ASSUMPTIONS + list(_m.get("assumptions", []))
  _m.setdefault("level", "exploration")
  META[_name[:3].upper()] = _m
