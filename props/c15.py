"""C15 - MultiKeyDict / StrategyDict stay coherent under any update history.

A case is an operation history.  After EVERY operation the real object is
compared with an independent reference model (a list of recency-ordered groups)
on everything observable through the public API.

Reading of the statement that the model implements
--------------------------------------------------
* ``d[k]`` is the last value assigned to ``k`` (KeyError when ``k`` holds
  nothing).
* Keys holding EQUAL (``==``) values form one group = one key tuple.  "In order
  of most recent assignment": the tuple lists the keys from the least recently
  assigned to the most recently assigned one; the keys of a key-tuple
  assignment count as assigned left to right.  (``mk[4] = 2; mk[1] = 2`` gives
  ``(4, 1)`` in the class docstring.)  Deleting a key keeps the order of the
  others.
* ``len`` / iteration / ``keys()`` work on groups (values / key tuples).
* Which representative of ``1 / 1.0 / True`` is stored is unspecified: every
  comparison of values is by ``==``.
* StrategyDict: every stored name is an attribute holding the item, removed
  names have no attribute, the default is the first strategy stored, it is
  dropped when a strategy equal to it loses its last name and re-chosen by the
  next insertion (which may be the very assignment that took the name away);
  a manually assigned ``default`` stays until the strategy equal to it loses
  its last name (class docstring "Hint"); calling the dict calls the default.

Key tuples naming a key twice follow from the same reading (the key was most
recently assigned at its last position; the result lists it once).
Not generated because the statement is silent: empty key tuples, tuple-valued *keys*, keys that are equal-but-distinct
(``1`` / ``True``), unhashable or NaN values, attribute names that collide with
dict / StrategyDict attributes, ``key2keys`` of a missing key, ``sd.default`` /
``sd()`` while no default is defined, ``delattr(sd, "default")``, attributes
overwritten behind the dictionary's back.
"""
import collections
import itertools

from audiolazy import MultiKeyDict, StrategyDict

ID = "C15"

# ---------------------------------------------------------------------------
# universes
# ---------------------------------------------------------------------------
SMALL_KEYS = ("a", "b", "c")
SMALL_VALUES = (0, 1)
BIG_KEYS = ("a", "b", "c", 0, 1, 2, None, 2.5)          # pairwise unequal
BIG_VALUES = (1, 1.0, True, 0, 0.0, False, (1, 2), (1.0, 2), (), "x", "y",
              None, -1, (1,), "")
SD_NAMES = ("alpha", "beta", "gamma", "delta", "eps", "zeta", "eta", "theta")
SD_SMALL_NAMES = SD_NAMES[:3]
N_FUNCS = 5
CALL_ARGS = ((), (1,), (2, "z"), (None, 0.5, (3,)))


# ---------------------------------------------------------------------------
# reference models (independent of the library)
# ---------------------------------------------------------------------------
class Model(object):
  """key -> value map whose keys are grouped by equal value; each group lists
  its keys from least to most recently assigned."""

  def __init__(self):
    self.groups = []              # [value, [keys...]]

  def find(self, key):
    for g in self.groups:
      if key in g[1]:
        return g
    return None

  def byvalue(self, value):
    for g in self.groups:
      if g[0] == value:
        return g
    return None

  def remove(self, key):
    """Forget ``key``; returns (value, group size before) or None if absent."""
    g = self.find(key)
    if g is None:
      return None
    size = len(g[1])
    g[1].remove(key)
    if not g[1]:
      self.groups = [h for h in self.groups if h is not g]
    return g[0], size

  def assign(self, keys, value):
    # the keys of a tuple count as assigned left to right, so a key given
    # twice was most recently assigned at its LAST position
    last_first = []
    for k in reversed(tuple(keys)):
      if k not in last_first:
        last_first.append(k)
    keys = tuple(reversed(last_first))
    for k in keys:
      self.remove(k)
    g = self.byvalue(value)
    if g is None:
      g = [value, []]
      self.groups.append(g)
    g[0] = value
    g[1].extend(keys)

  def state(self):
    return frozenset((ident(g[0]), tuple(g[1])) for g in self.groups)


class SDModel(Model):
  """Model + default tracking.  Values are the strategy functions."""

  def __init__(self):
    Model.__init__(self)
    self.default = None           # None: no default defined
    self.was_lost = False         # a default lost all its names before
    self.events = []              # monitor event names (counted by run_case)

  def delete(self, name):
    r = self.remove(name)
    if r is not None and r[1] == 1 and r[0] is self.default:
      self.default = None         # the default lost all its names
      self.was_lost = True
      self.events.append("sd:default-lost-all-names")
    return r

  def store(self, names, func):
    for n in names:
      self.delete(n)
    self.assign(names, func)
    if self.default is None:
      self.default = func         # (re-)chosen by this insertion
      self.events.append("sd:default-rechosen-after-loss" if self.was_lost
                         else "sd:default-first-strategy-chosen")

  def state(self):
    return (Model.state(self), ident(self.default))


def ident(v):
  """Hashable stand-in of a value for abstract states / witness details."""
  fid = getattr(v, "fid", None)
  return v if fid is None else "f%d" % fid


def show(v):
  if isinstance(v, (tuple, list)) and not hasattr(v, "fid"):
    return [show(x) for x in v]
  return ident(v)


def make_funcs():
  def mk(i):
    def func(*args):
      return (i, args)
    func.fid = i
    return func
  return [mk(i) for i in range(N_FUNCS)]


# ---------------------------------------------------------------------------
# case generation
# ---------------------------------------------------------------------------
def mkd_ops(keys, values):
  ops = []
  for v in values:
    for k in keys:
      ops.append(("set", k, v))
    for pair in itertools.permutations(keys, 2):
      ops.append(("set", pair, v))
  for k in keys:
    ops.append(("del", k))
  return ops


def sd_ops(names, nfuncs):
  ops = []
  for f in range(nfuncs):
    for n in names:
      ops.append(("set", n, f))
    for pair in itertools.permutations(names, 2):
      # the decorator form and plain item assignment alternate
      ops.append(("strategy", pair, bool(f), f) if (len(ops) & 1)
                 else ("set", pair, f))
  for n in names:
    ops.append(("del", n))
  for n in names:
    ops.append(("delattr", n))
  return ops


def with_repeats(rng, keys):
  """Now and then name one of the keys a second (third) time."""
  keys = list(keys)
  while rng.random() < 0.25:
    keys.insert(rng.randint(0, len(keys)), rng.choice(keys))
  return tuple(keys)


def random_mkd(rng):
  m = Model()
  ops = []
  for _ in range(rng.randint(1, 40)):
    r = rng.random()
    present = [k for k in BIG_KEYS if m.find(k) is not None]
    if r < 0.58:
      if present and rng.random() < 0.35:     # re-use a stored (equal) value
        v = m.find(rng.choice(present))[0]
        if rng.random() < 0.5:
          v = rng.choice([w for w in BIG_VALUES if w == v])
      else:
        v = rng.choice(BIG_VALUES)
      if rng.random() < 0.4:
        ks = with_repeats(rng, rng.sample(BIG_KEYS, rng.randint(1, 4)))
        ops.append(("set", ks, v))
        m.assign(ks, v)
      else:
        k = rng.choice(BIG_KEYS)
        ops.append(("set", k, v))
        m.assign((k,), v)
    elif r < 0.82:
      k = rng.choice(present) if present and rng.random() < 0.75 \
          else rng.choice(BIG_KEYS)
      ops.append(("del", k))
      m.remove(k)
    else:
      ops.append(("get", rng.choice(BIG_KEYS)))
  return ("mkd", "big", ops)


def random_sd(rng):
  funcs = make_funcs()
  m = SDModel()
  ops = []
  for _ in range(rng.randint(1, 40)):
    r = rng.random()
    present = [n for n in SD_NAMES if m.find(n) is not None]
    f = rng.randrange(N_FUNCS)
    if r < 0.30:
      if rng.random() < 0.4:
        ns = with_repeats(rng, rng.sample(SD_NAMES, rng.randint(1, 3)))
        ops.append(("set", ns, f))
      else:
        ns = (rng.choice(SD_NAMES),)
        ops.append(("set", ns[0], f))
      m.store(ns, funcs[f])
    elif r < 0.50:
      ns = with_repeats(rng, rng.sample(SD_NAMES, rng.randint(1, 3)))
      ops.append(("strategy", ns, rng.random() < 0.4, f))
      m.store(ns, funcs[f])
    elif r < 0.66:
      n = rng.choice(present) if present and rng.random() < 0.8 \
          else rng.choice(SD_NAMES)
      ops.append(("del", n))
      m.delete(n)
    elif r < 0.77:
      n = rng.choice(present) if present and rng.random() < 0.8 \
          else rng.choice(SD_NAMES)
      ops.append(("delattr", n))
      m.delete(n)
    elif r < 0.82:
      if present and rng.random() < 0.7:      # a stored strategy (docstring)
        f = m.find(rng.choice(present))[0].fid
      ops.append(("setdefault", f))
      m.default = funcs[f]
    elif r < 0.92:
      ops.append(("call", rng.choice(CALL_ARGS)))
    else:
      ops.append(("get", rng.choice(SD_NAMES)))
  return ("sd", "big", ops)


def cases(ctx):
  # ---- exhaustive sub-spaces (every run, split over the shards) -----------
  # Every history of exactly the maximal length is run and compared after
  # each of its operations, so every shorter history is covered as a prefix.
  mlen = ctx.pick(4, 5)
  slen = ctx.pick(3, 4)
  mops = mkd_ops(SMALL_KEYS, SMALL_VALUES)
  sops = sd_ops(SD_SMALL_NAMES, 2)
  ctx.flag("exhaustive_subspace",
           "MultiKeyDict: every history of length <= %d over %d operations "
           "(3 keys x 2 values: single-key and ordered 2-key-tuple assignment, "
           "deletion; all lookups after every operation) = %d maximal "
           "histories; StrategyDict: every history of length <= %d over %d "
           "operations (3 names x 2 strategies: item / 2-name assignment, "
           "strategy() decorator, del, delattr) = %d maximal histories"
           % (mlen, len(mops), len(mops) ** mlen,
              slen, len(sops), len(sops) ** slen))
  i = 0
  for hist in itertools.product(mops, repeat=mlen):
    if ctx.mine(i):
      yield ("mkd", "small", list(hist))
    i += 1
  for hist in itertools.product(sops, repeat=slen):
    if ctx.mine(i):
      yield ("sd", "small", list(hist))
    i += 1
  # ---- key tuples that name a key twice: every 3-tuple over the small keys
  # with a repetition x both values, after every 2-operation history
  dups = [t for t in itertools.product(SMALL_KEYS, repeat=3)
          if len(set(t)) < 3]
  for pre in itertools.product(mops, repeat=2):
    for t in dups:
      for v in SMALL_VALUES:
        if ctx.mine(i):
          yield ("mkd", "small", list(pre) + [("set", t, v)])
        i += 1
  for pre in itertools.product(sops, repeat=1):
    for t in itertools.product(SD_SMALL_NAMES, repeat=3):
      if len(set(t)) < 3:
        for f in range(2):
          if ctx.mine(i):
            yield ("sd", "small", list(pre) + [
              ("strategy", t, False, f) if (i & 1) else ("set", t, f)])
          i += 1
  rng = ctx.rng
  for _ in ctx.loop(24000, 400000):
    if rng.random() < 0.55:
      yield random_mkd(rng)
    else:
      yield random_sd(rng)


# ---------------------------------------------------------------------------
# monitor
# ---------------------------------------------------------------------------
STATES = collections.defaultdict(set)     # abstract model states (this shard)
_MISSING = object()


class Mismatch(Exception):
  def __init__(self, what, **detail):
    Exception.__init__(self, what)
    self.what = what
    self.detail = detail


def observe(d, m, keys, values, sd):
  """Compare everything observable of ``d`` with the model; raises Mismatch."""
  groups = m.groups
  for k in keys:
    g = m.find(k)
    try:
      got = d[k]
    except KeyError:
      got = _MISSING
    if g is None:
      if got is not _MISSING:
        raise Mismatch("getitem/removed-key-still-readable", for_key=k,
                       got=show(got))
    else:
      if got is _MISSING:
        raise Mismatch("getitem/stored-key-KeyError", for_key=k,
                       want=show(g[0]))
      if not (got is g[0] or got == g[0]):
        raise Mismatch("getitem/not-last-assigned-value", for_key=k,
                       got=show(got), want=show(g[0]))
      kk = d.key2keys(k)
      want = tuple(g[1])
      if kk != want:
        raise Mismatch("key2keys/order" if isinstance(kk, tuple) and
                       sorted(map(repr, kk)) == sorted(map(repr, want))
                       else "key2keys/members", for_key=k, got=show(kk),
                       want=show(want))
    if sd:
      attr = getattr(d, k, _MISSING)
      if g is None:
        if attr is not _MISSING:
          raise Mismatch("attribute/removed-name-still-an-attribute", name=k,
                         got=show(attr))
      elif attr is _MISSING:
        raise Mismatch("attribute/stored-name-has-no-attribute", name=k)
      elif not (attr is g[0] or attr == g[0]):
        raise Mismatch("attribute/differs-from-item", name=k, got=show(attr),
                       want=show(g[0]))
  for v in values:
    g = m.byvalue(v)
    want = () if g is None else tuple(g[1])
    vk = d.value2keys(v)
    if vk != want:
      if g is None:
        what = "value2keys/absent-value-not-empty-tuple"
      elif isinstance(vk, tuple) and \
          sorted(map(repr, vk)) == sorted(map(repr, want)):
        what = "value2keys/order"
      else:
        what = "value2keys/members"
      raise Mismatch(what, value=show(v), got=show(vk), want=show(want))
  n = len(d)
  if n != len(groups):
    raise Mismatch("len/not-number-of-values", got=n, want=len(groups))
  it = list(itertools.islice(iter(d), len(groups) + len(keys) + 3))
  try:
    same = collections.Counter(it) == collections.Counter(g[0] for g in groups)
  except TypeError:
    same = False
  if not same:
    raise Mismatch("iter/not-the-values", got=show(it),
                   want=show([g[0] for g in groups]))
  kt = list(d.keys())
  wantk = set(tuple(g[1]) for g in groups)
  try:
    samek = len(kt) == len(wantk) and set(kt) == wantk
  except TypeError:
    samek = False
  if not samek:
    raise Mismatch("keys/not-the-key-tuples", got=show(kt),
                   want=show(sorted(wantk, key=repr)))
  for t, val in d.items():
    g = m.find(t[0])
    if not (val is g[0] or val == g[0]):
      raise Mismatch("items/key-tuple-paired-with-other-value", keys=show(t),
                     got=show(val), want=show(g[0]))
  if sd and m.default is not None:
    dflt = d.default
    if not (dflt is m.default or dflt == m.default):
      raise Mismatch("default/wrong-strategy", got=show(dflt),
                     want=show(m.default))
  # optional extras: the private maps agree with the public picture
  kd = getattr(d, "_keys_dict", None)
  if isinstance(kd, dict):
    want = dict((k, tuple(g[1])) for g in groups for k in g[1])
    if kd != want:
      raise Mismatch("private/_keys_dict-incoherent",
                     got=show(list(kd.items())), want=show(list(want.items())))
  iv = getattr(d, "_inv_dict", None)
  if isinstance(iv, dict):
    want = dict((g[0], tuple(g[1])) for g in groups)
    if iv != want:
      raise Mismatch("private/_inv_dict-incoherent", got=show(list(iv.items())),
                     want=show(list(want.items())))


def run_case(ctx, case):
  kind, space, ops = case
  sd = kind == "sd"
  count = ctx.count
  if sd:
    d = StrategyDict("c15")
    m = SDModel()
    funcs = make_funcs()
    keys = SD_SMALL_NAMES if space == "small" else SD_NAMES
    values = funcs[:2] if space == "small" else funcs
    for n in keys:
      if hasattr(d, n):        # harness fault, not library behaviour
        raise AssertionError("name %r collides with an attribute" % n)
  else:
    d = MultiKeyDict()
    m = Model()
    keys = SMALL_KEYS if space == "small" else BIG_KEYS
    values = SMALL_VALUES if space == "small" else BIG_VALUES
  seen = STATES[kind, space]
  nsh = ctx.nshards

  for step, op in enumerate(ops):
    name = op[0]
    try:
      # ---------------- perform the operation on both ----------------------
      if name in ("set", "strategy"):
        ks = op[1] if isinstance(op[1], tuple) else (op[1],)
        v = funcs[op[-1]] if sd else op[2]
        old = m.byvalue(v)
        if old is not None:
          count(kind + ":set-merges-with-equal-value")
          if type(old[0]) is not type(v):
            count(kind + ":set-merge-equal-but-distinct-value")
          if any(k in old[1] for k in ks):
            count(kind + ":set-reassigns-same-value(recency-reorder)")
        if any(m.find(k) not in (None, old) for k in ks):
          count(kind + ":set-overwrites-key-of-other-value")
        try:
          if name == "strategy":
            d.strategy(*ks, keep_name=op[2])(v)
            count("sd:strategy-keep_name" if op[2] else "sd:strategy")
          else:
            d[op[1]] = v
            count(kind + (":set-key-tuple" if isinstance(op[1], tuple)
                          else ":set-single-key"))
        except Exception as exc:
          raise Mismatch("%s/raised-%s" % (name, type(exc).__name__),
                         error=repr(exc))
        if len(set(ks)) < len(ks):
          count(kind + ":set-names-a-key-twice")
        if sd:
          m.store(ks, v)
        else:
          m.assign(ks, v)
      elif name in ("del", "delattr"):
        k = op[1]
        present = m.find(k) is not None
        try:
          if name == "del":
            del d[k]
          else:
            delattr(d, k)
          raised = None
        except Exception as exc:
          raised = exc
        if present:
          if raised is not None:
            raise Mismatch("%s/stored-key-raised-%s"
                           % (name, type(raised).__name__), for_key=k,
                           error=repr(raised))
          r = m.delete(k) if sd else m.remove(k)
          count("%s:%s-present" % (kind, name))
          if r[1] > 1:
            count("%s:%s-from-multi-key-group" % (kind, name))
        else:
          count("%s:%s-missing" % (kind, name))
          if name == "del":
            if not isinstance(raised, KeyError):
              raise Mismatch("del/missing-key-no-KeyError", for_key=k,
                             got=repr(raised))
          elif not isinstance(raised, (AttributeError, KeyError)):
            raise Mismatch("delattr/missing-name-no-error", name=k,
                           got=repr(raised))
      elif name == "get":
        k = op[1]
        g = m.find(k)
        try:
          got = d[k]
        except KeyError:
          got = _MISSING
        count("%s:get-%s" % (kind, "missing" if g is None else "present"))
        if (g is None) != (got is _MISSING) or \
           (g is not None and not (got is g[0] or got == g[0])):
          raise Mismatch("getitem/lookup", for_key=k, got=show(
            "KeyError" if got is _MISSING else got),
            want="KeyError" if g is None else show(g[0]))
      elif name == "setdefault":
        d.default = funcs[op[1]]
        m.default = funcs[op[1]]
        count("sd:setdefault-" + ("stored" if m.byvalue(m.default)
                                  else "unstored"))
      elif name == "call":
        if m.default is None:
          count("sd:call-skipped(no default defined)")
        else:
          got = d(*op[1])
          count("sd:call")
          if got != (m.default.fid, tuple(op[1])):
            raise Mismatch("call/not-the-default", got=show(got),
                           want=[m.default.fid, list(op[1])])
      else:
        raise ValueError(name)
      # ---------------- compare everything observable -----------------------
      observe(d, m, keys, values, sd)
    except Mismatch as mm:
      ctx.violation("%s/%s/after-%s" % (kind, mm.what, name), case, step=step,
                    op=show(op), model=show([[g[0], g[1]] for g in m.groups]),
                    real=repr(dict.copy(d)) if isinstance(d, dict) else None,
                    **mm.detail)
      return True
    count(kind + ":steps-compared")
    if sd and m.events:
      for ev in m.events:
        count(ev)
      del m.events[:]
    st = hash(m.state())      # 64-bit hash stands for the state (memory)
    if st not in seen:
      seen.add(st)
      # counters are summed over the shards: the owner-shard count never
      # counts a state twice (lower bound, exact once every shard has reached
      # every state, as in the small universes); the plain count is an upper
      # bound
      if st % nsh == ctx.shard:
        count("%s:abstract-states-%s(owner shard; lower bound)" % (kind, space))
      count("%s:abstract-states-%s(per-shard sum; upper bound)" % (kind, space))
  count(kind + ":histories-" + space)
  return len(ops) > 0


def finish(ctx):
  if not ctx.quick and ctx.shard == 0:
    # extra workload: the repository's own test-suite under passive monitors
    from vlib.passive_run import run_suite
    run_suite(ctx, "mkd")
  # the enumerated spaces must have been run completely (21 / 24 operations)
  for key, minimum in [
      ("mkd:histories-small", 21 ** ctx.pick(4, 5)),
      ("sd:histories-small", 24 ** ctx.pick(3, 4)),
      ("mkd:histories-big", 200), ("sd:histories-big", 200),
      ("mkd:set-single-key", 500), ("mkd:set-key-tuple", 500),
      ("mkd:set-names-a-key-twice", 500), ("sd:set-names-a-key-twice", 100),
      ("mkd:set-merges-with-equal-value", 500),
      ("mkd:set-merge-equal-but-distinct-value", 50),
      ("mkd:set-reassigns-same-value(recency-reorder)", 200),
      ("mkd:set-overwrites-key-of-other-value", 500),
      ("mkd:del-present", 500), ("mkd:del-missing", 200),
      ("mkd:del-from-multi-key-group", 200),
      ("mkd:get-present", 50), ("mkd:get-missing", 50),
      ("sd:set-single-key", 200), ("sd:set-key-tuple", 200),
      ("sd:strategy", 100), ("sd:strategy-keep_name", 100),
      ("sd:set-merges-with-equal-value", 200),
      ("sd:set-overwrites-key-of-other-value", 200),
      ("sd:del-present", 200), ("sd:del-missing", 100),
      ("sd:del-from-multi-key-group", 50),
      ("sd:delattr-present", 200), ("sd:delattr-missing", 100),
      ("sd:delattr-from-multi-key-group", 50),
      ("sd:get-present", 30), ("sd:get-missing", 30),
      ("sd:setdefault-stored", 30), ("sd:setdefault-unstored", 30),
      ("sd:call", 50),
      ("sd:default-first-strategy-chosen", 200),
      ("sd:default-lost-all-names", 200),
      ("sd:default-rechosen-after-loss", 100),
      ("mkd:steps-compared", 5000), ("sd:steps-compared", 5000)]:
    ctx.need(key, minimum)


# extension family (second round of seeded changes), see props/c15_x.py
from props import c15_x as _x, ext as _ext
_ext.install(globals(), _x)
