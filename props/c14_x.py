"""C14 extension family (second round of seeded changes):

recall   every call must return the window of its arguments, whatever the
         caller did to the lists returned by earlier calls: call, mutate the
         returned list in place, call again with the same arguments (same call
         form), compare with the first snapshot; also two results of the same
         call must not be the same list object
"""
from audiolazy import window, wsymm

KINDS = ("recall",)


def cases(ctx):
  rng = ctx.rng
  names = sorted({k for t in window.keys() for k in t})
  i = 0
  for name in names:
    for size in (1, 2, 3, 7, 16, 31, 64):
      for which in ("window", "wsymm"):
        if ctx.mine(i):
          # sizes unlikely to have been requested before in this process
          yield ("recall", which, name, size + 1000 * (1 + i % 7),
                 rng.choice(["pos", "kw"]))
        i += 1


def run_case(ctx, case):
  _, which, name, size, form = case
  sd = window if which == "window" else wsymm
  try:
    f = sd[name]
  except KeyError:
    return False          # a missing name is the main check's business
  call = (lambda: f(size)) if form == "pos" else (lambda: f(size=size))
  first = call()
  snapshot = list(first)
  # what a caller may do with a list it was given
  first[:] = [7.5] * len(first)
  first.append(-1.0)
  del first[0]
  second = call()
  ctx.count("recall-after-mutation-checked")
  if second is first:
    ctx.violation("recall/same-list-object-returned-twice", case)
    return True
  if list(second) != snapshot:
    ctx.violation("recall/result-depends-on-what-the-caller-did-to-an-earlier-"
                  "result", case, got=list(second)[:8], want=snapshot[:8],
                  got_len=len(second), want_len=len(snapshot))
    return True
  second[0] = 123.0
  third = call()
  if list(third) != snapshot:
    ctx.violation("recall/result-depends-on-what-the-caller-did-to-an-earlier-"
                  "result", case, got=list(third)[:8], want=snapshot[:8],
                  call=3)
  return True


def finish(ctx):
  ctx.need("recall-after-mutation-checked", 50)
