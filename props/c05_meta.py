META = {
  "rule":
    "cases: (alg) triples f, g, h of rational filters with integer "
    "coefficients, numerator/denominator order 0..3 (FIR and IIR, shared and "
    "distinct denominators, leading pure delays), a scalar c (int / Fraction "
    "/ dyadic float), a power 0..4, a delay 1..5 and symbolic inputs of "
    "length 1..7 - about 35 composites per triple (+ - * / ** scalar forms, "
    "commuted forms, associativity, distributivity, a depth-3 tree, cascade / "
    "parallel containers of 1-3 parts, substitution f(g) at rational points); "
    "(eq) pairs that are equal, differ only in the numerator, only in the "
    "denominator, or in both, built by five construction routes; (linearize) "
    "dyadic fractional delays. Non-trivial = at least one comparison made; "
    "distinct = distinct case descriptions",
  "assumptions": [
    "output-level laws are asserted with zero initial conditions and only "
    "for causal composites (a non-causal composite must raise ValueError when "
    "called)",
    "field laws are asserted as rational-function equality "
    "(cross-multiplication in exact rationals), not as structural ==",
    "division by the zero filter and negative powers are not generated"],
  "level_text":
    "Runtime monitoring of the real filter operators: each composite filter "
    "built by the library is compared as a rational function with an "
    "independent Fraction model, and at output level - on exact symbolic "
    "samples through the real generated code - with the model's difference "
    "equation and with the same combination of the parts' outputs; ==, != "
    "and hash are observed on constructed pairs. Sampled triples (thousands "
    "per run), each deciding its laws for every sample value.",
  "shards": {"quick": 8, "thorough": 16},
  "technique": "runtime monitor: rational-function model + exact linear "
               "shadow samples through real composite filters",
}

# EXTENSION families added after the seeded-change rounds
META["rule"] += (" Added after the seeded-change rounds: " 'the three operand objects are REUSED by every expression of a case and must be unchanged (polynomials, ==, hash, output) at the end; output laws also evaluated from several threads at once' ".")
