#!/usr/bin/env python3
"""usage: baseline_check.py <worktree>   -> prints BASELINE OK or the tests that no longer pass"""
import json, os, subprocess, sys, tempfile, xml.etree.ElementTree as ET
wt = os.path.abspath(sys.argv[1])
base = set(json.load(open('/root/.vp/BASELINE.json'))['stable_pass'])
fd, junit = tempfile.mkstemp(suffix='.xml'); os.close(fd)
env = dict(os.environ, PYTHONDONTWRITEBYTECODE='1')
r = subprocess.run(['/venv/bin/python', '-m', 'pytest', '-q', '-p', 'no:cacheprovider', '--timeout=900',
                    '--continue-on-collection-errors', '-x', '--maxfail=100000', '--junitxml=' + junit, '--no-cov',
                    '--ignore=SEED', '--ignore=HUNT', '--ignore=REVIEW'],  # deliverables of sub-agents are not tests
                   cwd=wt, env=env, capture_output=True, text=True)
try:
    t = ET.parse(junit)
except Exception as e:
    print("pytest did not produce results:", e); print(r.stdout[-2000:]); sys.exit(2)
passed = set()
for tc in t.iter('testcase'):
    if not any(ch.tag in ('failure', 'error', 'skipped') for ch in tc):
        passed.add(tc.get('classname') + '::' + tc.get('name'))
os.unlink(junit)
miss = sorted(base - passed)
if miss:
    print("BASELINE BROKEN: %d baseline tests no longer pass, e.g." % len(miss)); print("\n".join(miss[:15])); sys.exit(1)
print("BASELINE OK (%d baseline tests pass, %d passed in total)" % (len(base), len(passed)))
