"""Passive monitors run underneath the repository's own test-suite (pytest
plugin: ``-p vlib.passive``).  The suite is only a source of extra workload:
its own results are ignored, only the monitors' verdicts count.

* blocks(): every yielded block is snapshotted and compared with the slice of
  the items the wrapper itself handed to the generator (C08).  The docstring
  allows consumers to mutate the yielded deque (the change then legitimately
  shows in the next block): the wrapper re-reads the deque when the generator
  is resumed and stops judging that generator instance if it was modified.
* MultiKeyDict / StrategyDict: after every item assignment / deletion the three
  views of the object (item access per key, key2keys, value2keys, len, values)
  must agree with each other and with a shadow key -> value map (C15).

Results are written as JSON to $VERIF_PASSIVE_OUT at session end.
"""
import json
import os
import sys

STATE = {"blocks": {"generators": 0, "blocks_compared": 0, "tails_checked": 0,
                    "stopped_judging_mutated": 0, "violations": []},
         "mkd": {"ops": 0, "instances": 0, "violations": []},
         "poly": {"constructed": 0, "coefficients_checked": 0,
                  "eq_true_hash_checked": 0, "eq_ne_checked": 0,
                  "products_evaluated": 0, "sums_evaluated": 0,
                  "skipped_not_exact": 0, "monitor_errors": 0,
                  "violations": []},
         "stream": {"take_vs_peek": 0, "peek_twice": 0, "skipped": 0,
                    "monitor_errors": 0, "violations": []},
         "filt": {"eq_ne_checked": 0, "monitor_errors": 0, "violations": []}}


def _same(a, b):
  if len(a) != len(b):
    return False
  for p, q in zip(a, b):
    if p is q:
      continue
    try:
      if p != q:
        return False
    except Exception:  # noqa
      return False
  return True


def make_blocks_monitor(real_blocks):
  st = STATE["blocks"]

  def blocks(seq, size=None, hop=None, padval=0.):
    seen = []

    def recorder():
      for el in seq:
        seen.append(el)
        yield el
    gen = real_blocks(recorder(), size, hop, padval)
    st["generators"] += 1
    h = size if hop is None else hop
    k = 0
    judging = isinstance(size, int) and isinstance(h, int) and h >= 1
    ended = False
    while True:
      try:
        blk = next(gen)
      except StopIteration:
        ended = True
        break
      snap = list(blk)
      if judging:
        start = k * h
        want = seen[start:start + size]
        if len(want) < size:               # the padded tail block
          real = len(seen) - start
          ok = (real > max(size - h, 0) and _same(snap[:real], seen[start:])
                and all(x is padval or x == padval for x in snap[real:]))
          st["tails_checked"] += 1
        else:
          ok = _same(snap, want)
        st["blocks_compared"] += 1
        if not ok and len(st["violations"]) < 5:
          st["violations"].append({"block": k, "size": size, "hop": h,
                                   "got": repr(snap)[:300],
                                   "want": repr(want)[:300],
                                   "items_seen": len(seen)})
      yield blk
      if judging and list(blk) != snap:    # the consumer changed the deque
        judging = False
        st["stopped_judging_mutated"] += 1
      k += 1
    if judging and ended:
      # no block missing at the end: a padded tail must exist iff needed
      real = len(seen) - k * h
      if real > max(size - h, 0) and not (k > 0 and (k - 1) * h + size >
                                          len(seen)):
        if len(st["violations"]) < 5:
          st["violations"].append({"missing_tail_block": True, "size": size,
                                   "hop": h, "items_seen": len(seen),
                                   "blocks": k})
  blocks.__doc__ = real_blocks.__doc__
  blocks.__name__ = "blocks"
  blocks.__module__ = real_blocks.__module__
  return blocks


def coherent(d):
  """Mutual coherence of the public views of a MultiKeyDict."""
  tuples = list(dict.keys(d))
  keys = [k for t in tuples for k in t]
  if len(set(keys)) != len(keys):
    return "a key appears in two key tuples"
  for t in tuples:
    v = dict.__getitem__(d, t)
    for k in t:
      if d.key2keys(k) != t:
        return "key2keys(%r) != its tuple" % (k,)
      try:
        if not (d[k] is v or d[k] == v):
          return "d[%r] is not its tuple's value" % (k,)
      except Exception as exc:  # noqa
        return "d[%r] raised %r" % (k, exc)
    if d.value2keys(v) != t:
      return "value2keys(value of %r) != %r" % (t, t)
  if len(d) != len(tuples):
    return "len != number of key tuples"
  return None


def install_mkd_monitor(core):
  st = STATE["mkd"]
  MKD = core.MultiKeyDict
  real_set, real_del = MKD.__setitem__, MKD.__delitem__
  depth = [0]

  def check(self, what, key):
    st["ops"] += 1
    msg = coherent(self)
    if msg and len(st["violations"]) < 5:
      st["violations"].append({"after": what, "key": repr(key)[:100],
                               "problem": msg, "keys": repr(list(
                                 dict.keys(self)))[:300]})

  def __setitem__(self, key, value):
    depth[0] += 1
    try:
      real_set(self, key, value)
    finally:
      depth[0] -= 1
    if depth[0] == 0:
      keys = key if isinstance(key, tuple) else (key,)
      check(self, "set", key)
      for k in keys:
        try:
          if not (self[k] is value or self[k] == value):
            if len(st["violations"]) < 5:
              st["violations"].append({"after": "set", "key": repr(k),
                                       "problem": "d[k] is not the value "
                                                  "just assigned"})
        except Exception:  # noqa
          pass

  def __delitem__(self, key):
    depth[0] += 1
    try:
      real_del(self, key)
    finally:
      depth[0] -= 1
    if depth[0] == 0:
      check(self, "del", key)
      if key in getattr(self, "_keys_dict", {}):
        if len(st["violations"]) < 5:
          st["violations"].append({"after": "del", "key": repr(key),
                                   "problem": "deleted key still present"})
  MKD.__setitem__ = __setitem__
  MKD.__delitem__ = __delitem__


def _vio(st, **kw):
  if len(st["violations"]) < 5:
    st["violations"].append({k: (v if isinstance(v, (int, bool)) else
                                 repr(v)[:300]) for k, v in kw.items()})


def install_poly_monitor(poly_mod):
  """C07 invariants at hooks on the real Poly class while the test-suite (and
  all the filter code built on Poly) runs:
  * after every construction no stored numeric coefficient is zero;
  * whenever == answers True the hashes of (copies of) both sides agree and
    != answers False - copies, because hashing freezes a Poly;
  * for exact-rational operands (p*q)(v) == p(v)*q(v) and (p+q)(v) ==
    p(v)+q(v) at a fixed rational point."""
  from fractions import Fraction
  import numbers
  st = STATE["poly"]
  Poly = poly_mod.Poly
  Stream = poly_mod.Stream
  real_init, real_eq = Poly.__init__, Poly.__eq__
  real_mul, real_add = Poly.__mul__, Poly.__add__
  busy = [0]
  V = Fraction(3, 7)

  def exact(p):
    if not (type(p.zero) in (int, float) and p.zero == 0):
      return False
    for k, c in p.terms():
      if type(k) is not int or type(c) not in (int, Fraction) or abs(k) > 40:
        return False
    return True

  def __init__(self, *a, **kw):
    real_init(self, *a, **kw)
    if busy[0]:
      return
    busy[0] += 1
    try:
      st["constructed"] += 1
      z = self.zero
      if isinstance(z, numbers.Number) and not isinstance(z, bool) and z == 0:
        for k, c in self.terms():
          if isinstance(c, numbers.Number) and not isinstance(c, Stream):
            st["coefficients_checked"] += 1
            if c == 0:
              _vio(st, problem="zero coefficient stored", power=k, coeff=c,
                   poly=dict(self.terms()))
    except Exception:  # noqa
      st["monitor_errors"] += 1
    finally:
      busy[0] -= 1

  def __eq__(self, other):
    res = real_eq(self, other)
    if busy[0] or not isinstance(other, Poly):
      return res
    busy[0] += 1
    try:
      ne = Poly.__ne__(self, other)
      st["eq_ne_checked"] += 1
      if (res is True and ne is not False) or (res is False and
                                               ne is not True):
        _vio(st, problem="== and != disagree", eq=res, ne=ne,
             a=dict(self.terms()), b=dict(other.terms()))
      if res is True:
        try:
          ha, hb = hash(Poly(self)), hash(Poly(other))
        except TypeError:
          ha = hb = None
        if ha is not None:
          st["eq_true_hash_checked"] += 1
          if ha != hb:
            _vio(st, problem="p == q but hash(p) != hash(q)",
                 a=dict(self.terms()), b=dict(other.terms()))
    except Exception:  # noqa
      st["monitor_errors"] += 1
    finally:
      busy[0] -= 1
    return res

  def homo(name, real, comb, counter):
    def op(self, other):
      res = real(self, other)
      if busy[0] or not isinstance(other, Poly) or not isinstance(res, Poly):
        return res
      busy[0] += 1
      try:
        if exact(self) and exact(other) and exact(res):
          st[counter] += 1
          got, want = res(V), comb(self(V), other(V))
          # an empty Poly evaluates to its zero, the float 0.0 by default
          ok = got == want if type(got) is not float and \
            type(want) is not float else abs(got - want) <= 1e-9 * max(
              1, abs(want))
          if not ok:
            _vio(st, problem="(p %s q)(v) != p(v) %s q(v)" % (name, name),
                 p=dict(self.terms()), q=dict(other.terms()),
                 r=dict(res.terms()), got=got, want=want)
        else:
          st["skipped_not_exact"] += 1
      except Exception:  # noqa
        st["monitor_errors"] += 1
      finally:
        busy[0] -= 1
      return res
    op.__name__ = real.__name__
    return op
  Poly.__init__ = __init__
  Poly.__eq__ = __eq__
  Poly.__hash__ = Poly.__hash__       # defining __eq__ must not drop the hash
  Poly.__mul__ = homo("*", real_mul, lambda a, b: a * b, "products_evaluated")
  Poly.__add__ = homo("+", real_add, lambda a, b: a + b, "sums_evaluated")


def install_stream_monitor(stream_mod):
  """C03 at a hook: take(n) must return what peek(n) showed just before (and
  peek must remove nothing: two peeks agree).  Only for small integer n, so
  nothing endless is drained; peeking ahead is not observable through a
  Stream (the items are put back in front)."""
  st = STATE["stream"]
  Stream = stream_mod.Stream
  real_take, real_peek = Stream.take, Stream.peek
  busy = [0]

  def take(self, n=None, constructor=list):
    if busy[0] or type(self) is not Stream or \
       constructor not in (list, tuple) or \
       not (n is None or (type(n) is int and 0 <= n <= 64)):
      if not busy[0]:
        st["skipped"] += 1
      return real_take(self, n, constructor)
    busy[0] += 1
    try:
      try:
        first = ("ok", real_peek(self, n))
      except StopIteration:
        first = ("stop", None)
      # any other exception came from the source while reading the very
      # items take() would read: it is take()'s outcome too (a generator that
      # raised is finished, so asking again would change the behaviour)
      try:
        second = ("ok", real_peek(self, n)) if first and first[0] == "ok" \
                 else None
      except Exception:  # noqa
        second = None
    finally:
      busy[0] -= 1
    try:
      res = real_take(self, n, constructor)
    except StopIteration:
      if first is not None and first[0] == "ok":
        _vio(st, problem="take raised StopIteration after peek returned",
             n=n, peeked=first[1])
      raise
    try:
      if first is not None and first[0] == "ok":
        st["take_vs_peek"] += 1
        a = first[1] if n is not None else [first[1]]
        b = list(res) if n is not None else [res]
        if not _same(list(a), b):
          _vio(st, problem="take(n) differs from the preceding peek(n)",
               n=n, peeked=first[1], taken=res)
        if second is not None:
          st["peek_twice"] += 1
          c = second[1] if n is not None else [second[1]]
          if not _same(list(a), list(c)):
            _vio(st, problem="two successive peek(n) differ", n=n,
                 first=first[1], second=second[1])
      elif first is not None and first[0] == "stop" and n is None:
        _vio(st, problem="peek() raised StopIteration but take() returned",
             taken=res)
    except Exception:  # noqa
      st["monitor_errors"] += 1
    return res
  take.__doc__ = real_take.__doc__
  Stream.take = take


def install_filter_monitor(filt_mod):
  """C05: == and != of filters never both hold / both fail."""
  st = STATE["filt"]
  LF = filt_mod.LinearFilter
  real_eq = LF.__eq__
  busy = [0]

  def __eq__(self, other):
    res = real_eq(self, other)
    if busy[0] or not isinstance(other, LF):
      return res
    busy[0] += 1
    try:
      ne = LF.__ne__(self, other)
      st["eq_ne_checked"] += 1
      if isinstance(res, bool) and isinstance(ne, bool) and res == ne:
        _vio(st, problem="== and != agree", eq=res, ne=ne)
    except Exception:  # noqa
      st["monitor_errors"] += 1
    finally:
      busy[0] -= 1
    return res
  hsh = LF.__hash__
  LF.__eq__ = __eq__
  LF.__hash__ = hsh


def pytest_configure(config):
  repo = os.environ.get("VERIF_REPO", "/repo")
  import audiolazy
  assert os.path.realpath(audiolazy.__file__).startswith(
    os.path.realpath(repo) + os.sep), audiolazy.__file__
  from audiolazy import lazy_misc, lazy_core
  real = lazy_misc.blocks
  mon = make_blocks_monitor(real)
  for name, mod in list(sys.modules.items()):
    if name.startswith("audiolazy") and mod is not None and \
       getattr(mod, "blocks", None) is real:
      setattr(mod, "blocks", mon)
  install_mkd_monitor(lazy_core)
  from audiolazy import lazy_poly, lazy_stream, lazy_filters
  install_poly_monitor(lazy_poly)
  install_stream_monitor(lazy_stream)
  install_filter_monitor(lazy_filters)


def pytest_sessionfinish(session, exitstatus):
  out = os.environ.get("VERIF_PASSIVE_OUT")
  if out:
    with open(out, "w") as f:
      json.dump(STATE, f)
