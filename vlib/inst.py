"""Shared instruments: pull-counting Probe, exact linear shadow values Lin,
observation helpers that never use the code under test."""
import itertools
import math
from fractions import Fraction

inf = float("inf")


class OverRead(Exception):
  """A stage pulled more source items than its allowance."""


class Probe(object):
  """Pull-counting source iterator.

  items:   finite list, or None with ``endless`` a function index -> item
  cap:     raise OverRead on the (cap+1)-th pull (None: no cap)
  after:   what to do past the end of a finite list: "stop" (StopIteration)
  """
  def __init__(self, items=None, endless=None, cap=None, name="src"):
    self.items = items
    self.endless = endless
    self.cap = cap
    self.name = name
    self.pulls = 0          # number of successful item deliveries
    self.calls = 0          # number of __next__ calls (incl. the one that ended)
    self.ended = 0          # StopIterations delivered
    self.log = []           # optional: (event) appended by users

  def __iter__(self):
    return self

  def __next__(self):
    self.calls += 1
    if self.cap is not None and self.pulls >= self.cap:
      raise OverRead("%s: pull %d exceeds cap %d" % (self.name, self.pulls + 1,
                                                     self.cap))
    if self.items is not None:
      if self.pulls >= len(self.items):
        self.ended += 1
        raise StopIteration
      v = self.items[self.pulls]
    else:
      v = self.endless(self.pulls)
    self.pulls += 1
    return v


def take(iterable, n):
  """First n items, using only itertools (never Stream.take)."""
  return list(itertools.islice(iter(iterable), n))


def drain(iterable, limit=100000):
  """All items of a finite iterable, with a safety bound.  Returns
  (items, exception or None, hit_limit)."""
  out = []
  it = iter(iterable)
  try:
    for _ in range(limit):
      out.append(next(it))
  except StopIteration:
    return out, None, False
  except Exception as exc:  # noqa
    return out, exc, False
  return out, None, True


def frac(x):
  """Exact rational value of an int / float / Fraction / bool."""
  if isinstance(x, Fraction):
    return x
  if isinstance(x, bool):
    return Fraction(int(x))
  if isinstance(x, int):
    return Fraction(x)
  if isinstance(x, float):
    return Fraction(x)   # exact
  raise TypeError("not a real number: %r" % (x,))


class Lin(object):
  """Exact linear form  sum_s c_s * s + c0  over Fractions.

  Number-like enough to travel through the real (exec-generated) filter code:
  + - with numbers and Lin, * / with numbers.  Lin*Lin is refused
  (non-linear).  Equality is equality of forms, i.e. equality for *every*
  value of the symbols."""
  __slots__ = ("t",)

  def __init__(self, terms=None):
    self.t = {k: v for k, v in (terms or {}).items() if v != 0}

  @staticmethod
  def sym(name):
    return Lin({name: Fraction(1)})

  @staticmethod
  def const(c):
    return Lin({"": frac(c)})

  @staticmethod
  def lift(x):
    return x if isinstance(x, Lin) else Lin.const(x)

  def _coerce(self, other):
    if isinstance(other, Lin):
      return other
    if isinstance(other, (int, float, Fraction)) and not (
        isinstance(other, float) and (math.isnan(other) or math.isinf(other))):
      return Lin.const(other)
    return None

  def __add__(self, other):
    o = self._coerce(other)
    if o is None:
      return NotImplemented
    t = dict(self.t)
    for k, v in o.t.items():
      t[k] = t.get(k, 0) + v
    return Lin(t)
  __radd__ = __add__

  def __neg__(self):
    return Lin({k: -v for k, v in self.t.items()})

  def __pos__(self):
    return self

  def __sub__(self, other):
    o = self._coerce(other)
    if o is None:
      return NotImplemented
    return self + (-o)

  def __rsub__(self, other):
    o = self._coerce(other)
    if o is None:
      return NotImplemented
    return o + (-self)

  def __mul__(self, other):
    if isinstance(other, Lin):
      # allowed only when one side is a pure constant
      if set(other.t) <= {""}:
        c = other.t.get("", Fraction(0))
      elif set(self.t) <= {""}:
        return other * self.t.get("", Fraction(0))
      else:
        raise TypeError("Lin*Lin is non-linear")
    else:
      o = self._coerce(other)
      if o is None:
        return NotImplemented
      c = o.t.get("", Fraction(0))
    return Lin({k: v * c for k, v in self.t.items()})
  __rmul__ = __mul__

  def __truediv__(self, other):
    if isinstance(other, Lin):
      if not set(other.t) <= {""}:
        raise TypeError("division by a non-constant Lin")
      c = other.t.get("", Fraction(0))
    else:
      o = self._coerce(other)
      if o is None:
        return NotImplemented
      c = o.t.get("", Fraction(0))
    if c == 0:
      raise ZeroDivisionError("Lin / 0")
    return Lin({k: v / c for k, v in self.t.items()})

  def __eq__(self, other):
    o = self._coerce(other)
    if o is None:
      return NotImplemented
    return self.t == o.t

  def __ne__(self, other):
    r = self.__eq__(other)
    return r if r is NotImplemented else not r

  def __hash__(self):
    return hash(frozenset(self.t.items()))

  def __bool__(self):
    return bool(self.t)

  def subs(self, values):
    """Numeric value for a dict symbol -> number."""
    return sum((v * frac(values[k]) if k else v) for k, v in self.t.items())

  def __repr__(self):
    if not self.t:
      return "Lin(0)"
    parts = []
    for k in sorted(self.t):
      v = self.t[k]
      parts.append("%s%s" % (v, "*" + k if k else ""))
    return "Lin(" + " + ".join(parts) + ")"


def lin_close(a, b, rel=1e-12):
  """Coefficient-wise closeness of two Lin forms (class T comparisons)."""
  a, b = Lin.lift(a), Lin.lift(b)
  worst = 0.0
  for k in set(a.t) | set(b.t):
    x, y = a.t.get(k, Fraction(0)), b.t.get(k, Fraction(0))
    scale = max(abs(x), abs(y), Fraction(1))
    worst = max(worst, float(abs(x - y) / scale))
  return worst <= rel, worst


def dyadic(rng, maxnum=8, maxexp=3):
  """A float k/2^j, exactly representable with lots of headroom."""
  return rng.randint(-maxnum, maxnum) / float(1 << rng.randint(0, maxexp))


def rfrac(rng, maxnum=9, maxden=6, nonzero=False):
  while True:
    f = Fraction(rng.randint(-maxnum, maxnum), rng.randint(1, maxden))
    if f != 0 or not nonzero:
      return f
