META = {
  "rule":
    "four case families. (ola) explicit blocks (list/tuple/deque/generator/"
    "reused-deque containers of list/tuple/deque blocks) through "
    "overlap_add.list: every structure (m 0..6, size 1..10, hop 1..size, "
    "window none/list/callable/generator, normalise on/off, size given/"
    "detected) is enumerated each run with random dyadic values, plus random "
    "larger sizes, library windows and positional/keyword/item call styles. "
    "(cola) blocks(x) -> overlap-add and identity STFT with rect (hop=size), "
    "periodic hann/hamming/bartlett at size/2 and size/4. (stft) random "
    "effective configurations scattered over the keyword layers of the "
    "direct / decorator / partial calling styles with shadowed decoy "
    "definitions, recording pure-Python before/transform/func/"
    "inverse_transform/after stages or None, ola a spy around "
    "overlap_add.list or None, extra ola_* options. (reject) a valid "
    "configuration plus one unknown keyword, or an ola_ option with "
    "ola=None. A case is non-trivial when at least one output sample, block "
    "or refusal was compared; distinct = distinct case descriptions (hash of "
    "repr)",
  "assumptions": [
    "m=0 with size=None, hop>size, an all-zero window under normalisation "
    "(gain undefined), empty windows, ola_size/ola_hop options and an "
    "explicit hop=None given to the STFT wrapper are outside the statement "
    "and are not generated",
    "numpy is absent: only overlap_add.list is exercised and transform, "
    "inverse_transform, before, after and ola are always given explicitly",
    "the five STFT stages are applied in the documented order before, "
    "transform(blk, size), func, inverse_transform(blk, size), after",
    "blocks() semantics (zero-padded tail block) are those established by C08",
    "the consumer of a block snapshots it before the next one is produced "
    "(block containers are reused by design)",
    "class T comparisons use the explicit bound 1e-12*(1+sum|terms|); class D "
    "(dyadic values, power-of-two gain) comparisons are exact"],
  "level_text":
    "Runtime monitoring of the real overlap_add.list generator and of the "
    "real stft wrapper. Every output sample is compared with the double sum "
    "out[n] = sum_k g*w[n-kh]*B_k[n-kh] evaluated in exact rationals with g "
    "computed from its definition (exact == on dyadic inputs when g is a "
    "power of two, explicit 1e-12 relative bound otherwise; a separate "
    "family of non-dyadic Fraction and > 2**53 integer samples, with "
    "Fraction windows, must come out as exactly the sum); the output "
    "length is compared with m*h+size-h. Recording stages observe what the "
    "wrapper feeds to the user function (window times block, documented "
    "stage order, size argument), a spy observes the keywords and blocks the "
    "overlap-add callable receives, unknown/misplaced keywords must be "
    "refused. The small structural space of overlap_add.list is enumerated "
    "completely on every run; values, larger sizes and wrapper "
    "configurations are sampled.",
  "shards": {"quick": 4, "thorough": 16},
  "soft_s": {"quick": 25, "thorough": 240},
  "technique": "runtime monitor: recording stages + overlap-add spy, output "
               "vs exact-rational double-sum oracle, enumerated structure "
               "grid + random cases",
}

# EXTENSION families added after the seeded-change rounds
META["rule"] += (" Added after the seeded-change rounds: " "'reuse' family: the same user-owned window object / callable / stft partial object serves several calls in a row" ".")
