META = {
  "rule":
    "a case is a history for one object. Mixer: (keep, zero, constructor "
    "style, steps) with steps add(delta, data, kind of iterable) / "
    "add(negative delta) / pull(n); 0..6 events, deltas k/2^j (j<=3; int, "
    "float or Fraction) incl. zero, fractional, long gaps and exact ties "
    "T=n+1/2, data lengths 0..6 where event i contributes multiples of 10^i, "
    "integer data with int zero, int/Fraction data with Fraction zero, dyadic "
    "float data with float zero (also non-zero 'zero' values), additions "
    "before and between pulls; every two-event history on the grid "
    "{0,.25,.5,.75,1,1.5,2,2.5,3.5}^2 x lengths {0,1,3}x{0,2} x (second "
    "event added before playback / after 0..3 samples) x keep is enumerated "
    "completely each run. Drift: (offset, delta pattern drawn from 0.1, 1/3, "
    "0.7, 2/3, ... as floats, lengths, event count) expanded to >= 10^3 "
    "(quick) / 10^4 (thorough) output samples, all added first or in blocks "
    "between pulls. ControlStream: (mode, initial value, operand, steps "
    "set(v)/read(n)) read directly or through cs+Stream, Stream+cs, cs*c, "
    "c-cs, -cs. Non-trivial = at least one output sample or event compared; "
    "distinct = distinct histories (hash of repr)",
  "assumptions": [
    "at an exact tie T_i = n + 1/2 both n and n+1 are 'the nearest sample' "
    "(the statement does not choose); the neighbour actually used is only "
    "recorded in the counters tie:observed-*",
    "adding to a non-keep mixer whose end has already been observed, -0.0 / "
    "nan deltas, endless event data and changing .keep after construction "
    "are not generated (statement silent)",
    "a non-keep mixer from which exactly max(start+len) samples were taken "
    "with islice (so that its end was never requested) is still running: an "
    "event added at that moment starts no earlier than the next sample "
    "(counter mix:add-exactly-at-current-end)",
    "'rejected' for a negative delta means add() raises ValueError and the "
    "event is not queued",
    "output samples are compared as exact rationals and by Python type "
    "(type of zero + items); all generated arithmetic is exact (ints, "
    "Fractions, dyadic floats)",
    "drift class: every cumulative time, computed exactly from "
    "Fraction(float), lies >= 1e-6 from a rounding boundary (the mixer's own "
    "float error over 10^5 events is < 1e-10), otherwise the case is skipped",
    "ControlStream copies made with tee/copy/thub (which buffer) are not "
    "generated"],
  "level_text":
    "Runtime monitoring of real Streamix / ControlStream objects under "
    "generated add/pull (set/read) histories: every output sample, the end "
    "of the output (or its continuation with keep) and every add() outcome "
    "is compared with an independent event-table model in exact rationals "
    "(start = max(nearest sample to the exact cumulative time, samples "
    "consumed when added, previous start); sum table; length = max(start + "
    "len)). A two-event grid is enumerated completely on every run, larger "
    "histories are sampled by the tens of thousands, and long accumulations "
    "of non-dyadic float deltas check the absence of drift over 10^3..10^4 "
    "samples. ControlStream reads go through plain iteration, operator "
    "expressions and the peek / take / copy methods. Exploration level: "
    "sampled histories, exact comparison.",
  "soft_s": {"quick": 45, "thorough": 270},
  "technique": "runtime monitor: add/pull histories vs exact-rational event "
               "table (exhaustive two-event grid + random histories + long "
               "drift runs)",
}
