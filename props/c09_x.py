"""C09 extension family (audit round):

olaexact  overlap_add.list on blocks of exact samples that are not dyadic
          floats - non-dyadic Fractions, integers above 2**53 - with no
          window (then without normalisation: 1/ceil(size/hop) is an int
          division) or a Fraction window (normalised or not): nothing in the
          sum needs a float, so every output sample must *equal* the double sum
          out[n] = sum_k w[n-k*h]*B_k[n-k*h] (the statement's quantifier says
          "exact sample values").  A float accumulator rounds 1/3 and loses the
          low bits of 2**53 + 1 on the samples only one block covers.
"""
from fractions import Fraction

from audiolazy import overlap_add, Stream

KINDS = ("olaexact", "olaempty")


def rsample(rng, kind):
  if kind == "big":
    return rng.choice([-1, 1]) * (2 ** 53 + rng.randint(1, 99))
  if kind == "frac":
    return Fraction(rng.randint(-20, 20), rng.choice([3, 5, 7, 9, 11, 15]))
  return rng.choice([rng.randint(-9, 9),
                     Fraction(rng.randint(-20, 20), rng.choice([3, 6, 7]))])


def cases(ctx):
  rng = ctx.rng
  # no block at all and no size given: m*h+size-h samples with m = 0 can only
  # mean "nothing" (the repository's own test_empty expects [] as well)
  i = 0
  for cont in ("list", "tuple", "gen", "stream", "deque"):
    for hop in (None, 1, 3):
      for wnd in ("none", "callable", "list"):
        for norm in (None, True, False):
          if ctx.mine(i):
            yield ("olaempty", cont, hop, wnd, norm)
          i += 1
  for _ in ctx.loop(1200, 60000):
    size = rng.randint(1, 8)
    hop = rng.randint(1, size)
    if size > 2 and rng.random() < 0.3:   # a hop that does not divide the size
      hop = rng.choice([h for h in range(2, size) if size % h] or [hop])
    m = rng.choice([1, 1, 2, 3, 5])
    kind = rng.choice(["big", "frac", "mix"])
    blks = [[rsample(rng, kind) for _ in range(size)] for _ in range(m)]
    wnd = None
    if rng.random() < 0.4:
      wnd = [Fraction(rng.randint(-6, 6), rng.choice([1, 3, 7]))
             for _ in range(size)]
    norm = wnd is not None and rng.random() < 0.5
    if norm and not any(wnd):
      norm = False                  # all-zero window: the gain is undefined
    yield ("olaexact", size, hop, blks, wnd,
           rng.choice(["list", "tuple", "gen", "stream"]), norm)


def run_empty(ctx, case):
  from collections import deque
  _, cont, hop, wnd, norm = case
  src = {"list": list, "tuple": tuple, "gen": iter, "stream": Stream,
         "deque": deque}[cont]([])
  kw = {}
  if hop is not None:
    kw["hop"] = hop
  if wnd == "callable":
    kw["wnd"] = lambda n: [1.] * n
  elif wnd == "list":
    kw["wnd"] = [1., 1.]
  if norm is not None:
    kw["normalize"] = norm
  ctx.count("olaempty:cases")
  try:
    got = list(overlap_add.list(src, **kw))
  except Exception as exc:  # noqa - nothing may be raised
    ctx.violation("olaempty/raises-%s" % type(exc).__name__, case,
                  exc=repr(exc))
    return True
  if got != []:
    ctx.violation("olaempty/yields-samples-from-no-block", case, got=got[:20])
  return True


def run_case(ctx, case):
  if case[0] == "olaempty":
    return run_empty(ctx, case)
  _, size, hop, blks, wnd, cont, norm = case
  m = len(blks)
  n_out = m * hop + size - hop
  want = [Fraction(0)] * n_out
  g = Fraction(1)
  if norm:
    # reciprocal of the largest hop-strided sum of |w| (exact: Fractions only)
    g = 1 / max(sum((abs(w) for w in wnd[j::hop]), Fraction(0))
                for j in range(hop))
    ctx.count("olaexact:normalised")
    if size % hop:
      ctx.count("olaexact:normalised-hop-does-not-divide-size")
  for k, blk in enumerate(blks):
    for i, v in enumerate(blk):
      want[k * hop + i] += g * (1 if wnd is None else wnd[i]) * v
  src = {"list": lambda: [list(b) for b in blks],
         "tuple": lambda: tuple(tuple(b) for b in blks),
         "gen": lambda: (list(b) for b in blks),
         "stream": lambda: Stream([list(b) for b in blks])}[cont]()
  got = list(overlap_add.list(src, size=size, hop=hop,
                              wnd=None if wnd is None else list(wnd),
                              normalize=norm))
  ctx.count("olaexact:cases")
  ctx.count("olaexact:window-" + ("none" if wnd is None else "fractions"))
  if hop < size:
    ctx.count("olaexact:overlapping")
  if len(got) != n_out:
    ctx.violation("olaexact/length", case, got_len=len(got), want_len=n_out)
    return True
  for n, (g, w) in enumerate(zip(got, want)):
    ok = isinstance(g, (int, float, Fraction)) and not isinstance(g, bool) \
         and g == g and abs(g) != float("inf") and Fraction(g) == w
    if not ok:
      ctx.violation("olaexact/sample-is-not-the-exact-sum", case, index=n,
                    got=repr(g), want=str(w),
                    covered_by_one_block=n < size - hop)
      return True
  ctx.count("olaexact:samples-compared", n_out)
  return True


def finish(ctx):
  ctx.need("olaexact:cases", 200)
  ctx.need("olaempty:cases", 100)
  ctx.need("olaexact:overlapping", 100)
  ctx.need("olaexact:window-fractions", 50)
  ctx.need("olaexact:normalised-hop-does-not-divide-size", 20)
