"""C11 - PARCOR step-down inverts Levinson and decides stability correctly.

Three kinds of case (all plain data, every library object is built in
run_case):

("stab", ctype, variant, gain, reals, pairs, num)
    A filter num / (gain * prod(1 - p z^-1)) whose pole set is CHOSEN: real
    rational poles ``reals`` and conjugate pairs re +- im*j (``pairs``, rational
    re / im).  The truth "every pole strictly inside the unit circle" is known
    by construction (exact comparison of |p|^2 with 1).  parcor_stable(f) must
    return that truth for every non-zero gain.

("rt", profile, r0, ks, rtype, extra)
    Reflection coefficients k_1..k_p (last non-zero).  Exact part: the
    step-up filter A_p (Fractions) is handed to parcor, which must yield
    k_p, ..., k_1 (until some |k_m| == 1, where only ParCorError may stop it).
    Levinson part: r is synthesised by the inverse Levinson recursion in exact
    rationals, levinson_durbin(r) must be A_p with error r0*prod(1-k^2),
    parcor of it must yield the k's last first, and my own step-up of the
    yielded values must give back the filter.  levinson_durbin works in floats
    (z ** -m injects 0.0), so this part is toleranced (DESIGN 3.3 class T).

Sign convention (checked against lazy_lpc.py): levinson_durbin does
A_m = A_{m-1} + k_m * z^-m * A_{m-1}(1/z), so k_m is the z^-m coefficient of
A_m; parcor yields numpoly[m] of the current A_m and steps down with
A_{m-1} = (A_m - k_m z^-m A_m(1/z)) / (1 - k_m^2).

Exactness: with Fraction coefficients the library's step-down stays in
Fractions (an intermediate reflection coefficient that is exactly zero is
yielded as the float ``Poly.zero``, 0.0, but since fix F34 the stage is skipped
instead of dividing everything by the float 1 - 0.0**2), so every verdict on
such a filter is judged, poles on the circle included.  For int / float
coefficients the verdict is only judged when it is well-posed in floats (poles
away from the circle, reflection coefficients away from +-1 with a margin far
above the float error); otherwise the case is counted as unjudged.
"""
import math
from fractions import Fraction

from audiolazy import ParCorError, ZFilter, levinson_durbin, parcor, \
                      parcor_stable, z, CascadeFilter, ParallelFilter

ID = "C11"

F = Fraction
KNOWN_KEY = "parcor_stable/non-monic-denominator"

# ---------------------------------------------------------------------------
# exact rational helpers (the oracle never calls the library)
# ---------------------------------------------------------------------------

def polymul(a, b):
  out = [F(0)] * (len(a) + len(b) - 1)
  for i, x in enumerate(a):
    for j, y in enumerate(b):
      out[i + j] += x * y
  return out


def monic_den(reals, pairs):
  """prod (1 - p z^-1) over the chosen poles, coefficients of z^0, z^-1, ..."""
  a = [F(1)]
  for p in reals:
    a = polymul(a, [F(1), -F(p)])
  for re, im in pairs:
    re, im = F(re), F(im)
    a = polymul(a, [F(1), -2 * re, re * re + im * im])
  return a


def trim(a):
  a = list(a)
  while len(a) > 1 and a[-1] == 0:
    a.pop()
  return a


def stepup(ks):
  """A_p from k_1..k_p: A_m = A_{m-1} + k_m z^-m A_{m-1}(1/z)."""
  a = [F(1)]
  for m, k in enumerate(ks, 1):
    a = a + [F(0)]
    a = [a[i] + k * a[m - i] for i in range(m + 1)]
  return a


def inverse_levinson(ks, r0):
  """Autocorrelation lags r[0..p] for which the Levinson-Durbin recursion
  produces exactly the reflection coefficients ks; also A_p and E_p."""
  r = [F(r0)]
  a = [F(1)]
  err = F(r0)
  for m, k in enumerate(ks, 1):
    r.append(-k * err - sum(a[i] * r[m - i] for i in range(1, m)))
    a = a + [F(0)]
    a = [a[i] + k * a[m - i] for i in range(m + 1)]
    err *= 1 - k * k
  return r, a, err


def exact_stepdown(a):
  """Reflection coefficients k_p, k_{p-1}, ... of the monic polynomial a
  (highest stage first), stopping after the first |k| == 1."""
  a = list(a)
  ks = []
  while len(a) > 1:
    m = len(a) - 1
    k = a[m]
    ks.append(k)
    if abs(k) == 1:
      break
    d = 1 - k * k
    a = [(a[i] - k * a[m - i]) / d for i in range(m)]
  return ks


def is_exact(x):
  return isinstance(x, (int, Fraction)) and not isinstance(x, bool)


def fr(x):
  """Exact rational value of a number yielded by the library."""
  if isinstance(x, Fraction):
    return x
  if isinstance(x, (int, float)):
    return Fraction(x)
  raise TypeError("not a real number: %r" % (x,))


def amp_of(ks):
  """Error amplification bound of a chain of step-down/step-up stages."""
  amp = 1.0
  for k in ks:
    d = float(abs(1 - abs(F(k))))    # exact first: |k| may round to 1.0
    amp *= max(1.0, 1.0 / d) if d else 1.0
  return amp


# ---------------------------------------------------------------------------
# pools
# ---------------------------------------------------------------------------

GAINS = [F(1), F(-1), F(2), F(-3), F(1, 2), F(5), F(-1, 3), F(3, 4), F(-7, 5),
         F(10), F(1, 10), F(-2),
         # integers g with g * (1 / g) != 1 in floats
         F(49), F(98), F(103), F(-107), F(161)]

ON_CIRCLE = [(F(3, 5), F(4, 5)), (F(4, 5), F(3, 5)), (F(-3, 5), F(4, 5)),
             (F(-4, 5), F(3, 5)), (F(0), F(1)), (F(5, 13), F(12, 13)),
             (F(-12, 13), F(5, 13)), (F(8, 17), F(15, 17)),
             (F(7, 25), F(24, 25)), (F(-24, 25), F(7, 25)),
             (F(20, 29), F(21, 29))]

TAME = sorted(set(F(n, d) for d in range(1, 9) for n in range(-d, d + 1)
                  if abs(F(n, d)) <= F(9, 10))) + [F(9, 10), F(-9, 10)]
OUT = sorted(set(F(n, d) for d in range(1, 9) for n in range(-3 * d, 3 * d + 1)
                 if abs(F(n, d)) <= F(4, 5) or abs(F(n, d)) >= F(5, 4)))
WILD = [F(1), F(-1), F(99, 100), F(-99, 100), F(101, 100), F(-101, 100),
        F(999, 1000), F(1, 100), F(-1, 1000), F(7), F(-12), F(10, 9),
        F(-9, 10), F(1, 2), F(-2), F(3, 2), F(-1, 3), F(2, 3), F(5, 4)]
# a hair away from +-1 (but not on it): no ParCorError, a verdict.  Only in
# short vectors: exact arithmetic on these is expensive.
HAIR = [1 - F(1, 2 ** 30), -1 + F(1, 2 ** 26), 1 - F(1, 10 ** 8),
        1 + F(1, 10 ** 8), -1 - F(1, 2 ** 28), 1 - F(1, 10 ** 12)]
R0S = [F(1), F(2), F(1, 2), F(3), F(10), F(1, 3), F(7, 5), F(-1), F(-2, 3)]


def gain_class(g):
  if g == 1:
    return "1"
  if g == -1:
    return "-1"
  return "|g|>1" if abs(g) > 1 else "|g|<1"


def rand_real(rng, where, hair=False):
  while True:
    d = rng.choice([1, 2, 3, 4, 5, 7, 8, 10, 10, 100])
    if where != "on" and hair and rng.random() < 0.25:  # a hair off the circle
      eps = F(1, rng.choice([10 ** 8, 2 ** 30, 10 ** 12, 2 ** 24]))
      return rng.choice([-1, 1]) * (1 - eps if where == "in" else 1 + eps)
    if where == "in":
      p = F(rng.randint(-d + 1, d - 1) if d > 1 else 0, d)
    elif where == "on":
      p = F(rng.choice([-1, 1]))
    else:
      n = rng.randint(d + 1, 3 * d + 1)
      p = F(rng.choice([-n, n]), d)
    return p


def rand_pair(rng, where):
  if where == "on":
    re, im = rng.choice(ON_CIRCLE)
    return (re, im if rng.random() < .8 else -im)
  while True:
    d = rng.choice([2, 3, 4, 5, 5, 7, 10, 13])
    re = F(rng.randint(-2 * d, 2 * d), d)
    im = F(rng.randint(1, 2 * d), d)
    m2 = re * re + im * im
    if (m2 < 1) == (where == "in") and m2 != 1:
      return (re, im)


def rand_poles(rng):
  """1..4 poles / pairs with a chosen mixture of locations."""
  n = rng.choice([1, 1, 2, 2, 3, 3, 4])
  target = rng.random()
  reals, pairs = [], []
  for i in range(n):
    if target < 0.42:
      where = "in"
    elif target < 0.67:      # critical: something on the circle
      where = "on" if i == 0 else rng.choice(["in", "in", "on", "out"])
    else:
      where = "out" if i == 0 else rng.choice(["in", "in", "on", "out"])
    if rng.random() < 0.5:
      reals.append(rand_real(rng, where, hair=n <= 2))
    else:
      pairs.append(rand_pair(rng, where))
  if rng.random() < 0.12:
    # mirrored set P u -P: a polynomial in z^-2, every odd reflection
    # coefficient is exactly zero (the float-zero path of Poly.__getitem__;
    # poles a hair off the circle included: exact coefficients stay exact)
    reals, pairs = reals[:2], pairs[:2 - len(reals[:2])]
    if not reals and not pairs:
      reals = [rand_real(rng, "in")]
    reals = reals + [-p for p in reals if p != 0]
    pairs = pairs + [(-re, im) for re, im in pairs if re != 0]
    u = rng.random()
    if u < 0.5:
      # ... times one more factor, often with a pole on the circle: zero
      # reflection coefficients in the middle of the step-down, the deciding
      # one (exactly +-1 for a critical filter) after them
      extra = rng.choice(["on-real", "on-real", "on-pair", "on-both", "in",
                          "out"])
      if extra == "on-real":
        reals.append(F(rng.choice([-1, 1])))
      elif extra == "on-pair":
        pairs.append(rng.choice([(F(3, 5), F(4, 5)), (F(-3, 5), F(4, 5)),
                                 (F(0), F(1)), (F(5, 13), F(12, 13))]))
      elif extra == "on-both":
        reals.extend([F(1), F(-1)])
      else:
        reals.append(rand_real(rng, extra))
  if rng.random() < 0.3:
    reals.reverse()
    pairs.reverse()
  return reals, pairs


def rand_num(rng, reals):
  u = rng.random()
  if u < 0.5:
    return [F(1)]
  if u < 0.65:
    return [rng.choice(GAINS)]
  if u < 0.8:
    return [F(0), F(1)]          # a delay: extra pole at z = 0 (inside)
  while True:                    # one zero, never on a chosen pole
    c = F(rng.randint(-9, 9), rng.randint(1, 5))
    if c != 0 and c not in reals:
      return [F(1), -c]


def integral_gain(rng, reals, pairs):
  """A gain that makes every coefficient an integer."""
  a = monic_den(reals, pairs)
  lcm = 1
  for c in a:
    lcm = math.lcm(lcm, c.denominator)
  return F(lcm * rng.choice([1, 1, -1, 2, 3]))


# ---------------------------------------------------------------------------
# cases
# ---------------------------------------------------------------------------

def cases(ctx):
  i = 0
  grid_r = [F(n, 4) for n in range(-8, 9)]
  egains = [F(1), F(-1), F(2), F(-3), F(1, 2)]
  polesets = [([p], []) for p in grid_r]
  polesets += [([p, q], []) for a, p in enumerate(grid_r) for q in grid_r[a:]]
  polesets += [([], [(F(a, 5), F(b, 5))]) for a in range(-6, 7)
               for b in range(1, 7)]
  # the documented witnesses first: 1/(2 - z^-1) (pole 1/2) as Fractions and
  # as ints, and an unstable pole 3/2 scaled by 1/2
  for named in [("stab", "frac", "list", F(2), [F(1, 2)], [], [F(1)]),
                ("stab", "frac", "list", F(1, 2), [F(3, 2)], [], [F(1)]),
                ("stab", "int", "list", F(2), [F(1, 2)], [], [F(1)]),
                ("stab", "frac", "expr", F(2), [F(1, 2)], [], [F(1)])]:
    if ctx.mine(i):
      yield named
    i += 1
  for reals, pairs in polesets:
    for g in egains:
      if ctx.mine(i):
        yield ("stab", "frac", "list", g, reals, pairs, [F(1)])
      i += 1
  kgrid = [F(n, 4) for n in range(-3, 4)]
  def kvecs(p):
    if p == 0:
      yield []
      return
    for head in kvecs(p - 1):
      for k in kgrid:
        yield head + [k]
  for p in (1, 2, 3):
    for ks in kvecs(p):
      if ks[-1] == 0:
        continue
      if ctx.mine(i):
        yield ("rt", "tame", F(1), ks, "frac", [])
      i += 1
  ctx.flag("exhaustive_subspace",
           "stab: every 1 and every unordered 2 real poles from n/4 (|n|<=8), "
           "every conjugate pair a/5 +- b/5 j (|a|<=6, 1<=b<=6), each with gains "
           "1,-1,2,-3,1/2 (Fraction coefficients); rt: every reflection vector "
           "of order 1..3 over {0,+-1/4,+-1/2,+-3/4} with non-zero last entry")

  rng = ctx.rng
  for _ in ctx.loop(6000, 320000):
    u = rng.random()
    if u < 0.62:
      reals, pairs = rand_poles(rng)
      t = rng.random()
      ctype = "frac" if t < 0.55 else "fraclead" if t < 0.70 else \
          ("float" if t < 0.88 else "int")
      variant = "list" if (ctype == "int" or rng.random() < 0.6) else "expr"
      if ctype == "int":
        gain = integral_gain(rng, reals, pairs)
        if abs(gain) > 10 ** 6:
          ctype, gain = "frac", F(1)
      elif rng.random() < 0.45:
        gain = F(1)
      else:
        gain = rng.choice(GAINS)
      yield ("stab", ctype, variant, gain, reals, pairs, rand_num(rng, reals))
    else:
      v = rng.random()
      if v < 0.55:
        profile, pool, p = "tame", TAME, rng.randint(1, 8)
      elif v < 0.75:
        profile, pool, p = "out", OUT, rng.randint(1, 4)
      else:
        profile, pool, p = "wild", WILD, rng.randint(1, 8)
      ks = [rng.choice(pool) for _ in range(p)]
      if profile == "wild" and p <= 3 and rng.random() < 0.5:
        ks[rng.randrange(p)] = rng.choice(HAIR)
      if profile == "tame" and rng.random() < 0.25:
        ks[rng.randrange(p)] = F(0)        # sparse: float zero injection path
      if profile == "tame" and rng.random() < 0.05:
        ks[-1] = F(rng.choice([-1, 1]))    # error exactly 0
      while ks[-1] == 0:
        ks[-1] = rng.choice(pool)
      extra = [F(rng.randint(-9, 9), rng.randint(1, 4))
               for _ in range(rng.choice([0, 0, 1, 3]))]
      yield ("rt", profile, rng.choice(R0S), ks,
             rng.choice(["frac", "frac", "float"]), extra)


# ---------------------------------------------------------------------------
# monitor + oracle
# ---------------------------------------------------------------------------

def observe_parcor(filt, limit=40):
  """Iterate the real parcor generator; returns (yielded, ParCorError or None).
  Any other exception propagates (reported by the driver)."""
  out = []
  gen = parcor(filt)
  try:
    for _ in range(limit):
      out.append(next(gen))
  except StopIteration:
    return out, None
  except ParCorError as exc:
    return out, exc
  raise AssertionError("parcor yielded more than %d values" % limit)


def close(got, want, tol):
  """got (library number) vs want (Fraction).  Exact types are compared
  exactly, floats within tol (relative to max(1, |want|)).
  Returns (ok, err, was_exact)."""
  if is_exact(got):
    return fr(got) == want, 0.0, True
  g = fr(got)
  err = float(abs(g - want) / max(1, abs(want)))
  return err <= tol, err, False


def judge_plan(ctype, ks, truth, reals, pairs):
  """Is the float verdict of a *correct* step-down well-posed?  ks: exact
  reflection coefficients, highest stage first, up to the deciding one."""
  # (integer coefficients are exact as well: a monic integer denominator is
  # decided by its integer reflection coefficients, a non-monic one is
  # normalised in exact rationals since fix F39)
  exact = ctype in ("frac", "fraclead", "int")
  amp = 1.0
  far = all(abs(F(p) ** 2 - 1) >= F(1, 100) for p in reals) and \
        all(abs(F(a) ** 2 + F(b) ** 2 - 1) >= F(1, 100) for a, b in pairs)
  for k in ks:
    if not exact:
      margin = abs(float(abs(k) - 1))
      if not far or margin < 1e-6 or margin <= 1e-10 * amp:
        return False
      amp *= max(1.0, 1.0 / margin)
    if abs(k) >= 1:
      break
  return True


def build_filter(ctype, variant, gain, reals, pairs, num):
  if ctype == "fraclead":
    # as "frac", the leading denominator coefficient an int when integral
    base = build_filter("frac", "list", gain, reals, pairs, num)
    den = list(base.denominator)
    if F(den[0]).denominator == 1:
      den[0] = int(den[0])
    return ZFilter(list(base.numerator), den)
  gain = F(gain)
  conv = (lambda v: float(v)) if ctype == "float" else (lambda v: v)
  if variant == "list":
    den = [gain * c for c in monic_den(reals, pairs)]
    if ctype == "int":
      assert all(c.denominator == 1 for c in den), "non-integral int case"
      den = [int(c) for c in den]
      numl = [int(c) if F(c).denominator == 1 else F(c) for c in num]
    else:
      den = [conv(c) for c in den]
      numl = [conv(F(c)) for c in num]
    return ZFilter(numl, den)
  # expression variant: gain * prod of first / second order sections in z
  denf = ZFilter([conv(gain)])
  for p in reals:
    denf = denf * (1 - conv(F(p)) * z ** -1)
  for re, im in pairs:
    re, im = F(re), F(im)
    denf = denf * (1 - conv(2 * re) * z ** -1 + conv(re * re + im * im) * z ** -2)
  numl = [conv(F(c)) for c in num]
  if numl == [1]:
    return 1 / denf
  return ZFilter(numl) / denf


def run_stab(ctx, case):
  _, ctype, variant, gain, reals, pairs, num = case
  gain = F(gain)
  mags = [F(p) ** 2 for p in reals] + [F(a) ** 2 + F(b) ** 2 for a, b in pairs]
  truth = all(m < 1 for m in mags)
  a = trim(monic_den(reals, pairs))
  ks = exact_stepdown(a)
  schur = len(ks) == len(a) - 1 and all(abs(k) < 1 for k in ks)
  # self-check of the oracle (Schur-Cohn): a disagreement is a harness fault
  assert schur == truth, "oracle self-check failed: Schur-Cohn vs pole moduli"
  upto = []
  for k in ks:
    upto.append(k)
    if abs(k) >= 1:
      break
  judged = judge_plan(ctype, upto, truth, reals, pairs)

  filt = build_filter(ctype, variant, gain, reals, pairs, num)
  # the constructed filter must carry the chosen denominator (public API)
  denl = filt.denominator
  want_den = [gain * c for c in a]
  if ctype == "frac" and (len(denl) != len(want_den) or
                          any(fr(x) != y for x, y in zip(denl, want_den))):
    raise AssertionError("constructed denominator differs from the chosen one")

  got = parcor_stable(filt)

  # ---- event classes ------------------------------------------------------
  for p in reals:
    m = F(p) ** 2
    ctx.count("pole:real-" + ("inside" if m < 1 else "on" if m == 1
                              else "outside"))
  for m in mags[len(reals):]:
    ctx.count("pole:complex-" + ("inside" if m < 1 else "on" if m == 1
                                 else "outside"))
  has_on = any(m == 1 for m in mags)
  has_out = any(m > 1 for m in mags)
  tclass = "stable" if truth else ("critical" if has_on and not has_out else
                                   "unstable" if not has_on else
                                   "unstable+on-circle")
  ctx.count("truth:" + tclass)
  ctx.count("gain:" + gain_class(gain))
  ctx.count("ctype:" + ctype)
  ctx.count("variant:" + variant)
  ctx.count("stab-order:%d" % (len(a) - 1))
  monic = gain == 1

  if not judged:
    ctx.count("stab:unjudged-ill-posed-in-floats")
    if ctype == "frac":
      ctx.count("stab:unjudged-frac-float-zero-injection")
    if bool(got) != truth:     # evidence only, never a verdict (see docstring)
      ctx.count("stab:unjudged-verdict-differs-" + ctype +
                ("-monic" if monic else "-non-monic"))
  else:
    ctx.count("stab:judged")
    ctx.count("stab:judged-" + ("monic" if monic else "non-monic"))
    ctx.count("stab:judged-%s-%s" % (ctype, "monic" if monic else "non-monic"))
    ctx.count("stab:judged-truth-" + tclass)
    if ctype == "int":
      ctx.count("stab:judged-int-" + tclass)
    if ctype in ("frac", "fraclead") and any(k == 0 for k in upto):
      ctx.count("stab:judged-exact-with-zero-k")
      ctx.count("stab:judged-exact-with-zero-k-" + tclass)
    if bool(got) != truth:
      if not monic:
        key = KNOWN_KEY
      elif truth:
        key = "parcor_stable/monic-stable-reported-unstable"
      elif has_out:
        key = "parcor_stable/monic-unstable-reported-stable"
      else:
        key = "parcor_stable/monic-critical-reported-stable"
      ctx.violation(key, case, got=got, truth=truth, pole_moduli_squared=mags,
                    denominator=want_den,
                    exact_reflection_coefficients_top_first=ks)
      return True
    if not monic:
      ctx.count("stab:non-monic-verdict-right")
    if ctype == "frac" and bool(got) == truth:
      # the same poles reached through the filter-list classes (their
      # denominator polynomial is the product of the sections', exactly, in
      # Fractions): one section, two sections in cascade, two in parallel
      cut = len(reals) // 2, len(pairs) // 2
      f1 = build_filter(ctype, variant, gain, reals[:cut[0]], pairs[:cut[1]],
                        num)
      f2 = build_filter(ctype, "list", 1, reals[cut[0]:], pairs[cut[1]:], [1])
      for what, bank in (("cascade1", CascadeFilter(filt)),
                         ("cascade2", CascadeFilter(f1, f2)),
                         ("parallel1", ParallelFilter([filt])),
                         ("parallel2", ParallelFilter(f1, f2))):
        gotb = parcor_stable(bank)
        ctx.count("stab:filter-list-" + what)
        if bool(gotb) != truth:
          ctx.violation("parcor_stable/filter-list-verdict-differs", case,
                        form=what, got=gotb, truth=truth,
                        pole_moduli_squared=mags)
          return True

  # ---- evidence for the float well-posedness rule: how far the float
  # reflection coefficients really are from the exact ones, against the
  # margin 1e-10 * amplification that judge_plan relies on (never a verdict)
  if judged and monic and ctype not in ("frac", "fraclead") and upto:
    gen = parcor(ZFilter(filt.denpoly))
    amp = 1.0
    try:
      for want in upto:
        g = next(gen)
        ctx.err("stab:float-k-vs-exact", float(abs(fr(g) - want)), 1e-10 * amp)
        margin = abs(float(abs(want) - 1))
        amp *= max(1.0, 1.0 / margin) if margin else 1.0
    except (StopIteration, ParCorError):
      ctx.count("stab:float-monitor-ended-early")
    ctx.count("stab:float-k-monitored")

  # ---- direct monitor of the step-down on the denominator ---------------
  if ctype == "frac":
    yielded, pce = observe_parcor(ZFilter(filt.denpoly))
    if pce is not None:
      ctx.count("parcor:ParCorError-seen")
      last = yielded[-1] if yielded else None
      if last is None or abs(fr(last)) != 1:
        ctx.violation("parcor/ParCorError-without-unit-k", case,
                      yielded=yielded, monic=monic)
        return True
    if monic:
      exact = True
      amp = 1.0
      for j, want in enumerate(ks):
        # (first: once the library is on its float path - after an exact zero
        # - and a coefficient came within 1e-4 of +-1, neither the values nor
        # a premature |k| == 1.0 / ParCorError mean anything)
        if not exact and amp > 1e4:
          ctx.count("parcor:value-unjudged-ill-conditioned-float")
          break
        if j >= len(yielded):
          ctx.violation("parcor/too-few-coefficients", case, yielded=yielded,
                        want=ks)
          return True
        ok, err, was_exact = close(yielded[j], want, 1e-10 * amp)
        ctx.count("cmp:exact" if was_exact else "cmp:toleranced")
        if not was_exact:
          ctx.err("stab:step-down-float", err, 1e-10 * amp)
        if not ok:
          ctx.violation("parcor/step-down-value", case, stage=len(ks) - j,
                        yielded=yielded, want=ks)
          return True
        d = float(abs(1 - abs(want)))     # exact first: |want| may round to 1.0
        amp *= max(1.0, 1.0 / d) if d else 1.0
      if ks and abs(ks[-1]) == 1 and exact:
        ctx.count("parcor:unit-k-reached-exactly")
        if len(yielded) > len(ks):
          # after an exact |k| = 1 the step-down divides by zero: nothing
          # meaningful can follow (the statement allows only ParCorError)
          ctx.violation("parcor/continues-after-unit-k", case, yielded=yielded,
                        want=ks)
          return True
  return True


def run_rt(ctx, case):
  _, profile, r0, ks, rtype, extra = case
  ks = [F(k) for k in ks]
  r0 = F(r0)
  p = len(ks)
  assert p >= 1 and ks[-1] != 0 and r0 != 0
  a_want = stepup(ks)
  rev = ks[::-1]
  stop = None                      # index (in rev) of the first |k| == 1
  for j, k in enumerate(rev):
    if abs(k) == 1:
      stop = j
      break
  ctx.count("rt:order-%d" % p)
  ctx.count("rt:profile-" + profile)
  if any(abs(k) > 1 for k in ks):
    ctx.count("rt:has-|k|>1")
  if any(k == 0 for k in ks):
    ctx.count("rt:has-zero-k")

  # ---- exact part: parcor on the exact step-up filter --------------------
  yielded, pce = observe_parcor(ZFilter(list(a_want)))
  if pce is not None:
    ctx.count("parcor:ParCorError-seen")
    if not yielded or abs(fr(yielded[-1])) != 1:
      ctx.violation("parcor/ParCorError-without-unit-k", case, yielded=yielded,
                    want=rev)
      return True
  want_seq = rev if stop is None else rev[:stop + 1]
  exact = True
  amp = 1.0
  all_exact = True
  for j, want in enumerate(want_seq):
    if not exact and amp > 1e4:
      ctx.count("parcor:value-unjudged-ill-conditioned-float")
      all_exact = False
      break
    if j >= len(yielded):
      ctx.violation("parcor/too-few-coefficients", case, yielded=yielded,
                    want=want_seq)
      return True
    ok, err, was_exact = close(yielded[j], want, 1e-10 * amp)
    ctx.count("cmp:exact" if was_exact else "cmp:toleranced")
    all_exact = all_exact and was_exact
    if not was_exact:
      ctx.err("rt:step-down-float", err, 1e-10 * amp)
    if not ok:
      ctx.violation("parcor/step-down-value", case, stage=p - j,
                    yielded=yielded, want=want_seq)
      return True
    d = float(abs(1 - abs(want)))     # exact first: |want| may round to 1.0
    amp *= max(1.0, 1.0 / d) if d else 1.0
  else:
    if stop is None:
      if len(yielded) != p:
        ctx.violation("parcor/wrong-number-of-coefficients", case,
                      yielded=yielded, want=want_seq)
        return True
      if all_exact:
        # rebuilding by step-up from the yielded coefficients: same filter
        ctx.count("rt:exact-rebuild")
        if stepup([fr(k) for k in yielded][::-1]) != a_want:
          ctx.violation("parcor/step-up-rebuild", case, yielded=yielded)
          return True
    elif exact:
      ctx.count("parcor:unit-k-reached-exactly")
      if len(yielded) > len(want_seq):
        ctx.violation("parcor/continues-after-unit-k", case, yielded=yielded,
                      want=want_seq)
        return True

  # ---- Levinson part (floats inside the library: toleranced) -------------
  if profile == "wild":
    return True
  if stop is not None and stop != 0:
    return True                    # |k_m| = 1 below the top: Levinson itself
                                   # divides by E_m = 0; the statement is silent
  amp = amp_of(ks)
  cap, unit = (1e4, 1e-10) if profile == "tame" else (1e3, 1e-9)
  if amp > cap:
    ctx.count("rt:levinson-unjudged-ill-conditioned")
    return True
  tol = unit * amp
  r, a2, err_want = inverse_levinson(ks, r0)
  assert a2 == a_want
  lags = [float(x) for x in r] if rtype == "float" else list(r)
  if extra:
    filt = levinson_durbin(lags + [float(x) if rtype == "float" else F(x)
                                   for x in extra], order=p)
    ctx.count("rt:levinson-order-argument")
  elif p % 2:
    filt = levinson_durbin(lags)
  else:
    filt = levinson_durbin(lags, p)
  ctx.count("rt:levinson-" + rtype)
  num = filt.numerator
  if filt.denominator != [1] or len(num) != p + 1:
    ctx.violation("levinson/filter-shape", case, numerator=num,
                  denominator=filt.denominator)
    return True
  worst = 0.0
  for g, w in zip(num, a_want):
    ok, err, _ = close(g, w, tol)
    worst = max(worst, err)
    if not ok:
      ctx.violation("levinson/filter-coefficients", case, got=num,
                    want=a_want, err=err, tol=tol)
      return True
  ctx.err("rt:levinson-coefficients", worst, tol)
  e_got = fr(filt.error)
  if err_want == 0:
    e_err = float(abs(e_got) / abs(r0))
    ctx.count("rt:error-exactly-zero-expected")
  else:
    e_err = float(abs(e_got - err_want) / abs(err_want))
  ctx.err("rt:levinson-error", e_err, tol)
  if e_err > tol:
    ctx.violation("levinson/error-attribute", case, got=filt.error,
                  want=err_want, err=e_err, tol=tol)
    return True
  ctx.count("rt:levinson-compared")
  if stop is not None:
    return True                    # k_p = +-1 in floats: step-down ill-posed
  yl, pce = observe_parcor(filt)
  if pce is not None:
    if not yl or abs(fr(yl[-1])) != 1:
      ctx.violation("parcor/ParCorError-without-unit-k", case, yielded=yl,
                    want=rev)
    else:   # a float k rounded to exactly +-1: cannot happen within tol < 1e-6
      ctx.violation("parcor/round-trip-ParCorError", case, yielded=yl, want=rev)
    return True
  if len(yl) != p:
    ctx.violation("parcor/wrong-number-of-coefficients", case, yielded=yl,
                  want=rev)
    return True
  worst = 0.0
  for j, (g, w) in enumerate(zip(yl, rev)):
    ok, err, _ = close(g, w, tol)
    worst = max(worst, err)
    if not ok:
      ctx.violation("parcor/round-trip-value", case, stage=p - j, yielded=yl,
                    want=rev, err=err, tol=tol)
      return True
  ctx.err("rt:round-trip-k", worst, tol)
  rebuilt = stepup([fr(k) for k in yl][::-1])
  worst = 0.0
  for g, w in zip(num, rebuilt):
    err = float(abs(fr(g) - w) / max(1, abs(w)))
    worst = max(worst, err)
  ctx.err("rt:round-trip-rebuild", worst, tol)
  if worst > tol:
    ctx.violation("parcor/step-up-rebuild", case, yielded=yl, numerator=num,
                  rebuilt=rebuilt, err=worst, tol=tol)
    return True
  ctx.count("rt:round-trip-compared")
  return True


def run_case(ctx, case):
  if case[0] == "stab":
    return run_stab(ctx, case)
  if case[0] == "rt":
    return run_rt(ctx, case)
  raise ValueError(case[0])


def finish(ctx):
  q = ctx.quick
  for kind in ("real", "complex"):
    for where in ("inside", "on", "outside"):
      ctx.need("pole:%s-%s" % (kind, where), 100 if q else 2000)
  for t in ("stable", "critical", "unstable", "unstable+on-circle"):
    ctx.need("truth:" + t, 50)
    ctx.need("stab:judged-truth-" + t, 50)
  for g in ("1", "-1", "|g|>1", "|g|<1"):
    ctx.need("gain:" + g, 100)
  for c in ("frac", "float", "int", "fraclead"):
    ctx.need("ctype:" + c, 100)
  ctx.need("variant:list", 100)
  ctx.need("variant:expr", 100)
  ctx.need("stab:judged-frac-monic", 500)
  for what in ("cascade1", "cascade2", "parallel1", "parallel2"):
    ctx.need("stab:filter-list-" + what, 500)
  ctx.need("stab:judged-float-monic", 50)
  ctx.need("stab:float-k-monitored", 50)
  ctx.need("stab:judged-non-monic", 300)
  for p in range(1, 9):
    ctx.need("rt:order-%d" % p, 30 if q else 500)
    ctx.need("stab-order:%d" % p, 10 if q else 300)
  for prof in ("tame", "out", "wild"):
    ctx.need("rt:profile-" + prof, 100)
  ctx.need("rt:has-|k|>1", 100)
  ctx.need("rt:has-zero-k", 100)
  ctx.need("stab:judged-exact-with-zero-k", 40)
  ctx.need("stab:judged-int-critical", 20)
  ctx.need("stab:judged-exact-with-zero-k-critical", 5)
  ctx.need("rt:levinson-compared", 500)
  ctx.need("rt:round-trip-compared", 500)
  ctx.need("rt:levinson-order-argument", 50)
  ctx.need("rt:levinson-float", 50)
  ctx.need("rt:levinson-frac", 50)
  ctx.need("rt:exact-rebuild", 300)
  ctx.need("rt:error-exactly-zero-expected", 5)
  ctx.need("cmp:exact", 3000)
  ctx.need("cmp:toleranced", 50)
  ctx.need("parcor:ParCorError-seen", 100)
  ctx.need("parcor:unit-k-reached-exactly", 100)


# extension family (second round of seeded changes), see props/c11_x.py
from props import c11_x as _x, ext as _ext
_ext.install(globals(), _x)
