"""C19 extension family (second round of seeded changes):

mcfloat  modulo_counter with FLOAT modulo / step pairs, including numeric
         coincidences such as 1.0 / 0.1 (the float quotient is an integer while
         the true one is not): the stream-start path, the numbers-only path and
         the closed form must agree - up to rounding, measured cyclically -
         for several wraps; also through sinusoid(freq, phase=stream)
"""
import itertools
import math
from fractions import Fraction

from audiolazy import modulo_counter, sinusoid, Stream

KINDS = ("mcfloat",)
PAIRS = [(1.0, 0.1), (1.0, 0.2), (2.0, 0.4), (5.0, 0.1), (1.0, 0.3),
         (3.0, 0.7), (10.0, 0.1), (1.0, 1 / 3.0), (2.5, 0.05), (7.0, 0.35)]


def cases(ctx):
  rng = ctx.rng
  i = 0
  for m, s in PAIRS + [(2 * math.pi, 2 * math.pi / k) for k in
                       (3, 7, 11, 17, 21, 22, 25, 33, 64, 100)]:
    if ctx.mine(i):
      yield ("mcfloat", m, s, 0.0, "zero-stream")
      yield ("mcfloat", m, s, 0.0, "numbers")
    i += 1
  for _ in ctx.loop(400, 20000):
    m = rng.choice([1.0, 2.0, 0.5, 3.0, 2 * math.pi, rng.uniform(0.5, 9)])
    s = rng.choice([m / rng.randint(2, 40), rng.uniform(0.01, m),
                    round(rng.uniform(0.01, m), 2)])
    yield ("mcfloat", m, s, rng.choice([0.0, round(rng.uniform(0, m), 3)]),
           rng.choice(["zero-stream", "numbers", "const-stream"]))


def cyc(a, b, m):
  d = abs(a - b) % m
  return min(d, m - d)


def run_case(ctx, case):
  _, m, s, start, how = case
  steps = int(m / s) if s else 1
  n = min(max(3 * steps + 5, 20), 600)
  if how == "numbers":
    got = list(itertools.islice(iter(modulo_counter(start, m, s)), n))
  elif how == "zero-stream":
    got = list(itertools.islice(iter(modulo_counter(
      Stream(itertools.repeat(start)), m, s)), n))
  else:
    got = list(itertools.islice(iter(modulo_counter(
      Stream([start] * n), m, s)), n))
  ctx.count("float-modulo-counters")
  if steps >= 2 and n > steps:
    ctx.count("float-modulo-counters-past-one-batch")
  M, S, ST = Fraction(m), Fraction(s), Fraction(start)
  tol = 1e-9 * (m + abs(s) * n)
  for k, g in enumerate(got):
    want = float((ST + k * S) % M)
    if not (-1e-12 <= g <= m + 1e-12):
      ctx.violation("mcfloat/outside-[0,modulo)", case, index=k, got=g)
      return True
    err = cyc(g, want, m)
    ctx.err("mcfloat", err, tol)
    if err > tol:
      ctx.violation("mcfloat/%s/value" % how, case, index=k, got=g, want=want,
                    steps_per_wrap=steps)
      return True
  if len(got) != n:
    ctx.violation("mcfloat/length", case, got=len(got), want=n)
  return True


def finish(ctx):
  ctx.need("float-modulo-counters", 200)
  ctx.need("float-modulo-counters-past-one-batch", 100)
