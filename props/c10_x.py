"""C10 extension family (second round of seeded changes):

longblock  blocks far longer than the usual test sizes (129..400 samples, small
           integers so that every sum is exact): acorr and lag_matrix must be
           the plain sums, and lpc.kautocor must satisfy the normal equations
           of that exact autocorrelation
"""
from fractions import Fraction

from audiolazy import acorr, lag_matrix, lpc

KINDS = ("longblock",)


def cases(ctx):
  rng = ctx.rng
  for _ in ctx.loop(60, 3000):
    n = rng.choice([129, 130, 131, 200, 201, 255, 256, 257, rng.randint(129, 400)])
    x = [rng.randint(-4, 4) for _ in range(n)]
    yield ("longblock", x, rng.randint(0, 4), rng.randint(1, 3))


def run_case(ctx, case):
  _, x, max_lag, order = case
  n = len(x)
  want = [sum(x[i] * x[i + t] for i in range(n - t)) for t in range(max_lag + 1)]
  got = acorr(list(x), max_lag)
  ctx.count("long-blocks")
  if list(got) != want:
    ctx.violation("acorr/differs-from-plain-sums-on-a-long-block", case,
                  n=n, got=list(got), want=want)
    return True
  lm = lag_matrix(list(x), order)
  wantm = [[sum(x[m - i] * x[m - j] for m in range(order, n))
            for i in range(order + 1)] for j in range(order + 1)]
  if [list(r) for r in lm] != wantm:
    ctx.violation("lag_matrix/differs-from-plain-sums-on-a-long-block", case,
                  n=n)
    return True
  r = [sum(x[i] * x[i + t] for i in range(n - t)) for t in range(order + 1)]
  if r[0] == 0:
    return True
  try:
    filt = lpc.kautocor(list(x), order)
  except Exception:  # noqa - singular inputs are "does not return"
    return True
  a = [Fraction(c) for c in filt.numerator]
  a += [Fraction(0)] * (order + 1 - len(a))
  for i in range(1, order + 1):
    terms = [a[j] * r[abs(i - j)] for j in range(order + 1)]
    res, mag = abs(sum(terms)), sum(abs(t) for t in terms)
    ctx.err("longblock:normal-equations", float(res), float(1e-9 * mag))
    if res > Fraction(1, 10 ** 9) * mag:
      ctx.violation("kautocor/normal-equation-residual-on-a-long-block", case,
                    n=n, row=i, residual=float(res))
      return True
  return True


def finish(ctx):
  ctx.need("long-blocks", 40)
