#!/bin/sh
# Offline setup: nothing to build (stdlib-only monitors, pure-Python target).
# Verifies the interpreter exists and that audiolazy imports from /repo.
set -e
cd "$(dirname "$0")/.."
PY="${VERIF_PYTHON:-/venv/bin/python}"
REPO="${VERIF_REPO:-/repo}"
PYTHONPATH="$REPO" PYTHONDONTWRITEBYTECODE=1 "$PY" -W ignore -c "
import sys, os, audiolazy
p = os.path.realpath(audiolazy.__file__)
assert p.startswith(os.path.realpath('$REPO') + os.sep), p
print('setup ok: python', sys.version.split()[0], 'audiolazy at', p)
"
mkdir -p evidence replays
