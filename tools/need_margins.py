#!/usr/bin/env python3
"""Audit of the coverage floors: run checks over several seeds (quick tier) and
print, per required monitor event, the smallest observed/required ratio.  A
floor that is met with little margin on some seed will sooner or later turn a
run INCONCLUSIVE (exit 2), which counts as a broken check.

usage: tools/need_margins.py [--seeds 0 1 2 ...] [--below 3.0] [PROP ...]
Evidence files are restored afterwards (git checkout)."""
import argparse
import json
import os
import subprocess

HERE = os.path.dirname(os.path.dirname(os.path.abspath(__file__)))


def main():
  ap = argparse.ArgumentParser()
  ap.add_argument("props", nargs="*")
  ap.add_argument("--seeds", nargs="*", type=int, default=[0, 1, 2, 3, 4])
  ap.add_argument("--below", type=float, default=3.0)
  a = ap.parse_args()
  props = a.props or ["C%02d" % i for i in range(1, 21)]
  worst = {}
  for p in props:
    for s in a.seeds:
      env = dict(os.environ, VERIF_SEED=str(s))
      r = subprocess.run([os.path.join(HERE, "check"), p], env=env,
                         capture_output=True, text=True)
      if r.returncode:
        print("%s seed %d: exit %d" % (p, s, r.returncode))
      ev = json.load(open(os.path.join(HERE, "evidence", p + ".json")))
      cov = ev.get("coverage", {})
      cnt = cov.get("monitor_counters", {})
      for name, need in cov.get("required_events", {}).items():
        ratio = cnt.get(name, 0) / float(need) if need else 99.0
        key = (p, name)
        if key not in worst or ratio < worst[key][0]:
          worst[key] = (ratio, s, cnt.get(name, 0), need)
  for (p, name), (ratio, s, got, need) in sorted(worst.items(),
                                                 key=lambda kv: kv[1][0]):
    if ratio < a.below:
      print("%-4s %-60s min %6.2fx (seed %d: %d / %d)" % (p, name, ratio, s,
                                                           got, need))
  subprocess.run(["git", "-C", HERE, "checkout", "--", "evidence"])


if __name__ == "__main__":
  main()
