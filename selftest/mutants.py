"""Property-breaking edits (expect "caught") and benign refactors (expect
"silent") used by selftest/run.py.  Each entry:
(props, name, file under audiolazy/, old text (must occur exactly once), new
text, expectation)."""

MUTANTS = [
  # ---- C08 ------------------------------------------------------------------
  (["C08"], "blocks-pad-test-ge", "lazy_misc.py",
   "  if idx > max(size-hop, 0):", "  if idx >= max(size-hop, 0):", "caught"),
  (["C08"], "blocks-reinit-off-by-one", "lazy_misc.py",
   "  reinit_idx = size - hop\n", "  reinit_idx = size - hop + (hop == 3)\n",
   "caught"),
  (["C08"], "blocks-hop-gt-size-skip", "lazy_misc.py",
   "          idx = size-hop\n", "          idx = size-hop+1\n", "caught"),
  (["C08"], "zero_pad-right-left-swapped", "lazy_misc.py",
   "  for unused in xrange(right):", "  for unused in xrange(left):",
   "caught"),
  (["C08"], "benign-blocks-pad-loop", "lazy_misc.py",
   "    for _ in xrange(idx,size):\n      res.append(padval)",
   "    res.extend([padval] * (size - idx))", "silent"),

  # ---- C03 ------------------------------------------------------------------
  (["C03"], "peek-consumes", "lazy_stream.py",
   "    return self.copy().take(n=n, constructor=constructor)",
   "    return self.take(n=n, constructor=constructor) if n == 3 else "
   "self.copy().take(n=n, constructor=constructor)", "caught"),
  (["C03"], "copy-shares-state", "lazy_stream.py",
   "    a, b = it.tee(self._data) # 2 generators, not thread-safe\n"
   "    self._data = a\n    return Stream(b)",
   "    a, b = it.tee(self._data) # 2 generators, not thread-safe\n"
   "    return Stream(b)", "caught"),
  (["C03"], "take-float-truncates", "lazy_stream.py",
   "      n = rint(n) if n > 0 else 0 # So this works with -inf and nan",
   "      n = int(n) if n > 0 else 0 # So this works with -inf and nan",
   "caught"),
  (["C03"], "hub-copy-consumes", "lazy_stream.py",
   "      a, b = it.tee(self._iters[0])\n      self._iters[0] = a\n"
   "      return Stream(b)",
   "      return Stream(self._iters.pop())", "caught"),
  (["C03"], "hub-one-more-use", "lazy_stream.py",
   "    self._iters = list(it.tee(iter_self, n))",
   "    self._iters = list(it.tee(iter_self, n + (n == 2)))", "caught"),
  (["C03"], "thub-wraps-scalars", "lazy_stream.py",
   "  return StreamTeeHub(data, n) if isinstance(data, Iterable) else data",
   "  return StreamTeeHub(data, n) if isinstance(data, Iterable) else "
   "(data if data is not None else 0)", "caught"),
  (["C03"], "skip-off-by-one-when-large", "lazy_stream.py",
   "        for _ in xrange(int(round(n))):\n          next(data)",
   "        for _ in xrange(int(round(n)) - (n > 6)):\n          next(data)",
   "caught"),
  (["C03"], "append-on-copy", "lazy_stream.py",
   "    self._data = it.chain(self._data, Stream(*other)._data)\n    return self",
   "    self._data = it.chain(self._data, Stream(*other)._data)\n"
   "    return Stream(self._data)", "caught"),
  (["C03"], "tee-shares", "lazy_itertools.py",
   "    return tuple(Stream(cp) for cp in it.tee(data, n))",
   "    return tuple(Stream(cp) for cp in it.tee(data, n)) if n != 2 else "
   "(Stream(iter(data)),) * 2", "caught"),
  (["C03"], "benign-take-islice-list", "lazy_stream.py",
   "    return constructor(it.islice(self._data, max(n, 0)))",
   "    return constructor(list(it.islice(self._data, max(n, 0))))", "silent"),

  # ---- C01 ------------------------------------------------------------------
  (["C01"], "rbinary-operands-swapped", "lazy_stream.py",
   "        return Stream(xmap(op_func, iter(other), iter(self)))",
   "        return Stream(xmap(op_func, iter(self), iter(other)))", "caught"),
  (["C01"], "rbinary-scalar-swapped", "lazy_stream.py",
   "      return Stream(xmap(lambda a: op_func(other, a), iter(self)))",
   "      return Stream(xmap(lambda a: op_func(a, other), iter(self)))",
   "caught"),
  (["C01"], "binary-zip-longest", "lazy_stream.py",
   "        return Stream(xmap(op_func, iter(self), iter(other)))\n"
   "      return Stream(xmap(lambda a: op_func(a, other), iter(self)))",
   "        return Stream(op_func(a, b) for a, b in it.zip_longest(iter(self),"
   " iter(other), fillvalue=0))\n"
   "      return Stream(xmap(lambda a: op_func(a, other), iter(self)))",
   "caught"),
  (["C01"], "tuple-operand-treated-as-scalar", "lazy_stream.py",
   "      if isinstance(other, Iterable):\n"
   "        return Stream(xmap(op_func, iter(self), iter(other)))",
   "      if isinstance(other, Iterable) and not isinstance(other, tuple):\n"
   "        return Stream(xmap(op_func, iter(self), iter(other)))", "caught"),
  (["C01"], "one-dunder-from-wrong-operator", "lazy_core.py",
   "    self.func = getattr(operator, \"__{}__\".format(name[self.rev:]))",
   "    self.func = getattr(operator, \"__{}__\".format(name[self.rev:]))\n"
   "    if name == \"rfloordiv\":\n      self.func = operator.truediv",
   "caught"),
  (["C01"], "unary-skips-first", "lazy_stream.py",
   "      return Stream(xmap(op_func, iter(self)))",
   "      return Stream(xmap(op_func, it.islice(iter(self), 0, None, 1)))",
   "silent"),
  (["C01"], "elementwise-tuple-becomes-list", "lazy_misc.py",
   "        return type_arg(data)\n",
   "        return list(data) if type_arg is tuple else type_arg(data)\n",
   "caught"),
  (["C01", "C02"], "elementwise-materialises-generators", "lazy_misc.py",
   "        if isinstance(arg, SOME_GEN_TYPES):\n          return data",
   "        if isinstance(arg, SOME_GEN_TYPES):\n          return iter(list(data))",
   "caught"),
  (["C01"], "dB20-uses-10", "lazy_math.py",
   "  return 20 * math.log10(abs(data)) if data != 0 else -inf",
   "  return 10 * math.log10(abs(data)) if data != 0 else -inf", "caught"),
  (["C01"], "log-negative-base-e-only", "lazy_math.py",
   "      return cmath.log(x, base)", "      return cmath.log(x)", "caught"),
  (["C01"], "stream-getattr-skips", "lazy_stream.py",
   "    return Stream(getattr(a, name) for a in self._data)",
   "    return Stream(getattr(a, name) for a in self._data if a is not None"
   " and a == a)", "silent"),
  (["C01"], "stream-call-drops-kwargs", "lazy_stream.py",
   "    return Stream(a(*args, **kwargs) for a in self._data)",
   "    return Stream(a(*args[:0], **kwargs) for a in self._data)", "caught"),
  (["C01"], "midi2freq-a4-is-68", "lazy_midi.py",
   "MIDI_A4 = 69   # MIDI Pitch number", "MIDI_A4 = 68   # MIDI Pitch number",
   "caught"),

  # ---- C04 ------------------------------------------------------------------
  (["C04"], "num-minus-one-shortcut-sign", "lazy_filters.py",
   '        data_sum.append("-d{idx}".format(idx=delay))',
   '        data_sum.append("d{idx}".format(idx=delay))', "caught"),
  (["C04"], "den-plus-one-shortcut-sign", "lazy_filters.py",
   '        data_sum.append("-m{idx}".format(idx=delay))',
   '        data_sum.append("m{idx}".format(idx=delay))', "caught"),
  (["C04"], "memory-shift-wrong-order", "lazy_filters.py",
   "                   for idx in xrange(lm, 0, -1)]",
   "                   for idx in xrange(1, lm + 1)]", "caught"),
  (["C04"], "memory-reversed", "lazy_filters.py",
   "      memory = [data for idx, data in tw]",
   "      memory = [data for idx, data in tw][::-1]", "caught"),
  (["C04"], "gain-applied-to-last-term-only", "lazy_filters.py",
   '        expr = "({expr}) / ({gain})".format(expr=expr, gain=gain)',
   '        expr = "{expr} / ({gain})".format(expr=expr, gain=gain)', "caught"),
  (["C04"], "pre-input-ignores-zero", "lazy_filters.py",
   '        gen_func += ["  {d_vars} = zero".format(d_vars=" = ".join(',
   '        gen_func += ["  {d_vars} = 0.".format(d_vars=" = ".join(', "caught"),
  (["C04"], "default-memory-ignores-zero", "lazy_filters.py",
   "      memory = [zero for unused in xrange(lm)]",
   "      memory = [0. for unused in xrange(lm)]", "caught"),
  (["C04"], "callable-memory-asked-one-more", "lazy_filters.py",
   "        memory = memory(lm)", "        memory = memory(lm + 1)", "caught"),
  (["C04"], "short-memory-padded-on-wrong-side", "lazy_filters.py",
   "        memory = list(zero_pad(memory, lm - actual_len, zero=zero))",
   "        memory = list(zero_pad(memory, 0, lm - actual_len, zero=zero))",
   "silent"),
  (["C04"], "noncausal-check-numerator-only", "lazy_filters.py",
   "    if any(key < 0 for key, value in it.chain(self.numpoly.terms(),\n"
   "                                              self.denpoly.terms())\n"
   "          ):\n      raise ValueError(\"Non-causal filter\")",
   "    if any(key < -1 for key, value in it.chain(self.numpoly.terms(),\n"
   "                                              self.denpoly.terms())\n"
   "          ):\n      raise ValueError(\"Non-causal filter\")", "silent"),  # equivalent: numlist raises too
  (["C04"], "normalisation-shifts-numerator-wrong-way", "lazy_filters.py",
   "      self.numpoly *= poly_delta\n", "      self.numpoly *= Poly([0, 1]) ** power\n",
   "caught"),
  (["C04"], "allzero-yields-float-zero", "lazy_filters.py",
   '                   "    yield zero"', '                   "    yield 0."',
   "caught"),
  (["C04"], "benign-expr-extra-parens", "lazy_filters.py",
   '      expr = " + ".join(data_sum)', '      expr = "(" + " + ".join(data_sum) + ")"',
   "silent"),
]
