"""C18 - PCM byte codecs are exact: chunk packing and WAV sample decoding.

chunks:    b"".join(chunks.X(seq, size, dfmt, byte_order, padval)) must be the
           packing (same format char, same byte order) of the sequence followed
           by pad values up to a multiple of ``size``; every chunk has exactly
           ``size`` items; the struct strategy, the array strategy and the
           default callable agree for every byte order.
WavStream: files written by the stdlib ``wave`` module from raw frames built
           with int.to_bytes; the stream must yield the stored integers (keep)
           or integer / 2**(bits-1) (8 bit: minus 128 first), mirror the header
           and close the file it opened once exhausted (/proc/self/fd).

Inputs the statement is silent about are not generated: values outside the
range of the format, non-integers for integer formats, NaN, floats that do not
fit in a finite float32 for 'f', pad values of another type than the format's
(so ``padval`` is always passed for b/h/i - its default is the float 0.).
"""
import atexit
import gc
import io
import os
import shutil
import struct
import sys
import tempfile
import traceback
import warnings
import wave
from fractions import Fraction

from audiolazy import Stream, WavStream, chunks

from vlib.inst import Probe, drain

ID = "C18"

inf = float("inf")
FORMATS = "bhifd"
INT_FMTS = "bhi"
ORDERS = [None, "@", "=", "<", ">", "!"]
STRATEGIES = ("struct", "array", "default")
SEQ_KINDS = ("list", "tuple", "iter", "gen", "stream")
WAV_KINDS = ("path", "fileobj", "bytesio")

FLT_MAX = 3.4028234663852886e38
FLT_MIN = 1.1754943508222875e-38
FLT_SUB = 1.401298464324817e-45
DBL_MAX = sys.float_info.max
DBL_MIN = sys.float_info.min
DBL_SUB = 5e-324


# --------------------------------------------------------------------------
# value pools (used by cases() only)
# --------------------------------------------------------------------------
def int_pool(bits):
  """Extremes and every sign/byte-boundary value of a signed width."""
  lo, hi = -(1 << (bits - 1)), (1 << (bits - 1)) - 1
  s = {lo, hi, lo + 1, hi - 1, -1, 0, 1, 2, -2}
  for k in range(bits - 1):
    for v in ((1 << k), (1 << k) - 1, (1 << k) + 1, -(1 << k), -(1 << k) - 1):
      if lo <= v <= hi:
        s.add(v)
  n = bits // 8
  # byte-asymmetric patterns (01 02 03 04, 81 02 03 04, 7f ff ff 00 ...)
  for pat in (bytes(range(1, n + 1)), bytes([0x81]) + bytes(range(2, n + 1)),
              bytes([0x7f]) + b"\xff" * (n - 1), b"\xff" * (n - 1) + b"\x00",
              b"\x00" * (n - 1) + b"\x80", b"\x80" + b"\x00" * (n - 1),
              b"\x7f" + b"\x00" * (n - 1)):
    if len(pat) == n:
      s.add(int.from_bytes(pat, "big", signed=True))
  return sorted(s)


INT_POOLS = {bits: int_pool(bits) for bits in (8, 16, 24, 32)}
U8_POOL = [0, 255, 127, 128, 129, 1, 254, 126, 64, 192, 0x7f, 0x80, 0x81]
F_POOL = [0.0, -0.0, 1.0, -1.0, 0.5, FLT_MAX, -FLT_MAX, FLT_MIN, FLT_SUB,
          -FLT_SUB, inf, -inf, 0.1, 1 / 3., 16777217.0, 1e-50, 3.4028235e38,
          -3.4028235e38, 1.0000001, 3, -7]
D_POOL = [0.0, -0.0, 1.0, -1.0, 0.5, DBL_MAX, -DBL_MAX, DBL_MIN, DBL_SUB,
          -DBL_SUB, inf, -inf, 0.1, 1 / 3., 9007199254740993.0, 1e-320,
          FLT_MAX, 1e39, 3, -7]
FMT_BITS = {"b": 8, "h": 16, "i": 32}


def rand_value(rng, fmt):
  r = rng.random()
  if fmt in INT_FMTS:
    bits = FMT_BITS[fmt]
    if r < 0.45:
      return rng.choice(INT_POOLS[bits])
    if r < 0.9:
      return rng.randint(-(1 << (bits - 1)), (1 << (bits - 1)) - 1)
    return rng.randint(-3, 3)
  if r < 0.4:
    return rng.choice(F_POOL if fmt == "f" else D_POOL)
  if r < 0.6:
    return rng.uniform(-1, 1)
  if r < 0.75:
    return rng.randint(-64, 64) / 16.
  if r < 0.9:
    top = 3e38 if fmt == "f" else 1e308
    return rng.uniform(-top, top)
  return rng.uniform(-1, 1) * 10. ** rng.randint(-40, 30)


def chunk_case(rng, fmt, order, size, length):
  values = [rand_value(rng, fmt) for _ in range(length)]
  if fmt in INT_FMTS:
    bits = FMT_BITS[fmt]
    pad = rng.choice([0, -1, 7, 1, -(1 << (bits - 1)), (1 << (bits - 1)) - 1,
                      rng.choice(INT_POOLS[bits])])
  else:
    # None = argument omitted (default 0.)
    pad = rng.choice([None, 0.0, -0.0, 1.5, -1.0, 0.1,
                      FLT_MAX if fmt == "f" else DBL_MAX, inf])
  return ("chunks", fmt, order, size, values, pad,
          rng.choice(["pos", "kw"]), rng.choice(SEQ_KINDS))


def wav_case(rng, width, nch, nframes, keep, kind):
  bits = 8 * width
  n = nframes * nch
  if width == 1:
    samples = [rng.choice(U8_POOL) if rng.random() < 0.5
               else rng.randint(0, 255) for _ in range(n)]
  else:
    pool = INT_POOLS[bits]
    lo, hi = -(1 << (bits - 1)), (1 << (bits - 1)) - 1
    samples = [rng.choice(pool) if rng.random() < 0.55
               else rng.randint(lo, hi) for _ in range(n)]
  rate = rng.choice([8000, 11025, 22050, 44100, 48000, 96000, 1, 2, 192000,
                     rng.randint(1, 400000)])
  return ("wav", width, nch, rate, samples, keep, kind)


def cases(ctx):
  rng = ctx.rng
  i = 0
  # ---- enumerated: chunks ---------------------------------------------------
  for fmt in FORMATS:
    for order in ORDERS:
      for size in (1, 2, 3, 4, 5, 6, 7, 8, 9, None):
        for length in range(0, 31):
          if ctx.mine(i):
            yield chunk_case(rng, fmt, order, size, length)
          i += 1
  # sizes around the width of 'b' / 'h' (array buffer initialisation) and
  # lengths around the default size
  for fmt, size, length in [("b", 127, 5), ("b", 128, 3), ("b", 129, 3),
                            ("b", 200, 0), ("b", 256, 300), ("b", 129, 129),
                            ("h", 129, 4), ("h", 32768, 2), ("h", 32769, 2),
                            ("i", 129, 130), ("f", 129, 7), ("d", 200, 201)]:
    for order in ORDERS:
      if ctx.mine(i):
        yield chunk_case(rng, fmt, order, size, length)
      i += 1
  for fmt in FORMATS:
    for length in (2047, 2048, 2049, 4096, 4097):
      if ctx.mine(i):
        yield chunk_case(rng, fmt, ORDERS[i % len(ORDERS)], None, length)
      i += 1
  # ---- enumerated: WAV --------------------------------------------------------
  for width in (1, 2, 3, 4):
    for nch in (1, 2):
      for nframes in range(0, 41):
        for keep in (True, False):
          for kind in WAV_KINDS:
            if ctx.mine(i):
              yield wav_case(rng, width, nch, nframes, keep, kind)
            i += 1
  # one file per width holding the complete signed/unsigned pool (every
  # boundary value of the width), both modes
  for width in (1, 2, 3, 4):
    for nch in (1, 2):
      for keep in (True, False):
        if ctx.mine(i):
          pool = list(range(256)) if width == 1 else INT_POOLS[8 * width]
          pool = pool + pool[:len(pool) % nch]
          yield ("wav", width, nch, 44100, pool, keep, "path")
        i += 1
  ctx.flag("exhaustive_subspace",
           "chunks: every (format b h i f d, byte order None @ = < > !, size "
           "1..9 and default, length 0..30) with random values; WavStream: "
           "every (width 1..4, mono/stereo, frames 0..40, keep, input kind) "
           "with random values + the full boundary pool of each width")
  # ---- random ---------------------------------------------------------------------
  for _ in ctx.loop(6000, 600000):
    r = rng.random()
    if r < 0.5:
      fmt = rng.choice(FORMATS)
      size = rng.choice([None, 1, 2, rng.randint(1, 12), rng.randint(1, 64),
                         rng.randint(1, 300)])
      s = 2048 if size is None else size
      length = rng.choice([0, 1, s - 1, s, s + 1, 2 * s, rng.randint(0, 100),
                           rng.randint(0, 3 * s)])
      if size is None and rng.random() < 0.8:
        length = rng.randint(0, 60)
      yield chunk_case(rng, fmt, rng.choice(ORDERS), size, min(length, 5000))
    else:
      yield wav_case(rng, rng.randint(1, 4), rng.randint(1, 2),
                     rng.choice([0, 1, 2, rng.randint(0, 40),
                                 rng.randint(0, 250)]),
                     rng.random() < 0.5, rng.choice(WAV_KINDS))


# --------------------------------------------------------------------------
# chunks
# --------------------------------------------------------------------------
def endian_of(order):
  if order in (None, "@", "="):
    return sys.byteorder
  return "little" if order == "<" else "big"


def pack_items(fmt, order, values):
  """Independent packing: int.to_bytes for the integer formats, one-item
  explicit-endian struct.pack for the IEEE formats."""
  e = endian_of(order)
  n = struct.calcsize((order or "") + fmt)
  if fmt in INT_FMTS:
    return b"".join(v.to_bytes(n, e, signed=True) for v in values)
  pre = "<" if e == "little" else ">"
  return b"".join(struct.pack(pre + fmt, v) for v in values)


def through_format(fmt, v):
  if fmt in INT_FMTS or fmt == "d":
    return v
  return struct.unpack("<f", struct.pack("<f", v))[0]


def same_number(a, b):
  if a != b:
    return False
  if a == 0 and isinstance(a, float) and isinstance(b, float):
    return str(a) == str(b)          # sign of zero
  return True


def make_seq(kind, values):
  """-> (iterable given to chunks, probe or None)"""
  if kind == "list":
    return list(values), None
  if kind == "tuple":
    return tuple(values), None
  if kind == "iter":
    p = Probe(list(values))
    return p, p
  if kind == "gen":
    return (v for v in list(values)), None
  if kind == "stream":
    return Stream(list(values)), None
  raise ValueError(kind)


def call_chunks(strategy, seq, size, fmt, order, pad, style):
  fn = chunks if strategy == "default" else getattr(chunks, strategy)
  if style == "pos" and pad is not None:
    return fn(seq, size, fmt, order, pad)
  kw = {}
  if size is not None:
    kw["size"] = size
  if fmt != "f":
    kw["dfmt"] = fmt
  if order is not None:
    kw["byte_order"] = order
  if pad is not None:
    kw["padval"] = pad
  return fn(seq, **kw)


def first_diff(a, b):
  for k in range(min(len(a), len(b))):
    if a[k] != b[k]:
      return k
  return min(len(a), len(b))


def clip(b, around=0):
  lo = max(0, around - 16)
  return "[%d:+48 of %d] %s" % (lo, len(b), b[lo:lo + 48].hex())


def run_chunks(ctx, case):
  _, fmt, order, size, values, pad, style, seqkind = case
  default_size = chunks.size
  esize = default_size if size is None else size
  fstr = (order or "") + fmt
  isz = struct.calcsize(fstr)
  epad = 0. if pad is None else pad
  # ---- harness validation of the case (no library frame -> inconclusive) ----
  if fmt in INT_FMTS:
    lo, hi = -(1 << (8 * isz - 1)), (1 << (8 * isz - 1)) - 1
    assert pad is not None and type(pad) is int and lo <= pad <= hi, case
    assert all(type(v) is int and lo <= v <= hi for v in values), case
  else:
    hi = FLT_MAX if fmt == "f" else DBL_MAX
    lo = -hi
    assert isinstance(epad, float), case
    assert all(v == v for v in values), case
  length = len(values)
  nchunks = -(-length // esize)
  npad = nchunks * esize - length
  items = list(values) + [epad] * npad
  want_vals = [through_format(fmt, v) for v in items]
  expected = pack_items(fmt, order, items)
  native = pack_items(fmt, None, items)
  # oracle self-check: the statement's own formulation
  back = struct.unpack("%s%d%s" % (order or "", len(items), fmt), expected)
  assert len(back) == len(want_vals) and \
      all(same_number(a, b) for a, b in zip(back, want_vals)), case

  ctx.count("chunks:fmt-" + fmt)
  ctx.count("chunks:order-%s" % order)
  ctx.count("chunks:size-default" if size is None else "chunks:size-given")
  ctx.count("chunks:seq-" + seqkind)
  if length == 0:
    ctx.count("chunks:empty")
  elif npad:
    ctx.count("chunks:padded-tail")
  else:
    ctx.count("chunks:exact-multiple")
  if nchunks > 1:
    ctx.count("chunks:several-chunks")
  if any(v == hi for v in want_vals[:length]):
    ctx.count("chunks:extreme-hi-" + fmt)
  if any(v == lo for v in want_vals[:length]):
    ctx.count("chunks:extreme-lo-" + fmt)
  if fmt == "f" and any(w != v for w, v in zip(want_vals, items)):
    ctx.count("chunks:f-rounding")
  if expected != native:
    ctx.count("chunks:order-changes-bytes")
  if fmt in INT_FMTS and esize > (1 << (8 * isz - 1)):
    ctx.count("chunks:size>format-max")

  outputs = {}
  for strategy in STRATEGIES:
    seq, probe = make_seq(seqkind, values)
    name = "chunks." + strategy
    got = []
    exc = None
    try:
      gen = call_chunks(strategy, seq, size, fmt, order, pad, style)
      for blk in gen:
        got.append(blk)
        if len(got) > nchunks + 3:
          break
    except Exception as e:  # noqa - classified below
      exc = e
    ctx.count(name + ":judged")
    ctx.count(name + ":judged-" + fmt)
    if exc is not None:
      if strategy == "array" and isinstance(exc, AttributeError) and \
         "tostring" in str(exc):
        key = "chunks.array/tostring-removed"
        ctx.count("chunks.array:comparison-masked-by-tostring")
      elif strategy == "array" and isinstance(exc, OverflowError) and \
           fmt in INT_FMTS and esize > (1 << (8 * isz - 1)) and not got and \
           (probe is None or probe.pulls == 0):
        # every value and the pad fit the format (validated above), nothing
        # was pulled/yielded yet and range(size) exceeds the format's maximum
        key = "chunks.array/init-range-overflow"
      else:
        key = "%s/exception-%s" % (name, type(exc).__name__)
      detail = dict(error=repr(exc), chunks_before_error=len(got),
                    pulls=None if probe is None else probe.pulls)
      if ctx.vio_per_key[key] < ctx.MAX_VIOLATIONS_PER_KEY:  # only if stored
        detail["traceback"] = "".join(traceback.format_exception(
          type(exc), exc, exc.__traceback__))[-1200:]
      ctx.violation(key, case, strategy=strategy, **detail)
      continue
    # ---- structure: every chunk is bytes holding exactly `size` items --------
    bad = [(k, type(b).__name__, len(b) if hasattr(b, "__len__") else None)
           for k, b in enumerate(got)
           if not isinstance(b, bytes) or len(b) != esize * isz]
    if bad:
      ctx.violation(name + "/chunk-length", case, strategy=strategy,
                    want_bytes_per_chunk=esize * isz, bad=bad[:5],
                    nchunks=len(got))
      continue
    if len(got) != nchunks:
      ctx.violation(name + "/chunk-count", case, strategy=strategy,
                    got=len(got), want=nchunks)
      continue
    joined = b"".join(got)
    ctx.count(name + ":bytes-compared")
    ctx.count("chunks:items-compared", len(items))
    outputs[strategy] = joined
    unpacked = struct.unpack("%s%d%s" % (order or "", len(items), fmt), joined)
    ok = joined == expected and \
        all(same_number(a, b) for a, b in zip(unpacked, want_vals))
    if ok:
      continue
    # classify the data part and the pad part separately (mechanism keys):
    # "byte_order-ignored" = the part equals the NATIVE packing of the right
    # values but not the packing in the requested order
    cut = length * isz
    keys = []
    data_native = False
    if joined[:cut] != expected[:cut]:
      data_native = joined[:cut] == native[:cut]
      keys.append(("byte_order-ignored" if data_native else "content",
                   first_diff(joined[:cut], expected[:cut])))
    if joined[cut:] != expected[cut:]:
      k = cut + first_diff(joined[cut:], expected[cut:])
      if joined[cut:] == native[cut:]:
        if not data_native:   # else: same mechanism, already reported
          keys.append(("byte_order-ignored" if joined[:cut] == native[:cut]
                       else "pad-value", k))
      else:
        keys.append(("pad-value", k))
    if not keys:  # bytes equal, unpacked values differ: cannot happen
      keys.append(("content", 0))
    for key, k in keys:
      ctx.violation("%s/%s" % (name, key), case, strategy=strategy,
                    first_diff_byte=k, first_diff_item=k // isz,
                    got=clip(joined, k), want=clip(expected, k),
                    got_item=unpacked[k // isz] if k // isz < len(unpacked)
                    else None,
                    want_item=want_vals[k // isz] if k // isz < len(want_vals)
                    else None)
  if "struct" in outputs and "array" in outputs:
    ctx.count("chunks:strategies-compared")
    if outputs["struct"] != outputs["array"]:
      ctx.count("chunks:strategies-differ")  # each already judged above
  return True


# --------------------------------------------------------------------------
# WavStream
# --------------------------------------------------------------------------
_TMP = [None]
PROC_FD = "/proc/self/fd"


def _cleanup():
  if _TMP[0] is not None:
    shutil.rmtree(_TMP[0], ignore_errors=True)
    _TMP[0] = None


def tmpdir():
  if _TMP[0] is None:
    _TMP[0] = os.path.realpath(tempfile.mkdtemp(prefix="verif-c18-"))
    atexit.register(_cleanup)
  return _TMP[0]


def fds_on(path):
  n = 0
  for name in os.listdir(PROC_FD):
    try:
      if os.readlink(os.path.join(PROC_FD, name)) == path:
        n += 1
    except OSError:
      pass
  return n


def write_wav(path, width, nch, rate, raw):
  w = wave.open(path, "wb")
  try:
    w.setnchannels(nch)
    w.setsampwidth(width)
    w.setframerate(rate)
    w.writeframes(raw)
  finally:
    w.close()
  with open(path, "rb") as f:
    data = f.read()
  # independent look at the bytes on disk (canonical 44-byte PCM header)
  assert data[:4] == b"RIFF" and data[8:16] == b"WAVEfmt ", data[:48]
  tag, hch, hrate, _, _, hbits = struct.unpack("<HHIIHH", data[20:36])
  assert (tag, hch, hrate, hbits) == (1, nch, rate, 8 * width), data[:48]
  assert data[36:40] == b"data", data[:48]
  (dlen,) = struct.unpack("<I", data[40:44])
  assert dlen == len(raw) and data[44:44 + dlen] == raw, (dlen, len(raw))
  return data


def run_wav(ctx, case):
  _, width, nch, rate, samples, keep, kind = case
  bits = 8 * width
  signed = width > 1
  assert len(samples) % nch == 0, case
  raw = b"".join(v.to_bytes(width, "little", signed=signed) for v in samples)
  # oracle from the raw bytes: int.from_bytes per sample slot
  stored = [int.from_bytes(raw[k:k + width], "little", signed=signed)
            for k in range(0, len(raw), width)]
  assert stored == list(samples), case
  if keep:
    want = stored
  else:
    off = 128 if width == 1 else 0
    want = [Fraction(v - off, 1 << (bits - 1)) for v in stored]
    assert all(-1 <= w < 1 for w in want)

  ctx.count("wav:width-%d" % width)
  ctx.count("wav:mono" if nch == 1 else "wav:stereo")
  ctx.count("wav:keep" if keep else "wav:normalised")
  ctx.count("wav:kind-" + kind)
  if not samples:
    ctx.count("wav:empty")
  lo = 0 if width == 1 else -(1 << (bits - 1))
  hi = 255 if width == 1 else (1 << (bits - 1)) - 1
  if lo in samples:
    ctx.count("wav:extreme-lo-%dbit" % bits)
  if hi in samples:
    ctx.count("wav:extreme-hi-%dbit" % bits)
  if signed and any(v < 0 for v in samples):
    ctx.count("wav:negative-%dbit" % bits)
  if signed and any(v >= 0 and (v >> (bits - 8)) for v in samples):
    ctx.count("wav:positive-high-byte-set-%dbit" % bits)
  if width == 1 and any(v >= 128 for v in samples):
    ctx.count("wav:8bit-upper-half")

  path = os.path.join(tmpdir(), "c18-%d.wav" % os.getpid())
  have_proc = os.path.isdir(PROC_FD)
  fobj = None
  vio = []
  got, exc, hit = [], None, False
  open_before = open_after = base = None
  attrs = None
  with warnings.catch_warnings(record=True) as rec:
    warnings.simplefilter("always")
    try:
      data = write_wav(path, width, nch, rate, raw)
      if kind == "path":
        src = path
      elif kind == "fileobj":
        fobj = src = open(path, "rb")
      else:
        src = io.BytesIO(data)
      if have_proc:
        base = fds_on(path)
      try:
        if keep:
          ws = WavStream(src, True) if len(samples) % 4 < 2 else \
               WavStream(src, keep=True)
        else:
          ws = WavStream(src) if len(samples) % 4 < 2 else \
               WavStream(src, keep=False)
      except Exception as e:  # noqa
        ws = None
        vio.append(("wav/open-exception-" + type(e).__name__,
                    dict(error=repr(e), traceback=traceback.format_exc()[-1200:])))
      if ws is not None:
        attrs = (ws.rate, ws.channels, ws.bits)
        if have_proc:
          open_before = fds_on(path)
        got, exc, hit = drain(ws, limit=len(samples) + 8)
        if have_proc:
          open_after = fds_on(path)
        attrs_after = (ws.rate, ws.channels, ws.bits)
        fobj_closed = None if fobj is None else fobj.closed
        del ws
        gc.collect()
    finally:
      if fobj is not None:
        fobj.close()
      if os.path.exists(path):
        os.unlink(path)
  rwarn = [str(w.message) for w in rec
           if issubclass(w.category, ResourceWarning)]

  if attrs is not None:
    ctx.count("wav:streams-drained")
    ctx.count("wav:samples-compared", len(want))
    for nm, g, g2, w in zip(("rate", "channels", "bits"), attrs, attrs_after,
                            (rate, nch, bits)):
      if g != w or g2 != w:
        vio.append(("wav/attr-" + nm, dict(got=g, after_exhaustion=g2, want=w)))
    ctx.count("wav:attrs-compared")
    # ---- samples --------------------------------------------------------------
    if exc is not None:
      vio.append(("wav/exception-" + type(exc).__name__,
                  dict(error=repr(exc), yielded=len(got),
                       traceback="".join(traceback.format_exception(
                         type(exc), exc, exc.__traceback__))[-1200:])))
    elif hit or len(got) != len(want):
      vio.append(("wav/sample-count", dict(got=len(got), want=len(want),
                                           hit_limit=hit)))
    else:
      if keep:
        badtype = [(k, type(g).__name__) for k, g in enumerate(got)
                   if type(g) is not int]
        if badtype:
          vio.append(("wav/keep-type", dict(bad=badtype[:5])))
        eq = [type(g) is int and g == w for g, w in zip(got, want)]
      else:
        eq = []
        for g, w in zip(got, want):
          try:
            eq.append(isinstance(g, (int, float, Fraction)) and g == g and
                      abs(g) != inf and Fraction(g) == w)
          except Exception:  # noqa
            eq.append(False)
        outside = [(k, g) for k, g in enumerate(got)
                   if not (isinstance(g, (int, float, Fraction)) and
                           -1 <= g < 1)]
        ctx.count("wav:range-checked", len(got))
        if outside:
          vio.append(("wav/outside-[-1,1)", dict(bad=outside[:5], bits=bits)))
      if not all(eq):
        k = eq.index(False)
        key = None
        if nch == 2:
          swapped = [want[j ^ 1] for j in range(len(want))]
          try:
            if all(g == w for g, w in zip(got, swapped)):
              key = "wav/channel-order"
            elif sorted(got) == sorted(want):
              key = "wav/channel-interleave"
          except Exception:  # noqa
            pass
        if key is None:
          key = "wav/%s-value-%dbit" % ("keep" if keep else "normalised", bits)
        vio.append((key, dict(index=k, got=got[k], want=want[k],
                              stored=stored[k], raw=raw[k * width:
                                                        (k + 1) * width],
                              bits=bits, channels=nch, keep=keep)))
    # ---- closing ---------------------------------------------------------------
    if exc is None and not hit:
      if kind == "path" and have_proc:
        ctx.count("wav:closed-after-exhaustion-checked")
        if open_before:
          ctx.count("wav:fd-seen-open-before-exhaustion")
        if open_after != 0:
          vio.append(("wav/file-open-after-exhaustion",
                      dict(fds_before_open=base, fds_before_exhaustion=open_before,
                           fds_after_exhaustion=open_after, samples=len(got))))
      elif kind == "fileobj":
        # caller-owned file object: ownership stays with the caller (stdlib
        # wave semantics); recorded, not judged
        ctx.count("wav:fileobj-closed-by-library" if fobj_closed
                  else "wav:fileobj-left-to-caller")
      ctx.count("wav:resource-warning-recording")
      mine = [m for m in rwarn if path in m]
      if mine and kind == "path":
        vio.append(("wav/resource-warning", dict(warnings=mine[:3])))
  for key, detail in vio:
    ctx.violation(key, case, **detail)
  return True


def run_case(ctx, case):
  if case[0] == "chunks":
    return run_chunks(ctx, case)
  if case[0] == "wav":
    return run_wav(ctx, case)
  raise ValueError(case[0])


def setup(ctx):
  # make the per-case gc.collect() cheap: everything imported so far is moved
  # to the permanent generation
  gc.collect()
  gc.freeze()
  ctx.flag("cov.proc_self_fd", os.path.isdir(PROC_FD))
  ctx.flag("cov.chunks_default_size", chunks.size)


def finish(ctx):
  _cleanup()
  for fmt in FORMATS:
    ctx.need("chunks:fmt-" + fmt, 200)
    ctx.need("chunks:extreme-hi-" + fmt, 20)
    ctx.need("chunks:extreme-lo-" + fmt, 20)
    for strategy in STRATEGIES:
      ctx.need("chunks.%s:judged-%s" % (strategy, fmt), 200)
  for order in ORDERS:
    ctx.need("chunks:order-%s" % order, 200)
  for kind in SEQ_KINDS:
    ctx.need("chunks:seq-" + kind, 100)
  for key, n in [("chunks:size-default", 100), ("chunks:size-given", 1000),
                 ("chunks:empty", 50), ("chunks:padded-tail", 500),
                 ("chunks:exact-multiple", 200), ("chunks:several-chunks", 500),
                 ("chunks:f-rounding", 50), ("chunks:order-changes-bytes", 500),
                 ("chunks:size>format-max", 10),
                 ("chunks.struct:bytes-compared", 2000),
                 ("chunks.default:bytes-compared", 2000),
                 ("chunks.array:judged", 2000)]:
    ctx.need(key, n)
  for width in (1, 2, 3, 4):
    bits = 8 * width
    ctx.need("wav:width-%d" % width, 200)
    ctx.need("wav:extreme-lo-%dbit" % bits, 20)
    ctx.need("wav:extreme-hi-%dbit" % bits, 20)
    if width > 1:
      ctx.need("wav:negative-%dbit" % bits, 50)
      ctx.need("wav:positive-high-byte-set-%dbit" % bits, 50)
  for kind in WAV_KINDS:
    ctx.need("wav:kind-" + kind, 200)
  for key, n in [("wav:mono", 400), ("wav:stereo", 400), ("wav:keep", 400),
                 ("wav:normalised", 400), ("wav:empty", 20),
                 ("wav:8bit-upper-half", 50), ("wav:attrs-compared", 1500),
                 ("wav:range-checked", 5000), ("wav:samples-compared", 20000),
                 ("wav:closed-after-exhaustion-checked", 400),
                 ("wav:fd-seen-open-before-exhaustion", 400),
                 ("wav:resource-warning-recording", 1500)]:
    ctx.need(key, n)


# extension families (second round of seeded changes), see props/c18_x.py
from props import c18_x as _x, ext as _ext
_ext.install(globals(), _x)
