"""C12 extension families (second round of seeded changes):

mutate    evaluate freq_response, overwrite an existing coefficient of the
          filter's polynomial in place, evaluate again: the response must be
          the transfer function of the CURRENT coefficients
cplxfir   FIR filters with complex coefficients (including unit-modulus ones
          such as 1j, 0.6+0.8j): impulse response through the real filter
          code, its unnormalised DFT, and a complex exponential in steady
          state must all agree with freq_response / the defining sum
bankmut   a CascadeFilter / ParallelFilter (a list) is used once, then changed
          IN PLACE (item assignment, append, insert, del, +=): its response
          must be the product / sum over its CURRENT parts
bankshare a bank that holds the SAME filter object (or equal but distinct
          objects) at several positions: every position counts, the response
          is the product / sum over positions, not over distinct parts
          (sixth round of seeded changes)
"""
import cmath
import itertools
import math

from audiolazy import ZFilter, dft, CascadeFilter, ParallelFilter

KINDS = ("mutate", "cplxfir", "bankmut", "bankshare")
CPLX = [1j, -1j, 1, -1, 1 + 1j, 2 - 1j, 0.6 + 0.8j, -0.8 + 0.6j, 0.5j, 3, -2j,
        (3 + 4j) / 5, 2.5, -0.5 - 0.5j, 0.28 + 0.96j]


def H(b, a, w):
  num = sum(c * cmath.exp(-1j * w * k) for k, c in enumerate(b))
  den = sum(c * cmath.exp(-1j * w * k) for k, c in enumerate(a))
  return num, den


def cases(ctx):
  rng = ctx.rng
  for _ in ctx.loop(1500, 60000):
    b = [rng.randint(-6, 6) or 1 for _ in range(rng.randint(1, 6))]
    a = [rng.choice([1, 2, -1, 4])] + [rng.randint(-2, 2) or 1
                                       for _ in range(rng.randint(0, 3))]
    yield ("mutate", b, a, rng.choice([0.0, math.pi, rng.uniform(0, 6.28)]),
           rng.choice(["num", "num", "den"]), rng.randint(0, 5),
           rng.choice([2, -3, 5, 7, 0.5]))
  for _ in ctx.loop(1500, 60000):
    b = [rng.choice(CPLX) for _ in range(rng.randint(1, 6))]
    yield ("cplxfir", b, rng.choice([0.0, math.pi, rng.uniform(0, 6.28)]),
           rng.choice([1, 1, 2, -1, 1j]))
  for c in bank_cases(ctx):
    yield c
  for _ in ctx.loop(800, 40000):
    pool = [rpart(rng) for _ in range(rng.randint(1, 3))]
    yield ("bankshare", rng.choice(["C", "P"]), pool,
           [rng.randrange(len(pool)) for _ in range(rng.randint(2, 5))],
           rng.choice(["same-object", "same-object", "equal-objects"]),
           [rng.choice([0.0, math.pi, rng.uniform(0.05, 6.2)])
            for _ in range(3)])


def rpart(rng):
  b = [rng.randint(-4, 4) or 1 for _ in range(rng.randint(1, 4))]
  a = [rng.choice([1, 2, -1, 4])] + [rng.choice([-1, 1, 0.5, -0.5, 0.25])
                                     for _ in range(rng.randint(0, 2))]
  return (b, a)


def bank_cases(ctx):
  rng = ctx.rng
  for _ in ctx.loop(1200, 50000):
    yield ("bankmut", rng.choice(["C", "P"]),
           [rpart(rng) for _ in range(rng.randint(0, 3))],
           rng.choice(["setitem", "append", "insert", "delitem", "iadd",
                       "setitem", "pop", "extend"]),
           rng.randint(0, 5), [rpart(rng) for _ in range(2)],
           [rng.choice([0.0, math.pi, rng.uniform(0.05, 6.2)])
            for _ in range(3)],
           rng.choice(["freq_response", "call", "polys", "is_lti"]))


def bank_ref(tag, parts, w):
  """-> (value, scale) or None when a denominator is too close to zero."""
  vals = []
  for b, a in parts:
    num, den = H(b, a, w)
    if abs(den) < 1e-2 * sum(abs(c) for c in a):
      return None
    vals.append((num / den, sum(map(abs, b)) / abs(den)))
  if tag == "C":
    v, sc = 1, 1
    for x, s_ in vals:
      v, sc = v * x, sc * max(s_, 1)
    return v, sc
  return sum(x for x, _ in vals), sum(s_ for _, s_ in vals)


def run_bank(ctx, case):
  _, tag, parts, how, idx, new, ws, first_use = case
  cls = CascadeFilter if tag == "C" else ParallelFilter
  bank = cls(*[ZFilter(list(b), list(a)) for b, a in parts])
  pre = "cascade" if tag == "C" else "parallel"
  if not parts and first_use == "polys":
    first_use = "freq_response"         # (polynomials of an empty bank: not
                                        # part of the statement)
  for w in ws[:1]:                      # first use, before the change
    ref = bank_ref(tag, parts, w)
    if first_use == "freq_response":
      got = bank.freq_response(w)
      if ref is not None and not close(ctx, "bank:first", got, ref[0], ref[1]):
        ctx.violation("bankmut/%s-first-response" % pre, case, got=repr(got),
                      want=repr(ref[0]))
        return True
    elif first_use == "call":
      list(itertools.islice(iter(bank([1, 0, 0, 0], zero=0)), 4))
    elif first_use == "polys":
      bank.numpoly, bank.denpoly
    else:
      bank.is_lti()
  cur = list(parts)
  mk = lambda p: ZFilter(list(p[0]), list(p[1]))
  if how == "setitem":
    if not cur:
      return False
    k = idx % len(cur)
    bank[k] = mk(new[0])
    cur[k] = new[0]
  elif how == "append":
    bank.append(mk(new[0]))
    cur.append(new[0])
  elif how == "insert":
    k = idx % (len(cur) + 1)
    bank.insert(k, mk(new[0]))
    cur.insert(k, new[0])
  elif how == "delitem":
    if not cur:
      return False
    k = idx % len(cur)
    del bank[k]
    del cur[k]
  elif how == "iadd":
    bank += [mk(new[0])]
    cur.append(new[0])
  elif how == "pop":
    if not cur:
      return False
    bank.pop()
    cur.pop()
  else:
    bank.extend([mk(new[0]), mk(new[1])])
    cur.extend(new)
  if type(bank) is not cls:
    ctx.violation("bankmut/container-type-changed", case,
                  got=type(bank).__name__)
    return True
  done = False
  for w in ws:
    ref = bank_ref(tag, cur, w)
    if ref is None:
      continue
    got = bank.freq_response(w)
    ctx.count("bank-response-after-in-place-change")
    if not cur:
      ctx.count("empty-bank-response")      # empty product 1, empty sum 0
    ctx.count("bankmut:" + how)
    done = True
    if not close(ctx, "bank:after", got, ref[0], ref[1]):
      stale = bank_ref(tag, parts, w)
      ctx.violation("bankmut/%s-response-is-not-of-the-current-parts" % pre,
                    case, w=w, got=repr(got), want=repr(ref[0]),
                    looks_like_the_old_parts=bool(
                      stale and close(ctx, "bank:stale", got, stale[0],
                                      stale[1])))
      return True
  return done


def close(ctx, name, got, want, scale):
  tol = 1e-9 * (1 + scale)
  try:
    err = abs(complex(got) - complex(want))
  except TypeError:
    return False
  ctx.err(name, err, tol)
  return err <= tol


def run_share(ctx, case):
  _, tag, pool, layout, how, ws = case
  cls = CascadeFilter if tag == "C" else ParallelFilter
  pre = "cascade" if tag == "C" else "parallel"
  objs = [ZFilter(list(b), list(a)) for b, a in pool]
  if how == "same-object":
    bank = cls(*[objs[k] for k in layout])
  else:
    bank = cls(*[ZFilter(list(pool[k][0]), list(pool[k][1])) for k in layout])
  parts = [pool[k] for k in layout]
  repeated = len(set(layout)) < len(layout)
  done = False
  for w in ws:
    ref = bank_ref(tag, parts, w)
    if ref is None:
      continue
    got = bank.freq_response(w)
    done = True
    ctx.count("bankshare:" + how)
    if repeated:
      ctx.count("bankshare:repeated-part:" + pre)
    if not close(ctx, "bank:share", got, ref[0], ref[1]):
      ctx.violation("bankshare/%s-response-is-not-over-every-position" % pre,
                    case, w=w, got=repr(got), want=repr(ref[0]), how=how)
      return True
  return done


def run_case(ctx, case):
  if case[0] == "bankmut":
    return run_bank(ctx, case)
  if case[0] == "bankshare":
    return run_share(ctx, case)
  if case[0] == "mutate":
    _, b, a, w, which, idx, newc = case
    filt = ZFilter(list(b), list(a))
    num, den = H(b, a, w)
    if abs(den) < 1e-2 * sum(abs(c) for c in a):
      return False
    first = filt.freq_response(w)
    if not close(ctx, "mutate:first", first, num / den,
                 sum(map(abs, b)) / abs(den)):
      ctx.violation("mutate/first-response", case, got=repr(first),
                    want=repr(num / den))
      return True
    b2, a2 = list(b), list(a)
    if which == "num":
      k = idx % len(b2)
      if newc == b2[k]:
        newc = newc * 2
      filt.numpoly[k] = newc
      b2[k] = newc
    else:
      if len(a2) < 2:
        return False
      k = 1 + idx % (len(a2) - 1)
      if newc == a2[k]:
        newc = newc * 2
      filt.denpoly[k] = newc
      a2[k] = newc
    num2, den2 = H(b2, a2, w)
    if abs(den2) < 1e-2 * sum(abs(c) for c in a2):
      return False
    second = filt.freq_response(w)
    ctx.count("response-after-coefficient-overwrite")
    if not close(ctx, "mutate:second", second, num2 / den2,
                 sum(map(abs, b2)) / abs(den2)):
      ctx.violation("mutate/response-is-not-of-the-current-coefficients", case,
                    got=repr(second), want=repr(num2 / den2),
                    stale=repr(num / den))
    return True

  _, b, w, gain = case
  filt = ZFilter(list(b), [gain])
  n = len(b)
  scale = sum(abs(c) for c in b) / abs(gain)
  want_h = [c / gain for c in b]
  imp = [1] + [0] * (n + 1)
  h = list(itertools.islice(iter(filt(imp, zero=0)), n + 2))
  ctx.count("complex-fir-checked")
  if any(abs(c) == 1 and c not in (1, -1) for c in b):
    ctx.count("complex-unit-modulus-tap")
  if len(h) != n + 2 or not all(close(ctx, "cplx:impulse", g, wv, scale)
                                for g, wv in zip(h, want_h + [0, 0])):
    ctx.violation("cplxfir/impulse-response-is-not-the-coefficients", case,
                  got=repr(h), want=repr(want_h))
    return True
  want = sum(c * cmath.exp(-1j * w * k) for k, c in enumerate(b)) / gain
  fr = filt.freq_response(w)
  if not close(ctx, "cplx:freq_response", fr, want, scale):
    ctx.violation("cplxfir/freq_response", case, got=repr(fr), want=repr(want))
    return True
  d = dft(h, [w], normalize=False)[0]
  if not close(ctx, "cplx:dft-of-impulse-response", d, fr, scale):
    ctx.violation("cplxfir/dft-of-impulse-response-vs-freq_response", case,
                  got=repr(d), want=repr(fr))
    return True
  x = [cmath.exp(1j * w * m) for m in range(n + 6)]
  y = list(itertools.islice(iter(filt(x, zero=0)), len(x)))
  for m in range(n, len(x)):
    if not close(ctx, "cplx:steady-state", y[m], fr * x[m], scale):
      ctx.violation("cplxfir/complex-exponential-gain", case, index=m,
                    got=repr(y[m]), want=repr(fr * x[m]))
      return True
  return True


def finish(ctx):
  ctx.need("response-after-coefficient-overwrite", 300)
  ctx.need("complex-fir-checked", 300)
  ctx.need("complex-unit-modulus-tap", 100)
  ctx.need("bank-response-after-in-place-change", 500)
  ctx.need("empty-bank-response", 20)
  ctx.need("bankshare:same-object", 300)
  ctx.need("bankshare:equal-objects", 150)
  ctx.need("bankshare:repeated-part:cascade", 150)
  ctx.need("bankshare:repeated-part:parallel", 150)
  for how in ["setitem", "append", "insert", "delitem", "iadd", "pop",
              "extend"]:
    ctx.need("bankmut:" + how, 30)
