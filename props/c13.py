"""C13 - designed filters meet their documented gain, cut-off and pole contracts.

Every case builds a filter with the REAL design function (lowpass / highpass /
resonator / comb / gammatone strategies), reads its coefficients through the
public ``numdict`` / ``dendict`` properties and judges them with an oracle that
is written here from the formulas in the property statement:

* the frequency response is evaluated by this module (own complex Horner
  evaluation of the coefficients) - ``filt.freq_response`` is never used;
* pole positions / stability are decided exactly (Fractions of the float
  coefficients, Schur-Cohn step-down = Jury triangle for 2nd-order sections);
* comb filters are *run* (the generated filter code) on exact symbolic ``Lin``
  samples, so the recursion is compared for every input value at once;
* stream-valued parameters: every coefficient stream sample is compared with
  the coefficient of the constant design for that parameter value.

Not generated (the statement is silent): cut-offs outside [1e-3, pi-1e-3],
bandwidths outside [1e-3, 1], stream-valued comb delays, list (non-Stream)
parameters, gammatone peak position / number of sections.
"""
import cmath
import itertools
import math
from fractions import Fraction

from audiolazy import (Stream, CascadeFilter, ZFilter, comb, resonator,
                       lowpass, highpass, gammatone)

from vlib.inst import Lin

ID = "C13"

pi = math.pi
LO = 1e-3               # parameter range of the property's quantifier
HI = pi - 1e-3
TOL = 1e-6              # gains (observed <= ~1e-10)
TOL_SAMPLED = 1e-3      # gammatone.sampled, on [0.02, pi-0.02]
SLO, SHI = 0.02, pi - 0.02
TOL_COEF = 1e-9         # direct coefficient identities (observed <= 1e-15)
MONO_SLACK = 1e-12      # rounding slack of the monotonicity comparison

LP_STRATS = ("pole", "z", "pole_exp", "z_exp")
RES_STRATS = ("poles_exp", "freq_poles_exp", "z_exp", "freq_z_exp")
COMB_STRATS = ("fb", "tau", "ff")
GAMMA_STRATS = ("sampled", "slaney", "klapuri")
FAMILY = {"lowpass": lowpass, "highpass": highpass, "resonator": resonator,
          "comb": comb, "gammatone": gammatone}

GRID64 = [k * pi / 63 for k in range(64)]
GRID257 = [k * pi / 256 for k in range(257)]
ZI64 = [cmath.exp(-1j * w) for w in GRID64]
ZI257 = [cmath.exp(-1j * w) for w in GRID257]


# ---------------------------------------------------------------------------
# observation helpers (public attributes only)
# ---------------------------------------------------------------------------
class Shape(Exception):
  """The returned object does not have the documented form."""


def is_real(v):
  return isinstance(v, (int, float)) and not isinstance(v, bool) and \
         not (isinstance(v, float) and (math.isnan(v) or math.isinf(v)))


def dense(terms, what):
  """{power: value} -> dense list; powers must be ints >= 0 (causal filter in
  z**-1), values finite real numbers."""
  out = {}
  for k, v in terms.items():
    if not (isinstance(k, int) and k >= 0):
      raise Shape("%s has the power %r" % (what, k))
    if not is_real(v):
      raise Shape("%s[%r] is %r" % (what, k, v))
    out[k] = v
  if not out:
    return [0.0]
  return [out.get(k, 0.0) for k in range(max(out) + 1)]


def coefs(filt):
  """(b, a) dense float lists of one LTI ZFilter."""
  if not isinstance(filt, ZFilter):
    raise Shape("not a ZFilter: %s" % type(filt).__name__)
  b = dense(filt.numdict, "numerator")
  a = dense(filt.dendict, "denominator")
  if a[0] == 0:
    raise Shape("denominator has no constant term")
  return b, a


def horner(c, zi):
  acc = 0j
  for v in reversed(c):
    acc = acc * zi + v
  return acc


def resp(b, a, zi):
  """H at e^{jw} with zi = e^{-jw}; None where the denominator vanishes."""
  d = horner(a, zi)
  if d == 0:
    return None
  return horner(b, zi) / d


def strip(a):
  a = list(a)
  while len(a) > 1 and a[-1] == 0:
    a.pop()
  return a


def schur_stable(a):
  """Exact decision: all roots of a[0] + a[1] z^-1 + ... strictly inside the
  unit circle.  Step-down recursion on Fractions of the float coefficients;
  for a monic 2nd-order section it is the Jury triangle |a2| < 1,
  |a1| < 1 + a2.  Returns (stable, reflection coefficients as floats)."""
  A = [Fraction(x) for x in strip(a)]
  A = [x / A[0] for x in A]
  ks = []
  while len(A) > 1:
    m = len(A) - 1
    k = A[m]
    ks.append(float(k))
    if abs(k) >= 1:
      return False, ks
    den = 1 - k * k
    A = [(A[i] - k * A[m - i]) / den for i in range(m)]
  return True, ks


def pole_radius(a):
  """Largest pole modulus for orders <= 2 (evidence / witness detail only)."""
  a = strip(a)
  if len(a) == 1:
    return 0.0
  if len(a) == 2:
    return abs(a[1] / a[0])
  if len(a) == 3:
    a1, a2 = a[1] / a[0], a[2] / a[0]
    disc = a1 * a1 - 4 * a2
    if disc < 0:
      return math.sqrt(a2)
    r = math.sqrt(disc)
    return max(abs((-a1 + r) / 2), abs((-a1 - r) / 2))
  return None


def band(x):
  if x == LO or x == SLO:
    return "lo-endpoint"
  if x == HI or x == SHI:
    return "hi-endpoint"
  if x == pi / 2:
    return "pi/2"
  return "interior"


# ---------------------------------------------------------------------------
# case generation
# ---------------------------------------------------------------------------
def rfreq(rng, lo=LO, hi=None):
  """Cut-off / centre frequency in [lo, pi-lo]: end points, pi/2, uniform and
  log-uniform towards both ends."""
  hi = pi - lo if hi is None else hi
  r = rng.random()
  if r < 0.06:
    return lo
  if r < 0.12:
    return hi
  if r < 0.17:
    return pi / 2
  if r < 0.60:
    return rng.uniform(lo, hi)
  d = lo * math.exp(rng.uniform(0, math.log(1.5 / lo)))   # lo .. 1.5
  if r < 0.80:
    return min(max(d, lo), hi)
  return min(max(pi - d, lo), hi)


def rbw(rng):
  r = rng.random()
  if r < 0.08:
    return 1e-3
  if r < 0.16:
    return 1.0
  if r < 0.6:
    return math.exp(rng.uniform(math.log(1e-3), 0.0))
  return rng.uniform(1e-3, 1.0)


CALPHAS = [0.5j, 1j, -1j, 0.3 + 0.4j, -0.75 + 0.25j, 0.6 - 0.8j, 2 - 1j,
           -0.5 - 0.5j, 0.25j, 1 + 1j]


def check_comb_complex(ctx, case):
  _, strat, delay, alpha, variant = case
  name = "comb." + strat
  filt = comb[strat](delay, alpha) if variant != 1 else \
         comb[strat](delay=delay, alpha=alpha)
  n = 3 * delay + 2
  xs = [complex((3 * k) % 7 - 3, (5 * k) % 4 - 1) if variant >= 2
        else (3 * k) % 7 - 3 for k in range(n)]
  ys = list(itertools.islice(iter(filt(list(xs))), n + 1))
  ctx.count("comb:complex-alpha")
  if len(ys) != n:
    ctx.violation(name + "/output-shape", case, length=len(ys), want_length=n)
    return True
  want = []
  for k in range(n):
    y = xs[k]
    if k >= delay:
      y = y + alpha * (xs[k - delay] if strat == "ff" else want[k - delay])
    want.append(y)
  for k in range(n):
    tol = 1e-12 * max(1.0, abs(want[k]))
    err = abs(complex(ys[k]) - complex(want[k]))
    ctx.err("comb complex alpha", err, tol)
    if not err <= tol:
      ctx.violation(name + "/recursion-with-complex-alpha", case, n=k,
                    got=repr(ys[k]), want=repr(want[k]))
      return True
  ctx.count("comb:samples-compared", n)
  return True


def ralpha(rng):
  r = rng.random()
  if r < 0.15:
    return rng.choice([1, -1, 0, 2, -2, 1.0, -1.0, 0.0])
  return rng.randint(-24, 24) / float(1 << rng.randint(0, 4))   # dyadic


def rtau(rng):
  r = rng.random()
  if r < 0.1:
    return float("inf")
  if r < 0.25:
    return rng.randint(1, 40)
  return math.exp(rng.uniform(math.log(0.2), math.log(200.)))


SAMPLED_PHASES = (0, 0.5, pi / 2, -1.0, 3.0)


def cases(ctx):
  rng = ctx.rng
  i = 0
  specials = [LO, HI, pi / 2, pi / 6, 5 * pi / 6, 1.0, 0.01, pi - 0.01]
  for bandname in ("lowpass", "highpass"):
    for strat in LP_STRATS:
      for c in specials:
        if ctx.mine(i):
          yield ("lp", bandname, strat, c)
        i += 1
  for strat in RES_STRATS:
    for f in (LO, HI, pi / 2, 1.0, 0.03, pi - 0.03):
      for bw in (1e-3, 1.0, 0.1, 0.5):
        if ctx.mine(i):
          yield ("reson", strat, f, bw)
        i += 1
  for delay in range(1, 13):
    for strat in COMB_STRATS:
      if strat == "tau":
        params = (None, float("inf"), 1, 2.5, 100.0, 0.2)
      else:
        params = (None, 1, -1, 0.5, -0.75, 2, 0, 1.0, 0.0)
      for p in params:
        if ctx.mine(i):
          yield ("comb", strat, delay, p)
        i += 1
  for strat in GAMMA_STRATS:
    lo, hi = (SLO, SHI) if strat == "sampled" else (LO, HI)
    for f in (lo, hi, pi / 2, 1.0):
      for bw in (1e-3, 1.0, 0.1):
        if ctx.mine(i):
          yield ("gamma", strat, f, bw, None, None)
        i += 1
  ctx.flag("exhaustive_subspace",
           "every strategy at the range end points, pi/2 and a few fixed "
           "values; every comb delay 1..12 with fixed alphas/taus")

  for _ in ctx.loop(40000, 2400000):
    r = rng.random()
    if r < 0.30:
      yield ("lp", rng.choice(("lowpass", "highpass")), rng.choice(LP_STRATS),
             rfreq(rng))
    elif r < 0.55:
      yield ("reson", rng.choice(RES_STRATS), rfreq(rng), rbw(rng))
    elif r < 0.57:
      # complex alpha (numeric samples: the symbolic ones are real)
      yield ("combc", rng.choice(("fb", "ff")), rng.randint(1, 8),
             rng.choice(CALPHAS), rng.randint(0, 3))
    elif r < 0.67:
      strat = rng.choice(COMB_STRATS)
      p = rtau(rng) if strat == "tau" else ralpha(rng)
      if rng.random() < 0.08:
        p = None          # documented default
      yield ("comb", strat, rng.randint(1, 12), p)
    elif r < 0.82:
      strat = rng.choice(GAMMA_STRATS)
      if strat == "sampled":
        if rng.random() < 0.5:
          phase, eta = None, None
        else:
          phase, eta = rng.choice(SAMPLED_PHASES), rng.randint(1, 5)
        yield ("gamma", strat, rfreq(rng, SLO), rbw(rng), phase, eta)
      else:
        yield ("gamma", strat, rfreq(rng), rbw(rng), None, None)
    else:
      n = rng.randint(3, 6)
      fam = rng.choice(("lowpass", "highpass", "resonator", "resonator",
                        "comb", "klapuri"))
      if fam in ("lowpass", "highpass"):
        yield ("stream", fam, rng.choice(LP_STRATS),
               ([rfreq(rng) for _ in range(n)],))
      elif fam == "comb":
        strat = rng.choice(COMB_STRATS)
        vals = [rtau(rng) if strat == "tau" else ralpha(rng)
                for _ in range(n)]
        yield ("stream", fam, strat, (rng.randint(1, 12), vals))
      else:
        which = rng.choice(("both", "freq", "bw"))
        f = [rfreq(rng) for _ in range(n)] if which != "bw" else rfreq(rng)
        bw = [rbw(rng) for _ in range(n)] if which != "freq" else rbw(rng)
        if fam == "klapuri":
          yield ("stream", "gammatone", "klapuri", (f, bw))
        else:
          yield ("stream", fam, rng.choice(RES_STRATS), (f, bw))


# ---------------------------------------------------------------------------
# lowpass / highpass
# ---------------------------------------------------------------------------
def check_lp(ctx, case):
  _, bandname, strat, c = case
  name = "%s.%s" % (bandname, strat)
  filt = FAMILY[bandname][strat](c)
  try:
    b, a = coefs(filt)
  except Shape as exc:
    ctx.violation(name + "/not-a-causal-real-ZFilter", case, why=str(exc))
    return True
  ctx.count(name)
  ctx.count("cutoff:" + band(c))
  low = bandname == "lowpass"

  # pole strictly inside the unit circle (exact)
  ok, ks = schur_stable(a)
  if not ok:
    ctx.violation(name + "/pole-not-inside-unit-circle", case, den=a,
                  radius=pole_radius(a), reflection=ks)
    return True

  # unit gain at DC (lowpass) / Nyquist (highpass)
  h = resp(b, a, 1.0 if low else -1.0)
  err = float("inf") if h is None else abs(abs(h) - 1)
  ctx.err("gain@%s %s" % ("DC" if low else "Nyquist", name), err, TOL)
  if not err <= TOL:
    ctx.violation(name + "/gain-at-%s-not-1" % ("DC" if low else "Nyquist"),
                  case, gain=None if h is None else abs(h), num=b, den=a)
    return True

  if strat in ("pole", "z"):
    h = resp(b, a, cmath.exp(-1j * c))
    p = abs(h) ** 2
    err = abs(p - 0.5)
    ctx.err("halfpower@cutoff " + name, err, TOL)
    if not err <= TOL:
      ctx.violation(name + "/power-at-cutoff-not-half", case, power=p,
                    num=b, den=a)
      return True
    mags = [abs(resp(b, a, zi)) for zi in ZI64]
    for k in range(63):
      d = mags[k + 1] - mags[k]
      if (d > MONO_SLACK) if low else (d < -MONO_SLACK):
        ctx.violation(name + "/magnitude-not-monotone", case, at=GRID64[k],
                      mag=mags[k], mag_next=mags[k + 1], num=b, den=a)
        return True
    ctx.count("monotone-grids")
  return True


# ---------------------------------------------------------------------------
# resonators
# ---------------------------------------------------------------------------
def resonant_cos(strat, freq, bw):
  """cos of the frequency of maximum gain, from the statement's R =
  exp(-bandwidth/2); None where no resonance exists (freq_poles_exp)."""
  if strat in ("poles_exp", "z_exp"):
    return math.cos(freq)
  R = math.exp(-bw / 2)
  if strat == "freq_poles_exp":
    u = (1 + R * R) / (2 * R) * math.cos(freq)
    return u if abs(u) <= 1 else None
  return 2 * R / (1 + R * R) * math.cos(freq)          # freq_z_exp


def check_reson(ctx, case):
  _, strat, freq, bw = case
  name = "resonator." + strat
  filt = resonator[strat](freq, bw)
  try:
    b, a = coefs(filt)
  except Shape as exc:
    ctx.violation(name + "/not-a-causal-real-ZFilter", case, why=str(exc))
    return True
  ctx.count(name)
  ctx.count("freq:" + band(freq))
  if len(strip(a)) != 3:
    ctx.violation(name + "/not-two-poles", case, den=a)
    return True

  # pole radius exp(-bandwidth/2): product of the conjugate pair = a2 = R^2
  a1, a2 = a[1] / a[0], a[2] / a[0]
  want = math.exp(-bw)
  err = abs(a2 - want)
  ctx.err("den[2]-exp(-bw) " + name, err, TOL_COEF)
  if not err <= TOL_COEF:
    ctx.violation(name + "/pole-radius-not-exp(-bandwidth/2)", case,
                  den2=a2, want_den2=want, radius=math.sqrt(abs(a2)),
                  want_radius=math.exp(-bw / 2))
    return True
  if a1 * a1 - 4 * a2 < 0:
    ctx.count("resonator:conjugate-poles")
  else:
    ctx.count("resonator:real-poles(radius judged as sqrt of pole product)")

  # unit gain at the resonant frequency
  u = resonant_cos(strat, freq, bw)
  if u is None:
    ctx.count("freq_poles_exp:no-resonance(gain not judged)")
  else:
    if strat == "freq_poles_exp":
      ctx.count("freq_poles_exp:resonance-exists")
    zi = complex(u, -math.sqrt(max(0.0, 1 - u * u)))
    h = resp(b, a, zi)
    err = float("inf") if h is None else abs(abs(h) - 1)
    ctx.err("gain@resonance " + name, err, TOL)
    if not err <= TOL:
      ctx.violation(name + "/gain-at-resonance-not-1", case,
                    gain=None if h is None else abs(h), cos_w0=u, num=b,
                    den=a)
      return True

  # peak <= 1 on the 257-point grid
  peak, at = 0.0, None
  for w, zi in zip(GRID257, ZI257):
    h = resp(b, a, zi)
    m = float("inf") if h is None else abs(h)
    if m > peak:
      peak, at = m, w
  ctx.err("peak-1 " + name, max(peak - 1, 0.0), TOL)
  if not peak <= 1 + TOL:
    ctx.violation(name + "/peak-above-1", case, peak=peak, at=at, num=b,
                  den=a)
    return True
  ctx.count("peak-grids")
  return True


# ---------------------------------------------------------------------------
# comb filters: the real filter code on symbolic samples
# ---------------------------------------------------------------------------
def check_comb(ctx, case):
  _, strat, delay, p = case
  name = "comb." + strat
  filt = comb[strat](delay) if p is None else comb[strat](delay, p)
  ctx.count(name)
  if p is None:
    ctx.count("comb:default-parameter")
  n = 3 * delay + 2
  xs = [Lin.sym("x%d" % k) for k in range(n)]
  ys = list(itertools.islice(iter(filt(iter(xs))), n + 1))
  if len(ys) != n or not all(isinstance(y, Lin) for y in ys):
    ctx.violation(name + "/output-shape", case, got=[repr(y) for y in ys][:6],
                  length=len(ys), want_length=n)
    return True
  # observed alpha: coefficient of x0 in y[delay]
  alpha = ys[delay].t.get("x0", Fraction(0))
  want = []
  for k in range(n):
    y = xs[k]
    if k >= delay:
      y = y + alpha * (xs[k - delay] if strat == "ff" else want[k - delay])
    want.append(y)
  for k in range(n):
    if ys[k] != want[k]:
      ctx.violation(name + "/recursion", case, n=k, got=repr(ys[k]),
                    want=repr(want[k]), alpha=float(alpha))
      return True
  ctx.count("comb:samples-compared", n)
  if strat == "tau":
    tau = float("inf") if p is None else p
    if tau == float("inf"):
      ctx.count("comb.tau:inf")
    exp_alpha = math.exp(-delay / tau)
    err = abs(float(alpha) - exp_alpha)
    ctx.err("alpha-exp(-delay/tau) comb.tau", err, TOL_COEF)
    if not err <= TOL_COEF:
      ctx.violation(name + "/alpha-not-exp(-delay/tau)", case,
                    alpha=float(alpha), want=exp_alpha)
  else:
    a = 1 if p is None else p
    if alpha != Fraction(a):
      ctx.violation(name + "/alpha", case, alpha=float(alpha), want=a)
  return True


# ---------------------------------------------------------------------------
# gammatone
# ---------------------------------------------------------------------------
def check_gamma(ctx, case):
  _, strat, freq, bw, phase, eta = case
  name = "gammatone." + strat
  if strat == "sampled" and eta is not None:
    filt = gammatone.sampled(freq, bw, phase, eta)
    ctx.count("gammatone.sampled:explicit-phase-eta")
  else:
    filt = gammatone[strat](freq, bw)
  ctx.count(name)
  ctx.count("centre:" + band(freq))
  if not isinstance(filt, CascadeFilter) or len(filt) == 0:
    ctx.violation(name + "/not-a-cascade", case, got=type(filt).__name__)
    return True
  zi = cmath.exp(-1j * freq)
  gain = 1.0
  for k, sec in enumerate(filt):
    try:
      b, a = coefs(sec)
    except Shape as exc:
      ctx.violation(name + "/section-not-a-causal-real-ZFilter", case,
                    section=k, why=str(exc))
      return True
    ok, ks = schur_stable(a)
    if not ok:
      ctx.violation(name + "/unstable-section", case, section=k, den=a,
                    radius=pole_radius(a), reflection=ks)
      return True
    h = resp(b, a, zi)
    gain *= float("inf") if h is None else abs(h)
    ctx.count("gammatone:sections-judged")
  tol = TOL_SAMPLED if strat == "sampled" else TOL
  err = abs(gain - 1)
  ctx.err("gain@centre " + name, err, tol)
  if not err <= tol:
    ctx.violation(name + "/gain-at-centre-not-1", case, gain=gain,
                  sections=len(filt))
  return True


# ---------------------------------------------------------------------------
# stream-valued parameters
# ---------------------------------------------------------------------------
def build(family, strat, args):
  if family == "comb":
    return comb[strat](*args)
  return FAMILY[family][strat](*args)


def sections(filt):
  return list(filt) if isinstance(filt, CascadeFilter) else [filt]


def check_stream(ctx, case):
  _, family, strat, params = case
  name = "stream:%s.%s" % (family, strat)
  lens = set(len(p) for p in params if isinstance(p, list))
  n = lens.pop()
  assert not lens
  args = [Stream(list(p)) if isinstance(p, list) else p for p in params]
  filt = build(family, strat, args)
  ctx.count(name)
  # coefficient streams, sample by sample
  got = []
  for sec in sections(filt):
    if not isinstance(sec, ZFilter):
      ctx.violation(name + "/not-a-ZFilter", case, got=type(sec).__name__)
      return True
    polys = []
    for terms in (sec.numdict, sec.dendict):
      cols = {}
      for power, v in terms.items():
        if is_real(v):
          cols[power] = [v] * n
        elif hasattr(v, "__iter__"):
          col = list(itertools.islice(iter(v), n))
          if len(col) != n or not all(is_real(x) for x in col):
            ctx.violation(name + "/coefficient-stream-shape", case,
                          power=power, got=[repr(x) for x in col])
            return True
          cols[power] = col
          ctx.count("stream:coefficient-streams")
        else:
          ctx.violation(name + "/coefficient-type", case, power=power,
                        got=repr(v))
          return True
      polys.append(cols)
    got.append(polys)
  for i in range(n):
    cargs = [p[i] if isinstance(p, list) else p for p in params]
    ref = sections(build(family, strat, cargs))
    if len(ref) != len(got):
      ctx.violation(name + "/section-count", case, got=len(got),
                    want=len(ref))
      return True
    for k, sec in enumerate(ref):
      for which, terms in enumerate((sec.numdict, sec.dendict)):
        cols = got[k][which]
        for power in set(terms) | set(cols):
          w = terms.get(power, 0.0)
          g = cols[power][i] if power in cols else 0.0
          if not is_real(w):
            raise AssertionError("constant design is not constant: %r" % (w,))
          err = abs(g - w)
          ctx.err("coefficient stream vs constant design", err, TOL_COEF)
          if not err <= TOL_COEF:
            ctx.violation(name + "/coefficient-differs-from-constant-design",
                          case, sample=i, section=k,
                          part=("numerator", "denominator")[which],
                          power=power, got=g, want=w, args=cargs)
            return True
          ctx.count("stream:coefficients-compared")
  return True


def run_case(ctx, case):
  kind = case[0]
  if kind == "lp":
    return check_lp(ctx, case)
  if kind == "reson":
    return check_reson(ctx, case)
  if kind == "comb":
    return check_comb(ctx, case)
  if kind == "combc":
    return check_comb_complex(ctx, case)
  if kind == "gamma":
    return check_gamma(ctx, case)
  if kind == "stream":
    return check_stream(ctx, case)
  raise ValueError(kind)


def finish(ctx):
  for bandname in ("lowpass", "highpass"):
    for strat in LP_STRATS:
      ctx.need("%s.%s" % (bandname, strat), 40)
      ctx.need("stream:%s.%s" % (bandname, strat), 5)
  for strat in RES_STRATS:
    ctx.need("resonator." + strat, 40)
    ctx.need("stream:resonator." + strat, 5)
  for strat in COMB_STRATS:
    ctx.need("comb." + strat, 40)
    ctx.need("stream:comb." + strat, 5)
  for strat in GAMMA_STRATS:
    ctx.need("gammatone." + strat, 40)
  ctx.need("stream:gammatone.klapuri", 5)
  ctx.need("gammatone.sampled:explicit-phase-eta", 20)
  ctx.need("gammatone:sections-judged", 400)
  for b in ("lo-endpoint", "hi-endpoint", "pi/2", "interior"):
    ctx.need("cutoff:" + b, 8)
    ctx.need("freq:" + b, 8)
  for b in ("lo-endpoint", "hi-endpoint", "pi/2", "interior"):
    ctx.need("centre:" + b, 3)
  ctx.need("monotone-grids", 100)
  ctx.need("peak-grids", 100)
  ctx.need("resonator:conjugate-poles", 50)
  ctx.need("freq_poles_exp:resonance-exists", 20)
  ctx.need("freq_poles_exp:no-resonance(gain not judged)", 5)
  ctx.need("comb:default-parameter", 10)
  ctx.need("comb:complex-alpha", 100)
  ctx.need("comb.tau:inf", 5)
  ctx.need("comb:samples-compared", 1000)
  ctx.need("stream:coefficient-streams", 100)
  ctx.need("stream:coefficients-compared", 1000)
