"""Static metadata per property (imported by the driver, which never imports
audiolazy itself)."""

COMMON_ASSUMPTIONS = [
  "CPython /venv/bin/python executes the pure-Python library as written; the "
  "monitors observe only executions of this run",
  "the reference oracle in props/<id>.py states the property correctly",
]


def _m(rule, assumptions=(), shards=None, soft_s=None, hard_s=None,
       level="exploration"):
  d = {"rule": rule, "assumptions": COMMON_ASSUMPTIONS + list(assumptions),
       "level": level}
  if shards:
    d["shards"] = shards
  if soft_s:
    d["soft_s"] = soft_s
  if hard_s:
    d["hard_s"] = hard_s
  return d


META = {
  "C08": _m(
    "cases are (variant, items, size, hop, padval) for blocks / Stream.blocks / "
    "zero_pad: every (len 0..40, size 1..9, hop 1..12) triple enumerated "
    "completely each run plus random larger triples with heterogeneous items; "
    "a case is non-trivial when at least one block (or padded item) was "
    "yielded and compared; distinct = distinct case descriptions (hash of repr)",
    ["the consumer snapshots each yielded deque before advancing (the deque "
     "object is reused by design)"]),
}
