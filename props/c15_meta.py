META = {
  "rule":
    "a case is (kind, universe, operation history) with kind MultiKeyDict or "
    "StrategyDict; operations: item assignment with a single key or a key "
    "tuple, deletion, lookup, and for StrategyDict the strategy() decorator "
    "(with/without keep_name), delattr, manual default, call. Every maximal "
    "history of the small universes (3 keys x 2 values, 21 operations, length "
    "4 quick / 5 thorough; StrategyDict 3 names x 2 strategies, 24 operations, "
    "length 3 / 4) is enumerated on every run and compared with the model "
    "after each operation, so all shorter histories are covered as prefixes; "
    "plus random histories of length 1..40 over 8 keys and 15 values including "
    "equal-but-distinct ones (1, 1.0, True / 0, 0.0, False / (1,2), (1.0,2)). "
    "A case is non-trivial when at least one operation was executed and "
    "compared; distinct = distinct histories (hash of repr); the distinct "
    "abstract model states visited are reported as counters (lower / upper "
    "bound over the shards)",
  "assumptions": [
    "'in order of most recent assignment' is read as: a key tuple lists its "
    "keys from the least to the most recently assigned one, the keys of one "
    "key-tuple assignment counting as assigned left to right (the reading "
    "shown by the class docstring: mk[4]=2; mk[1]=2 gives (4, 1))",
    "values are compared by == only (which of 1 / 1.0 / True is stored is "
    "unspecified); value2keys of a value held by no key is the empty tuple "
    "(method docstring)",
    "a manually assigned StrategyDict.default is kept until the strategy equal "
    "to it loses its last name, and is then re-chosen by the next insertion "
    "(docstring Hint of StrategyDict.strategy); sd.default and sd() are not "
    "examined while no default is defined",
    "not generated (statement silent): key tuples with duplicates or empty, "
    "tuple-valued or equal-but-distinct keys, unhashable / NaN values, "
    "names colliding with dict or StrategyDict attributes, key2keys of a "
    "missing key, attributes overwritten behind the dictionary's back; "
    "delattr of a missing name only has to raise AttributeError or KeyError",
    "the private maps _keys_dict / _inv_dict are examined only when they "
    "exist and are dicts (extra coherence invariant)"],
  "level_text":
    "Runtime monitoring of real MultiKeyDict / StrategyDict objects driven "
    "through operation histories: after every operation d[k] for every key of "
    "the universe, key2keys, value2keys for every value, len, list(d), keys(), "
    "items(), and for StrategyDict getattr of every name, default and the "
    "call result are compared with an independent list-of-groups model. "
    "Exhaustive for all histories up to the stated length over the small "
    "universes, sampled beyond (longer histories, larger universes) - bounded "
    "model-based exploration, not a proof for unbounded histories.",
  # the enumerated spaces are never cut; only the random budget stops early
  "soft_s": {"quick": 25, "thorough": 240},
  "technique": "runtime monitor: model-based history exploration (exhaustive "
               "small universe + random), reference model comparison after "
               "every operation",
}

# EXTENSION families added after the seeded-change rounds
META["rule"] += (" Added after the seeded-change rounds: " '(c15_x) histories whose keys and values are rebuilt as equal-but-not-identical objects at every use (run-time strings, large ints, tuples, bound methods as strategies)' ".")
