META = {
  "rule":
    "cases are plain descriptions of (filter or filter bank, frequencies, "
    "container kind, call style) / (FIR filter, impulse length, "
    "frequencies) / (FIR filter, frequency, length of a complex "
    "exponential) / (dft block, frequencies, normalize) / (two blocks, two "
    "scalars, frequencies).  Filters: numerator and denominator of 1..9 "
    "coefficients (order <= 8), int / dyadic float / Fraction / mixed, "
    "|c| <= 8, built as ZFilter(lists), LinearFilter(lists), ZFilter(dicts) "
    "or a z-expression; a small share with a0 == 0 (both polynomials "
    "shifted), all-zero numerators, sparse polynomials; banks of 1-4 parts "
    "(one nesting level).  Frequencies: 0 (int, 0.0, -0.0), pi, k*pi/4, DFT "
    "bins, uniform in [0, 2pi); containers scalar / list / tuple / deque / "
    "set / finite Stream / periodic Stream / generator, positional and "
    "freq= keyword.  Every b, a in {-1,0,1}^3 (a != 0) at the 8 multiples of "
    "pi/4 is enumerated completely on each run.  A case is non-trivial when "
    "at least one returned element was compared; distinct = distinct case "
    "descriptions (hash of repr)",
  "assumptions": [
    "math.cos / math.sin / cmath.exp of the platform libm are accurate to "
    "about one ulp (the error bound 64*(order+2)*eps*(sum|b|/|D| + "
    "|N|*sum|a|/|D|^2) is derived with that, with a factor >= 2 in hand)",
    "a frequency is probed only where |D(w)| >= 1e-3*sum|a| (the statement's "
    "'denominators bounded away from zero'); NaN is demanded only where the "
    "denominator is exactly zero in exact arithmetic AND in the code's float "
    "arithmetic: int / dyadic coefficients summing to 0 at w == 0, where "
    "exp(-j0) is exactly 1; float NaN and complex NaN are both accepted",
    "not generated because the statement is silent: frequencies outside "
    "[0, 2pi), time-varying coefficients, empty or non-callable bank "
    "members, NaN propagation through banks, dict / range / numpy "
    "containers (numpy is not installed), empty dft blocks, FIR output "
    "before the filter memory is full, IIR impulse responses",
  ],
  "level_text":
    "Runtime monitoring of the real freq_response of LinearFilter / ZFilter "
    "/ CascadeFilter / ParallelFilter, of the real filter call (impulse "
    "response, complex exponential input) and of dft.  Each returned value "
    "is compared with an independent term-by-term evaluation of "
    "sum b_k e^{-jwk} / sum a_k e^{-jwk} under a derived rounding-error "
    "bound (no calibrated tolerance); cascades against the product and "
    "parallel banks against the sum of the parts' reference responses; "
    "container results by kind, length and element; generators must come "
    "back as generators with no source item pulled before iteration; NaN at "
    "exactly vanishing denominators; dft(impulse response, [w], "
    "normalize=False) and the steady-state gain of e^{jwn} against "
    "freq_response(w); dft against its defining sum, linearity and the "
    "block mean.  A tiny filter space is enumerated completely on every "
    "run, the rest is sampled: evidence for the sampled executions, not a "
    "proof for all filters.",
  "technique": "runtime monitor: returned values vs independent complex "
               "reference with derived floating-point error bound; "
               "exhaustive tiny space + random cases",
  "shards": {"quick": 4, "thorough": 16},
  "soft_s": {"quick": 25, "thorough": 240},
}

# EXTENSION families added after the seeded-change rounds
META["rule"] += (" Added after the seeded-change rounds: " '(c12_x) freq_response after overwriting an existing coefficient of numpoly/denpoly in place; FIR filters with complex (incl. unit-modulus) coefficients: impulse response, its DFT, steady-state gain' ".")
