"""C16 - the mixer starts each event at its cumulative time and sums what
plays; a ControlStream yields the value most recently assigned.

Monitor: generated histories of ``add`` / ``pull`` steps are applied to a real
``Streamix`` (observed only through ``itertools.islice(iter(smix), n)``) and to
an independent event-table model in exact rationals.

Oracle (written from the statement, not from the code)
  T_i      = d_0 + ... + d_i               exact, Fraction(float) per delta
  r_i      = the integer nearest to T_i;  at an exact tie T_i = n + 1/2 both
             n and n + 1 are "nearest" and either is accepted (the statement
             does not choose; ties are generated only on the dyadic grid)
  start_i  = max(r_i, samples already consumed when it was added, start_{i-1})
  out[n]   = zero + sum of data_i[n - start_i] over start_i <= n < start_i+len_i
  length   = max_i(start_i + len_i) without keep (0 events: empty); with keep
             the output goes on with the zero value (a bounded tail is read)
  add(d<0) raises ValueError and queues nothing.

Not generated (statement silent): adding to a mixer whose end was already
observed, -0.0 / nan deltas, endless event data, changing ``keep`` afterwards.
"""
import itertools
from fractions import Fraction

from audiolazy import ControlStream, Stream, Streamix

from vlib.inst import Probe, frac

ID = "C16"

HALF = Fraction(1, 2)
MARGIN = Fraction(1, 10 ** 6)      # drift class: distance from n + 1/2
DRIFT_DELTAS = [0.1, 1. / 3, 0.7, 2. / 3, 0.3, 1.1, 0.05, 0.9, 2.7, 1. / 7,
                0.013, 1.9, 0.0]


# ---------------------------------------------------------------------------
# oracle
# ---------------------------------------------------------------------------
def nearest(T):
  """Integers nearest to the rational T >= 0: (n,) or, at a tie, (n, n+1);
  also the distance of T from the rounding boundary floor(T) + 1/2."""
  f = T.numerator // T.denominator
  r = T - f
  if r < HALF:
    return (f,), HALF - r
  if r > HALF:
    return (f + 1,), r - HALF
  return (f, f + 1), 0


def exact_value(x):
  """int / Fraction as they are, a float as the rational it is."""
  return Fraction(x) if isinstance(x, float) else x


class Model(object):
  """Event table + sum table of one mixer history."""
  def __init__(self, keep, zero, choices=None):
    self.keep = keep
    self.zero = zero
    self.zfrac = frac(zero)
    self.choices = choices      # tie number -> 0 / 1 (None: always lower)
    self.T = Fraction(0)
    self.pos = 0                # samples consumed so far
    self.events = []            # (start, length, T, tie?, late?, consumed
                                #  when added, length of the output before)
    self.prev_start = 0
    self.length = 0             # max(start + len)
    self.exact = {}             # n -> exact sum of the items due at n
    self.native = {}            # n -> zero + items, with Python's own + (type)
    self.nties = 0
    self.ended = False
    self.margin = None          # smallest distance of a T_i from n + 1/2

  def add(self, delta, data):
    self.T += exact_value(delta)
    cand, dist = nearest(self.T)
    if self.margin is None or dist < self.margin:
      self.margin = dist
    tie = len(cand) == 2
    if tie:
      pick = 0 if self.choices is None else self.choices[self.nties]
      self.nties += 1
      r = cand[pick]
    else:
      r = cand[0]
    start = max(r, self.pos, self.prev_start)
    self.prev_start = start
    self.events.append((start, len(data), self.T, tie, self.pos > r, self.pos,
                        self.length))
    self.length = max(self.length, start + len(data))
    exact, native, zero = self.exact, self.native, self.zero
    n = start
    for x in data:
      exact[n] = exact.get(n, 0) + exact_value(x)
      native[n] = native.get(n, zero) + x
      n += 1
    return start

  def pull(self, n):
    """Expected (exact values, native values) of the next n samples."""
    if self.ended:
      return [], []
    stop = self.pos + n
    if not self.keep and stop > self.length:
      stop = max(self.length, self.pos)
      self.ended = True
    rng = range(self.pos, stop)
    ex = [self.zfrac + self.exact.get(k, 0) for k in rng]
    nat = [self.native.get(k, self.zero) for k in rng]
    self.pos = stop
    return ex, nat


# ---------------------------------------------------------------------------
# case generation
# ---------------------------------------------------------------------------
def gen_zero(rng, family):
  if family == "int":
    return rng.choice([0, 0, 5, -3, 1000000])
  if family == "frac":
    return rng.choice([Fraction(0), Fraction(0), Fraction(1, 3),
                       Fraction(-7, 2)])
  return rng.choice([None, 0.0, 0.0, 0.25, -1.5])   # None: the default (0.)


def gen_data(rng, family, i, length):
  style = rng.random()
  if style < 0.75:      # event i contributes multiples of 10^i
    vals = [(k + 1) * 10 ** i for k in range(length)]
  else:
    vals = [rng.randint(-9, 9) for _ in range(length)]
  if family == "float":
    scale = rng.choice([1.0, 0.5, 0.25])
    return tuple(v * scale for v in vals)
  if family == "frac" and rng.random() < 0.5:
    q = rng.choice([3, 7, 2])
    return tuple(Fraction(v, q) for v in vals)
  return tuple(vals)


def gen_delta(rng, j, T):
  """A non-negative delta on the grid 1/2^j (exact float / int / Fraction)."""
  den = 1 << j
  u = rng.random()
  if u < 0.18:
    d = Fraction(0)
  elif u < 0.40:
    d = Fraction(rng.randint(1, 4))
  elif u < 0.70:
    d = Fraction(rng.randint(0, 5 * den), den)
  elif u < 0.80:
    d = Fraction(rng.randint(10 * den, 40 * den), den)
  else:                 # make T_i an exact tie n + 1/2
    f = T.numerator // T.denominator
    d = f + HALF - T
    if d < 0:
      d += 1
    d += rng.choice([0, 0, 1, 2])
  v = rng.random()
  if d.denominator == 1 and v < 0.5:
    return int(d)
  if v < 0.85:
    return float(d)     # exact: dyadic
  return d


def gen_mix(rng):
  keep = rng.random() < 0.4
  family = rng.choice(["int", "frac", "float"])
  zero = gen_zero(rng, family)
  ctor = "default" if (zero is None and not keep) else \
         rng.choice(["kw", "kw", "pos"])
  nev = rng.choice([0, 1, 1, 2, 2, 3, 3, 4, 4, 5, 6])
  j = rng.choice([0, 1, 1, 2, 3])
  m = Model(keep, 0.0 if zero is None else zero)
  steps = []
  for i in range(nev):
    if rng.random() < 0.4:
      if keep:
        n = rng.choice([0, 1, 1, 2, 3, 5, 8, rng.randint(0, 30)])
      else:
        room = m.length - m.pos     # the end must not be reached before an add
        n = 0 if room <= 0 else rng.choice([room, rng.randint(0, room),
                                            rng.randint(0, room), 1])
      if n or rng.random() < 0.3:
        steps.append(("pull", n))
        m.pull(n)
    if rng.random() < 0.12:
      steps.append(("neg", rng.choice([-1, -0.5, -2.0 ** -10, -3.25, -1e-300,
                                       Fraction(-1, 2), -7, -1e300])))
    d = gen_delta(rng, j, m.T)
    length = rng.choice([0, 0, 1, 1, 2, 3, 4, 5, 6])
    data = gen_data(rng, family, i, length)
    kind = rng.choice(["list", "tuple", "probe", "probe", "stream", "gen"])
    steps.append(("add", d, data, kind))
    m.add(d, data)
  if rng.random() < 0.1:
    steps.append(("neg", rng.choice([-1, -0.25, Fraction(-3, 4)])))
  upper = m.length + m.nties       # no tie choice can end later than this
  rest = max(upper - m.pos, 0)
  if rng.random() < 0.3 and rest > 1:
    n = rng.randint(1, rest - 1) if keep else \
        rng.randint(0, max(m.length - m.pos, 0))
    steps.append(("pull", n))
    rest -= n
  steps.append(("pull", rest + rng.randint(2, 8)))
  steps.append(("pull", 2))
  return ("mix", keep, zero, ctor, tuple(steps))


def small_space(ctx):
  """Two events on a quarter/half grid, every combination."""
  grid = [0.0, 0.25, 0.5, 0.75, 1.0, 1.5, 2.0, 2.5, 3.5]
  i = 0
  for d0 in grid:
    for d1 in grid:
      for l0 in (0, 1, 3):
        for l1 in (0, 2):
          for p in (None, 0, 1, 2, 3):
            for keep in (False, True):
              i += 1
              if not ctx.mine(i):
                continue
              e0 = ("add", d0, tuple(range(1, l0 + 1)), "list")
              e1 = ("add", d1, tuple(10 * k for k in range(1, l1 + 1)),
                    "probe")
              if p is None:
                steps = [e0, e1]
              else:
                if not keep:
                  s0 = nearest(Fraction(d0))[0][0]
                  if p > s0 + l0:       # the end would already be reached
                    continue
                steps = [e0, ("pull", p), e1]
              steps += [("pull", 14), ("pull", 1)]
              yield ("mix", keep, 0, "kw", tuple(steps))


def drift_steps(case):
  """Deterministic expansion of a compact drift case into a history."""
  _, keep, zero, offset, pattern, lens, nev, mode, block, lag = case
  m = Model(keep, zero)
  steps = []
  for i in range(nev):
    d = offset if i == 0 else pattern[(i - 1) % len(pattern)]
    v = (i * 7919) % 1009 + 1
    data = tuple(v + 1013 * k for k in range(lens[i % len(lens)]))
    steps.append(("add", d, data, "list"))
    m.add(d, data)
    if mode == "inter" and (i + 1) % block == 0 and i + 1 < nev:
      target = m.T.numerator // m.T.denominator - lag
      n = target - m.pos
      if not keep:
        n = min(n, m.length - m.pos)
      if n > 0:
        steps.append(("pull", n))
        m.pull(n)
  steps.append(("pull", max(m.length - m.pos, 0) + 5))
  steps.append(("pull", 2))
  return steps, m


def gen_drift(rng, nsamples):
  for _ in range(50):
    npat = rng.choice([1, 2, 2, 3, 4])
    pattern = tuple(rng.choice(DRIFT_DELTAS) for _ in range(npat))
    mean = sum(pattern) / npat
    if mean < 0.04:
      continue
    offset = round(rng.uniform(0.003, 0.997), 3) if rng.random() < 0.8 else \
        rng.choice(DRIFT_DELTAS)
    lens = tuple(rng.choice([1, 1, 2, 3, 0]) for _ in range(rng.randint(1, 3)))
    nev = int(nsamples * rng.uniform(1.0, 1.3) / mean) + 1
    mode = rng.choice(["pre", "inter", "inter"])
    keep = rng.random() < 0.4
    lag = rng.choice([0, 3]) if not keep else rng.choice([0, 3, -2])
    case = ("drift", keep, rng.choice([0, 0, 7]), offset, pattern, lens, nev,
            mode, rng.choice([1, 7, 50, 333]), lag)
    _, m = drift_steps(case)
    if m.margin is not None and m.margin >= MARGIN:
      return case
  return None


NUMS = {
  "int": lambda rng: rng.randint(-9, 9),
  "frac": lambda rng: Fraction(rng.randint(-9, 9), rng.randint(1, 6)),
  "float": lambda rng: rng.randint(-16, 16) / 4.0,
}
OBJECTS = [None, "a", (1, 2), 0, 1, True, 2.5, "", (), Fraction(1, 3), -7]


def gen_ctrl(rng):
  mode = rng.choice(["iter", "iter", "iterobj", "add_stream", "radd_stream",
                     "mul", "rsub", "neg", "add_finite", "both"])
  if mode == "iterobj":
    val = lambda: rng.choice(OBJECTS)
    aux = None
  else:
    fam = rng.choice(["int", "frac", "float"])
    val = lambda: NUMS[fam](rng)
    if mode in ("add_stream", "radd_stream", "both"):
      aux = tuple(val() for _ in range(rng.randint(1, 4)))
    elif mode == "add_finite":
      aux = tuple(val() for _ in range(rng.randint(0, 8)))
    elif mode in ("mul", "rsub"):
      aux = rng.choice([2, 2, val()])
    else:
      aux = None
  steps = []
  methods = rng.random() < 0.4    # reads through the Stream methods as well
  for _ in range(rng.randint(2, 12)):
    u = rng.random()
    if u < 0.5:
      steps.append(("set", val()))
    elif methods and u < 0.62:
      steps.append(("peek", rng.choice([None, 1, 2, 3])))
    elif methods and u < 0.72:
      steps.append(("take", rng.choice([None, 1, 2, 4])))
    elif methods and u < 0.78:
      steps.append(("copy", rng.choice([0, 1, 3])))
    else:
      steps.append(("read", rng.choice([0, 1, 1, 1, 2, 3, 5])))
  if methods:
    steps.append(("take", rng.choice([None, 1, 3])))
  steps.append(("read", rng.randint(1, 3)))
  return ("ctrl", mode, val(), aux, tuple(steps))


def cases(ctx):
  for case in small_space(ctx):
    yield case
  ctx.flag("exhaustive_subspace",
           "mixer: two events, deltas in {0,.25,.5,.75,1,1.5,2,2.5,3.5}^2, "
           "lengths {0,1,3}x{0,2}, second event added before playback or "
           "after 0..3 samples, keep on/off")
  rng = ctx.rng
  nsamples = ctx.pick(1000, 10000)
  for k in ctx.loop(40000, 1600000):
    u = rng.random()
    if k % ctx.pick(400, 4000) == 0:
      case = gen_drift(rng, nsamples)
      if case is not None:
        yield case
    elif u < 0.8:
      yield gen_mix(rng)
    else:
      yield gen_ctrl(rng)


# ---------------------------------------------------------------------------
# monitor
# ---------------------------------------------------------------------------
def build_data(data, kind):
  if kind == "list":
    return list(data), None
  if kind == "tuple":
    return tuple(data), None
  if kind == "stream":
    return Stream(list(data)), None
  if kind == "gen":
    return (x for x in data), None
  p = Probe(list(data), name="event")
  return p, p


def same_num(g, w):
  """Exact numeric equality (both sides as rationals)."""
  try:
    return frac(g) == w
  except (TypeError, ValueError, OverflowError):
    return False


def compare(steps, obs, keep, zval, combo):
  """Run the model over the history with the given tie choices; return
  (first mismatch or None, model)."""
  m = Model(keep, zval, combo)
  bad = None
  npull = 0
  total = 0
  for step, o in zip(steps, obs):
    if step[0] == "add":
      m.add(step[1], step[2])
    elif step[0] == "pull":
      ex, nat = m.pull(step[1])
      if bad is not None:
        continue
      for k in range(min(len(o), len(ex))):
        if not same_num(o[k], ex[k]):
          bad = ("value", total + k, o[k], ex[k], npull)
          break
        if type(o[k]) is not type(nat[k]):
          bad = ("type", total + k, o[k], nat[k], npull)
          break
      if bad is None and len(o) != len(ex):
        bad = ("short" if len(o) < len(ex) else "long",
               total + min(len(o), len(ex)), len(o), len(ex), npull)
      total += len(o)
      npull += 1
  return bad, m


def all_off_by_zero(steps, obs, keep, zval, combo):
  """Failure classification only: is every observed sample exactly the
  expected one minus the zero value?"""
  m = Model(keep, zval, combo)
  for step, o in zip(steps, obs):
    if step[0] == "add":
      m.add(step[1], step[2])
    elif step[0] == "pull":
      ex, _ = m.pull(step[1])
      if len(ex) != len(o) or \
         not all(same_num(g, w - m.zfrac) for g, w in zip(o, ex)):
        return False
  return True


def run_mixer(ctx, case, cls, keep, zero, ctor, steps, check_margin=False):
  # ---- the real mixer ------------------------------------------------------
  if ctor == "default":
    smix = Streamix()
  elif ctor == "pos":
    smix = Streamix(keep) if zero is None else Streamix(keep, zero)
  else:
    smix = Streamix(keep=keep) if zero is None else \
        Streamix(keep=keep, zero=zero)
  zval = 0.0 if zero is None else zero
  it = iter(smix)
  obs = []
  probes = []       # (event number, probe)
  snaps = []        # after each pull: [calls of each probe so far]
  nev = 0
  for step in steps:
    op = step[0]
    if op == "add":
      obj, probe = build_data(step[2], step[3])
      try:
        smix.add(step[1], obj)
      except Exception as exc:  # noqa - a non-negative delta must be accepted
        ctx.violation(cls + "/nonnegative-delta-rejected", case,
                      delta=step[1], raised=repr(exc))
        return True
      if probe is not None:
        probes.append((nev, probe))
      nev += 1
      obs.append(None)
    elif op == "neg":
      try:
        smix.add(step[1], [12345])
      except ValueError:
        obs.append("ValueError")
        ctx.count("negative_delta_rejected")
      except Exception as exc:  # noqa
        ctx.violation(cls + "/negative-delta-wrong-exception", case,
                      delta=step[1], raised=repr(exc))
        return True
      else:
        ctx.violation(cls + "/negative-delta-accepted", case, delta=step[1])
        return True
    else:
      got = list(itertools.islice(it, step[1]))
      obs.append(got)
      snaps.append([p.calls for _, p in probes])

  # ---- the oracle, for every way of resolving exact ties -------------------
  bad, m = compare(steps, obs, keep, zval, None)      # ties -> lower neighbour
  nties = m.nties
  if check_margin and (m.margin is None or m.margin < MARGIN):
    ctx.count("drift:skipped-near-boundary")
    return False
  if nties > 10:
    ctx.count("skipped:too-many-ties")
    return False
  combo = (0,) * nties
  matched = (combo, m) if bad is None else None
  best = (bad, m, combo)
  if bad is not None and nties:
    for combo in itertools.product((0, 1), repeat=nties):
      if not any(combo):
        continue
      bad, m = compare(steps, obs, keep, zval, combo)
      if bad is None:
        matched = (combo, m)
        break
      if bad[1] > best[0][1]:
        best = (bad, m, combo)

  if matched is None:
    bad, m, combo = best
    what, n, g, w, npull = bad
    playing = [i for i, e in enumerate(m.events) if e[0] <= n < e[0] + e[1]]
    pending = [i for i, e in enumerate(m.events) if e[0] > n]
    if what == "value":
      if m.zfrac != 0 and all_off_by_zero(steps, obs, keep, zval, combo):
        key = "/zero-value-not-added"
      elif not playing and not same_num(g, m.zfrac):
        key = "/idle-sample-not-zero"
      else:
        key = "/sample-sum"
    elif what == "type":
      key = "/output-type"
      g, w = type(g).__name__, type(w).__name__
    elif what == "short":
      if keep:
        key = "/keep-ended"
      elif not playing and pending:
        key = "/ended-while-event-pending"
      else:
        key = "/ended-early"
    else:
      key = "/continues-past-end"
    ctx.violation(cls + key, case, sample=n, got=g, want=w, pull_number=npull,
                  ties=nties, tie_choice_closest=list(combo),
                  model_events=[(e[0], e[1], str(e[2])) for e in m.events],
                  observed=[o for o in obs if isinstance(o, list)][:6]
                  if cls == "mix" else None)
    return True

  # ---- counters: which classes were actually observed ------------------------
  combo, m = matched
  ctx.count(cls + ":histories")
  ctx.count(cls + ":samples", m.pos)
  ctx.count(cls + (":keep" if keep else ":nokeep"))
  if nties:
    ctx.count("tie:histories")
    # which neighbour did the implementation use (evidence only)
    lower = Model(keep, zval, (0,) * nties)
    upper = Model(keep, zval, (1,) * nties)
    for step in steps:
      if step[0] == "add":
        lower.add(step[1], step[2])
        upper.add(step[1], step[2])
      elif step[0] == "pull":
        lower.pull(step[1])
        upper.pull(step[1])
    if [e[0] for e in lower.events] != [e[0] for e in upper.events]:
      starts = [e[0] for e in m.events]
      if starts == [e[0] for e in lower.events]:
        ctx.count("tie:observed-lower-neighbour")
      elif starts == [e[0] for e in upper.events]:
        ctx.count("tie:observed-upper-neighbour")
      else:
        ctx.count("tie:observed-mixed")
  if not m.events:
    ctx.count(cls + ":no-events")
  seen_pull = False
  maxend = None
  nadd = len(m.events)
  idx = 0
  for step in steps:
    if step[0] == "pull":
      seen_pull = seen_pull or step[1] > 0
      continue
    if step[0] != "add":
      continue
    start, length, T, tie, late, pos_then, length_then = m.events[idx]
    idx += 1
    if seen_pull:
      ctx.count(cls + ":add-during-playback")
      seen_pull = False
    if not keep and pos_then and pos_then == length_then:
      ctx.count(cls + ":add-exactly-at-current-end")
    if length == 0:
      ctx.count(cls + ":empty-event")
    if late:
      ctx.count(cls + ":late-event")
    if T.denominator > 1 and not tie:
      ctx.count(cls + ":fractional-time")
    if maxend is not None and start > maxend:
      ctx.count(cls + ":gap-before-pending-event")
      if length == 0 and idx == nadd and not keep:
        ctx.count(cls + ":empty-event-ends-after-gap")
    if length and maxend is not None and start < maxend:
      ctx.count(cls + ":overlap")
    maxend = start + length if maxend is None else max(maxend, start + length)
  if not keep and m.ended:
    ctx.count(cls + ":end-observed")
  if keep and m.pos > m.length:
    ctx.count(cls + ":keep-tail-observed")
  if frac(zval) != 0:
    ctx.count(cls + ":nonzero-zero-value")
  ctx.count(cls + ":zero-" + type(zval).__name__)
  # laziness counters (no verdict here - it belongs to another property)
  if probes and not nties:
    pos = 0
    k = 0
    ended = False
    for step, o in zip(steps, obs):
      if step[0] != "pull":
        continue
      pos += len(o)
      ended = ended or len(o) < step[1]
      eff = pos + (1 if ended else 0)
      for (i, p), calls in zip(probes, snaps[k]):
        start, length = m.events[i][0], m.events[i][1]
        want = min(max(eff - start, 0), length + 1)
        ctx.count("probe:reads-as-played" if calls == want else
                  "probe:reads-differ")
      k += 1
  return m.pos > 0 or bool(m.events)


def run_ctrl(ctx, case):
  _, mode, init, aux, steps = case
  cs = ControlStream(init)
  period = None
  if mode in ("iter", "iterobj"):
    src, f = cs, (lambda v, a: v)
  elif mode in ("add_stream", "both"):
    src = cs + (Stream(*aux) if len(aux) > 1 else Stream(aux[0]))
    f, period = (lambda v, a: v + a), aux
  elif mode == "radd_stream":
    src = (Stream(*aux) if len(aux) > 1 else Stream(aux[0])) + cs
    f, period = (lambda v, a: a + v), aux
  elif mode == "add_finite":
    src, f = cs + Stream(list(aux)), (lambda v, a: v + a)
  elif mode == "mul":
    src, f = cs * aux, (lambda v, a: v * aux)
  elif mode == "rsub":
    src, f = aux - cs, (lambda v, a: aux - v)
  else:
    src, f = -cs, (lambda v, a: -v)
  it = iter(src)
  direct = iter(cs) if mode == "both" else None
  current = init
  pending = []
  k = 0
  nread = 0
  for step in steps:
    if step[0] == "set":
      cs.value = step[1]
      current = step[1]
      ctx.count("control:assignments")
      if nread == 0:
        ctx.count("control:assigned-before-first-read")
      continue
    if step[0] in ("peek", "take", "copy"):
      # reads through the Stream methods of the ControlStream.  peek and copy
      # are tee copies (C03): a sample they have produced is the same sample
      # for the ControlStream itself later on.  So sample i carries the value
      # most recently assigned when it was *produced* - by whoever read it
      # first; `pending` holds the samples produced but not yet taken.
      n = step[1]
      k_items = 1 if n is None else n
      while len(pending) < k_items:
        pending.append(current)
      if step[0] == "copy":
        cs.copy().take(n)          # a copy that reads ahead
        ctx.count("control:copy-read-ahead")
        continue
      got = cs.peek(n) if step[0] == "peek" else cs.take(n)
      want = pending[0] if n is None else pending[:n]
      if step[0] == "take":
        del pending[:k_items]
      ctx.count("control:method-" + step[0])
      if any(v is not current and v != current for v in
             ([want] if n is None else want)):
        ctx.count("control:sample-produced-before-the-last-assignment")
      same = (got is want) or (type(got) is type(want) and got == want)
      if n is not None and same:
        same = all((g is w) or type(g) is type(w) for g, w in zip(got, want))
      if not same:
        ctx.violation("control/%s-differs-from-the-produced-samples" % step[0],
                      case, mode=mode, got=got, want=want,
                      last_assigned=current)
        return True
      continue
    n = step[1]
    if direct is not None and nread % 2:
      got = list(itertools.islice(direct, n))
      want = [current] * n
    else:
      got = list(itertools.islice(it, n))
      if mode == "add_finite":
        want = [f(current, a) for a in aux[k:k + n]]
      elif period is not None:
        want = [f(current, period[(k + q) % len(period)]) for q in range(n)]
      else:
        want = [f(current, None) for _ in range(n)]
      k += len(got)
    nread += 1
    ok = len(got) == len(want) and all(
      (g is w) or (type(g) is type(w) and g == w) for g, w in zip(got, want))
    if not ok:
      key = "control/ended" if len(got) < len(want) else \
            "control/read-not-last-assigned"
      ctx.violation(key, case, mode=mode, got=got, want=want,
                    last_assigned=current, read_number=nread)
      return True
    ctx.count("control:samples", len(got))
  ctx.count("control:histories")
  ctx.count("control:mode-" + ("direct" if mode in ("iter", "iterobj")
                               else "expression"))
  return True


def run_case(ctx, case):
  kind = case[0]
  if kind == "mix":
    _, keep, zero, ctor, steps = case
    return run_mixer(ctx, case, "mix", keep, zero, ctor, steps)
  if kind == "drift":
    steps, _ = drift_steps(case)
    return run_mixer(ctx, case, "drift", case[1], case[2], "kw", steps,
                     check_margin=True)
  if kind == "ctrl":
    return run_ctrl(ctx, case)
  raise ValueError(kind)


def finish(ctx):
  q = ctx.quick
  ctx.need("mix:histories", 10000)
  ctx.need("mix:keep", 2000)
  ctx.need("mix:nokeep", 2000)
  ctx.need("mix:samples", 100000)
  ctx.need("mix:no-events", 200)
  ctx.need("mix:empty-event", 2000)
  ctx.need("mix:empty-event-ends-after-gap", 100)
  ctx.need("mix:late-event", 2000)
  ctx.need("mix:fractional-time", 2000)
  ctx.need("mix:gap-before-pending-event", 2000)
  ctx.need("mix:overlap", 2000)
  ctx.need("mix:add-during-playback", 2000)
  ctx.need("mix:add-exactly-at-current-end", 200)
  ctx.need("mix:end-observed", 2000)
  ctx.need("mix:keep-tail-observed", 2000)
  ctx.need("mix:nonzero-zero-value", 2000)
  ctx.need("mix:zero-int", 1000)
  ctx.need("mix:zero-float", 1000)
  ctx.need("mix:zero-Fraction", 1000)
  ctx.need("tie:histories", 2000)
  ctx.need("negative_delta_rejected", 1000)
  ctx.need("drift:histories", 40)
  ctx.need("drift:samples", 40 * (1000 if q else 10000))
  ctx.need("drift:add-during-playback", 200)
  ctx.need("drift:late-event", 20)
  ctx.need("drift:end-observed", 10)
  ctx.need("drift:keep-tail-observed", 10)
  ctx.need("control:histories", 2000)
  ctx.need("control:assignments", 5000)
  ctx.need("control:assigned-before-first-read", 500)
  ctx.need("control:mode-direct", 500)
  ctx.need("control:mode-expression", 500)
  ctx.need("control:method-peek", 300)
  ctx.need("control:method-take", 300)
  ctx.need("control:copy-read-ahead", 100)
  ctx.need("control:sample-produced-before-the-last-assignment", 50)


# extension family (bug hunt), see props/c16_x.py
from props import c16_x as _x, ext as _ext  # noqa: E402
_ext.install(globals(), _x)
