#!/usr/bin/env python3
"""Kill matrix: apply one property-breaking (or benign) source edit at a time to
a scratch copy of the repository and run the relevant quick check on it.

usage: selftest/run.py [PROP ...] [--only NAME] [--jobs N] [--tier quick]

Each mutant in selftest/mutants.py is (props, name, file, old, new, expect)
with expect "caught" (exit 1 + VIOLATION line) or "silent" (benign refactor:
exit 0).  The scratch copy lives under a mkdtemp directory that is removed.
Base tree: $VERIF_REPO or /repo (working tree).
"""
import argparse
import concurrent.futures
import json
import os
import shutil
import subprocess
import sys
import tempfile

HERE = os.path.dirname(os.path.dirname(os.path.abspath(__file__)))
sys.path.insert(0, os.path.join(HERE, "selftest"))


def run_one(m, base, tier, seed):
  props, name, fname, old, new, expect = m
  tmp = tempfile.mkdtemp(prefix="verif-mut-")
  try:
    shutil.copytree(os.path.join(base, "audiolazy"),
                    os.path.join(tmp, "audiolazy"),
                    ignore=shutil.ignore_patterns("__pycache__"))
    path = os.path.join(tmp, "audiolazy", fname)
    src = open(path).read()
    if src.count(old) != 1:
      return [(p, name, "PATCH-DOES-NOT-APPLY(%d)" % src.count(old), expect, "")
              for p in props]
    open(path, "w").write(src.replace(old, new))
    out = []
    for p in props:
      env = dict(os.environ, VERIF_REPO=tmp, VERIF_SEED=str(seed))
      r = subprocess.run([os.path.join(HERE, "check"), p, "--tier", tier,
                          "--no-evidence"], env=env, capture_output=True,
                         text=True, timeout=3600)
      vio = [l for l in r.stdout.splitlines() if l.startswith("VIOLATION")]
      keys = [l.strip() for l in r.stdout.splitlines()
              if l.strip().startswith("key=")]
      if r.returncode == 1 and vio:
        res = "caught"
      elif r.returncode == 0:
        res = "silent"
      else:
        res = "rc=%d" % r.returncode
      out.append((p, name, res, expect, "; ".join(keys)[:300]))
    return out
  finally:
    shutil.rmtree(tmp, ignore_errors=True)


def main():
  ap = argparse.ArgumentParser()
  ap.add_argument("props", nargs="*")
  ap.add_argument("--only")
  ap.add_argument("--jobs", type=int, default=4)
  ap.add_argument("--tier", default="quick")
  ap.add_argument("--seed", type=int, default=0)
  ap.add_argument("--json")
  args = ap.parse_args()
  from mutants import MUTANTS
  base = os.path.realpath(os.environ.get("VERIF_REPO") or "/repo")
  sel = []
  for m in MUTANTS:
    props = [p for p in m[0] if not args.props or p in args.props]
    if not props or (args.only and args.only != m[1]):
      continue
    sel.append((props,) + tuple(m[1:]))
  rows = []
  with concurrent.futures.ThreadPoolExecutor(args.jobs) as ex:
    for res in ex.map(lambda m: run_one(m, base, args.tier, args.seed), sel):
      for row in res:
        rows.append(row)
        ok = row[2] == row[3]
        print("%-4s %-44s %-8s expect=%-7s %s  %s" % (
          row[0], row[1], row[2], row[3], "ok" if ok else "** MISMATCH **",
          row[4]), flush=True)
  bad = [r for r in rows if r[2] != r[3]]
  print("%d mutants x checks, %d mismatches" % (len(rows), len(bad)))
  if args.json:
    with open(args.json, "w") as f:
      json.dump(rows, f, indent=1)
  return 1 if bad else 0


if __name__ == "__main__":
  sys.exit(main())
