"""C05 - filter algebra is system algebra.

Triples of rational filters with exact coefficients are combined with the real
operators; each composite is compared (a) as a rational function with an
independent model (cross-multiplication in Fractions) and (b) at output level,
on exact symbolic samples with zero initial conditions, with the model's
recursion and with the same combination of the parts' real outputs."""
import functools
import itertools
import operator
from fractions import Fraction

from audiolazy import (ZFilter, LinearFilter, CascadeFilter, ParallelFilter, z,
                       Stream)

from vlib.inst import Lin, frac, lin_close
from props.filt_common import RF, fracdict, recursion, syms, pclean

ID = "C05"
COEFFS = [0, 1, -1, 2, -2, 3, -3, 1, -1, 4, 5]
# Dyadic on purpose: Fraction coefficients reach the generated filter source
# through str(), where "3/2" is evaluated as the float 1.5 - exact for dyadic
# values (Lin treats floats as the rationals they are), so these cases stay in
# the exactly-compared class.
FRACS = [Fraction(1, 2), Fraction(3, 2), Fraction(-1, 4), Fraction(3, 4),
         Fraction(-5, 2), Fraction(3, 1), Fraction(-1, 2)]


def rfilt(rng, share_den=None, frac=False):
  nb = rng.randint(0, 3)
  b = [rng.choice(COEFFS) for _ in range(nb + 1)]
  if all(v == 0 for v in b):
    b[rng.randrange(len(b))] = rng.choice([1, -1, 2])
  if share_den is not None:
    if frac and rng.random() < 0.5:
      b = [v * rng.choice(FRACS) if v and rng.random() < 0.6 else v for v in b]
    return (b, list(share_den))
  if rng.random() < 0.35:
    a = [rng.choice([1, -1, 2, 1])]
  else:
    a = [rng.choice([1, -1, 2, -2, 1])] + [rng.choice(COEFFS)
                                           for _ in range(rng.randint(1, 3))]
  if rng.random() < 0.15:
    b = [0] * rng.randint(1, 2) + b      # a pure delay in front
  if frac and rng.random() < 0.5:
    # exact rational (non-integer) coefficients, incl. the leading denominator
    # coefficient (the gain every output is divided by)
    b = [v * rng.choice(FRACS) if v and rng.random() < 0.6 else v for v in b]
    a = [v * rng.choice(FRACS) if v and rng.random() < 0.6 else v for v in a]
    if rng.random() < 0.6:
      a[0] = rng.choice([Fraction(3, 2), Fraction(-1, 2), Fraction(1, 4),
                         Fraction(5, 4), Fraction(-3, 4), Fraction(1, 2)])
  return (b, a)


def rscalar(rng):
  return rng.choice([1, -1, 2, -3, 4, Fraction(1, 2), Fraction(-3, 4),
                     Fraction(5, 2), Fraction(1, 3), Fraction(-2, 5), 0.5, 8])


def cases(ctx):
  rng = ctx.rng
  for _ in ctx.loop(24, 480):
    yield ("threads", rng.getrandbits(32), ctx.pick(4, 6), ctx.pick(12, 30))
  for _ in ctx.loop(1500, 80000):
    # equality pairs
    form = rng.choice(["lists", "expr", "dicts", "float", "linear"])
    fr = form != "float" and rng.random() < 0.4
    f = rfilt(rng, frac=fr)
    r = rng.random()
    if r < 0.25:
      g, how = f, "same"
    elif r < 0.5:
      b = list(f[0])
      b[rng.randrange(len(b))] += rng.choice([1, -1, 2])
      g, how = (b, f[1]), "num-only"
    elif r < 0.75:
      a = list(f[1])
      if len(a) > 1 and rng.random() < 0.7:
        a[rng.randrange(1, len(a))] += rng.choice([1, -1, 2])
      else:
        a = a + [rng.choice([1, -1, 3])]
      g, how = (f[0], a), "den-only"
    else:
      g, how = rfilt(rng, frac=fr), "other"
    yield ("eq", f, g, how, form)
  for _ in ctx.loop(400, 20000):
    # linearize: dyadic fractional delays
    terms = [(rng.randint(0, 5) + rng.choice([0, 0.5, 0.25, 0.75, 0.125]),
              rng.choice([1, -1, 2, 4, -3]))
             for _ in range(rng.randint(1, 4))]
    yield ("linearize", terms)
  for _ in ctx.loop(1000, 160000):
    fr = rng.random() < 0.4
    f = rfilt(rng, frac=fr)
    g = rfilt(rng, share_den=f[1] if rng.random() < 0.3 else None, frac=fr)
    h = rfilt(rng, share_den=g[1] if rng.random() < 0.2 else None, frac=fr)
    c = rscalar(rng)
    while fr and isinstance(c, float):    # float x Fraction is a rounded float
      c = rscalar(rng)
    yield ("alg", f, g, h, c, rng.randint(0, 4), rng.randint(1, 7),
           rng.randint(1, 5))


def mk(spec, form="lists"):
  b, a = spec
  if form == "lists":
    return ZFilter(list(b), list(a))
  if form == "dicts":
    return ZFilter({k: v for k, v in enumerate(b)},
                   {k: v for k, v in enumerate(a)})
  if form == "float":
    return ZFilter([float(v) for v in b], [float(v) for v in a])
  if form == "linear":
    return LinearFilter(list(b), list(a))
  num = sum((c * z ** -k for k, c in enumerate(b) if c != 0), ZFilter([0]))
  den = sum((c * z ** -k for k, c in enumerate(a) if c != 0), ZFilter([0]))
  return num / den


def model(spec):
  b, a = spec
  return RF(fracdict(dict(enumerate(b))), fracdict(dict(enumerate(a))))


def rf_of(filt):
  """Rational function read back from a real filter's public polynomials."""
  return RF(fracdict(dict(filt.numpoly.terms())),
            fracdict(dict(filt.denpoly.terms())))


def coeffs_exact(filt):
  for v in list(dict(filt.numpoly.terms()).values()) + \
           list(dict(filt.denpoly.terms()).values()):
    if isinstance(v, Fraction) and (v.denominator & (v.denominator - 1)):
      return False
    if isinstance(v, float) and Fraction(v).denominator > 4096:
      return False
  return True


def run_filter(filt, x):
  """-> ("out", list) | ("exc", name)"""
  try:
    res = filt(list(x), zero=0)
    return ("out", list(itertools.islice(iter(res), len(x) + 3)))
  except ValueError:
    return ("exc", "ValueError")


FRACTIONAL_CASE = [False]


def growth(filt, n):
  """How much the recursion of the REAL (unreduced) denominator amplifies a
  rounding error within n samples: sum |h[k]|, h = impulse response of 1/den,
  in exact arithmetic.  Only used to scale the tolerance of the comparisons
  that go through float coefficients (non-dyadic Fractions are written into
  the generated source as "p/q" and evaluated in floats there)."""
  try:
    den = fracdict(dict(filt.denpoly.terms()))
  except Exception:  # noqa
    return 1.0
  if not den:
    return 1.0
  p = min(den)
  den = {k - p: v for k, v in den.items()}
  a0 = den[0]
  h = []
  for i in range(n):
    acc = Fraction(1 if i == 0 else 0)
    for k, a in den.items():
      if k and i - k >= 0:
        acc -= a * h[i - k]
    h.append(acc / a0)
  return float(max(1, sum(abs(v) for v in h)))


def compare_out(ctx, case, what, got, want, exact=True, amp=1.0):
  tol = 1e-12 * amp
  if len(got) != len(want):
    ctx.violation(what + "/wrong-length", case, got=len(got), want=len(want))
    return False
  for i, (g, w) in enumerate(zip(got, want)):
    gl, wl = Lin.lift(g), Lin.lift(w)
    if exact:
      ok = gl == wl
    else:
      ok, worst = lin_close(gl, wl, tol)
      ctx.err("inexact-coefficient-forms", worst, tol)
    if not ok:
      ctx.violation(what + "/wrong-output", case, index=i, got=repr(gl),
                    want=repr(wl))
      return False
  ctx.count("output-laws-compared")
  return True


def check_composite(ctx, case, what, real, mdl, x, parts_out=None):
  """real: ZFilter built by the library; mdl: RF from the model."""
  try:
    r = rf_of(real)
  except Exception as exc:  # noqa
    ctx.violation(what + "/polys-unreadable", case, exc=repr(exc))
    return False
  ctx.count("rational-function-compared")
  if not r.same(mdl):
    ctx.violation(what + "/wrong-rational-function", case, got=repr(r),
                  want=repr(mdl))
    return False
  out = run_filter(real, x)
  if not mdl.causal():
    ctx.count("noncausal-composite")
    if out != ("exc", "ValueError"):
      ctx.violation(what + "/noncausal-composite-ran", case, got=repr(out)[:300])
      return False
    return True
  if out[0] != "out":
    ctx.violation(what + "/causal-composite-refused", case, got=out)
    return False
  num, den = mdl.normalised()
  want = recursion(num, den, x, None, 0)
  exact = coeffs_exact(real)
  amp = 1.0 if exact else growth(real, len(x))
  if not compare_out(ctx, case, what, out[1], want, exact, amp):
    return False
  if parts_out is not None:
    if not compare_out(ctx, case, what + "/vs-parts", out[1], parts_out, exact,
                       amp):
      return False
  return True


def run_threads(ctx, case):
  """Output-level laws evaluated from several threads at once (real
  pre-emption): each thread builds its own filters, so nothing is shared by
  the caller."""
  import random
  import sys
  import threading
  _, seed, nthreads, rounds = case
  FRACTIONAL_CASE[0] = False
  problems = []
  old = sys.getswitchinterval()
  sys.setswitchinterval(1e-6)

  def worker(tid):
    rng = random.Random("%s:%s" % (seed, tid))
    x = [rng.randint(-4, 4) for _ in range(6)]
    for j in range(rounds):
      fs, gs = rfilt(rng), rfilt(rng)
      c = rng.choice([2, -3, 4, 5])
      kk = rng.randint(1, 3)
      for what, build, mdl in (
          ("add", lambda: mk(fs) + mk(gs), model(fs) + model(gs)),
          ("scalar-mul", lambda: c * mk(fs), RF.const(c) * model(fs)),
          ("mul", lambda: mk(fs) * mk(gs), model(fs) * model(gs)),
          ("delay", lambda: z ** -kk * mk(fs),
           RF({kk: Fraction(1)}) * model(fs))):
        if not mdl.causal():
          continue
        try:
          out = run_filter(build(), x)
        except Exception as exc:  # noqa
          problems.append((tid, j, what, repr(exc)))
          return
        num, den = mdl.normalised()
        want = recursion(num, den, x, None, 0)
        if out[0] != "out" or len(out[1]) != len(want) or any(
            Lin.lift(g) != w for g, w in zip(out[1], want)):
          problems.append((tid, j, what, fs, gs, repr(out)[:200]))
          return
  threads = [threading.Thread(target=worker, args=(t,)) for t in
             range(nthreads)]
  try:
    for t in threads:
      t.start()
    for t in threads:
      t.join(180)
  finally:
    sys.setswitchinterval(old)
  ctx.count("concurrent-law-evaluations", nthreads * rounds * 4)
  if any(t.is_alive() for t in threads):
    ctx.count("harness_errors")
    return True
  if problems:
    ctx.violation("concurrent-evaluation/wrong-output", case,
                  problems=problems[:3])
  return True


def run_case(ctx, case):
  kind = case[0]
  if kind == "threads":
    return run_threads(ctx, case)
  if kind == "alg":
    return run_alg(ctx, case)
  if kind == "eq":
    return run_eq(ctx, case)
  if kind == "linearize":
    _, terms = case
    filt = ZFilter({k: v for k, v in terms}) if len({k for k, _ in terms}) == \
           len(terms) else None
    if filt is None:
      return False
    # the same (fractional-delay) filter with its terms created in the
    # opposite order: equal, hence equal hashes
    twin = ZFilter({k: v for k, v in reversed(terms)})
    if len(terms) > 1:
      ctx.count("hash:fractional-terms-in-another-order")
      if not (filt == twin) or filt != twin:
        ctx.violation("eq/same-coefficients-compare-unequal", case,
                      form="terms created in the opposite order")
        return True
      if hash(filt) != hash(twin):
        ctx.violation("hash/equal-fractional-delay-filters-hash-differently",
                      case)
        return True
    lin = filt.linearize()
    want = {}
    for k, v in terms:
      lo = int(k)
      w = Fraction(k) - lo
      want[lo] = want.get(lo, 0) + Fraction(v) * (1 - w)
      if w:
        want[lo + 1] = want.get(lo + 1, 0) + Fraction(v) * w
    got = fracdict(dict(lin.numpoly.terms()))
    ctx.count("linearize-compared")
    if got != pclean(want) or fracdict(dict(lin.denpoly.terms())) != {0: 1}:
      ctx.violation("linearize/wrong-terms", case, got=repr(got),
                    want=repr(pclean(want)))
    return True
  raise ValueError(kind)


def run_eq(ctx, case):
  _, fs, gs, how, form = case
  f = mk(fs)
  g = mk(gs, form)
  mf, mg = model(fs), model(gs)
  eq = f == g
  ne = f != g
  ctx.count("eq-pair:" + how)
  if not isinstance(eq, bool) or not isinstance(ne, bool):
    ctx.violation("eq-ne/not-bool", case, eq=repr(eq), ne=repr(ne))
    return True
  struct_same = (fracdict(dict(enumerate(fs[0]))) ==
                 fracdict(dict(enumerate(gs[0]))) and
                 fracdict(dict(enumerate(fs[1]))) ==
                 fracdict(dict(enumerate(gs[1]))))
  if eq == ne:
    one_differs = (fracdict(dict(enumerate(fs[0]))) ==
                   fracdict(dict(enumerate(gs[0])))) != \
                  (fracdict(dict(enumerate(fs[1]))) ==
                   fracdict(dict(enumerate(gs[1]))))
    key = "eq-ne/neither-holds-when-only-one-polynomial-differs" \
          if (not eq and one_differs) else "eq-ne/inconsistent"
    ctx.violation(key, case, eq=eq, ne=ne)
    return True
  if struct_same and not eq:
    ctx.violation("eq/same-coefficients-compare-unequal", case, form=form)
    return True
  if eq and not mf.same(mg):
    ctx.violation("eq/different-systems-compare-equal", case)
    return True
  if eq:
    ctx.count("equal-pairs-hash-compared")
    if hash(f) != hash(g):
      ctx.violation("hash/equal-filters-hash-differently", case)
  return True


def run_substitution(ctx, case, f, fs, mf, g, mg, sub_kind):
  """f(g) as a rational function against the model's mf(mg(z)) at rational
  points.  -> False after a violation."""
  if not mg.num:
    return True
  ginv = RF.const(1) / mg
  sub_den = RF({})
  for kk, a in enumerate(fs[1]):
    sub_den = sub_den + RF.const(a) * ginv ** kk
  sub_real = f(g) if sub_den.num else None   # else: division by zero
  if sub_real is not None:
    rs = rf_of(sub_real)
    done = 0
    for z0 in [Fraction(2), Fraction(-3, 2), Fraction(5, 3), Fraction(1, 4),
               Fraction(-7, 5)]:
      g0 = mg.value(1 / z0)
      if g0 is None or g0 == 0:
        continue
      wantv = mf.value(1 / g0)
      gotv = rs.value(1 / z0)
      if wantv is None or gotv is None:
        continue
      done += 1
      # g ** -k goes through int ** negative -> float: toleranced comparison
      tol = 1e-9 * max(1, abs(wantv))
      ctx.err("substitution", float(abs(gotv - wantv)), float(tol))
      if abs(gotv - wantv) > tol:
        ctx.violation("substitution/wrong-value", case, z0=str(z0),
                      got=str(gotv), want=str(wantv), g=sub_kind)
        return False
    if done:
      ctx.count("substitution-points-compared", done)
      ctx.count("substitution:" + sub_kind)
  return True


def run_alg(ctx, case):
  _, fs, gs, hs, c, n, xlen, k = case
  f, g, h = mk(fs), mk(gs), mk(hs)
  mf, mg, mh = model(fs), model(gs), model(hs)
  mc = RF.const(c)
  x = syms("x", xlen)
  FRACTIONAL_CASE[0] = any(isinstance(v, Fraction) for spec in (fs, gs, hs)
                           for part in spec for v in part)
  if FRACTIONAL_CASE[0]:
    ctx.count("fraction-coefficient-case")
    if any(isinstance(s_[1][0], Fraction) and s_[1][0].denominator != 1
           for s_ in (fs, gs, hs)):
      ctx.count("fraction-leading-denominator-coefficient")
  shared = fs[1] == gs[1]
  if shared:
    ctx.count("shared-denominator-pair")

  def outs(filt):
    r = run_filter(filt, x)
    return r[1] if r[0] == "out" else None
  fo, go = outs(f), outs(g)
  add = lambda a, b: [Lin.lift(p) + Lin.lift(q) for p, q in zip(a, b)]
  sub = lambda a, b: [Lin.lift(p) - Lin.lift(q) for p, q in zip(a, b)]

  ok = True
  ok = ok and check_composite(ctx, case, "add", f + g, mf + mg, x, add(fo, go))
  ok = ok and check_composite(ctx, case, "sub", f - g, mf - mg, x,
                              sub(fo, go))
  ok = ok and check_composite(ctx, case, "add-commuted", g + f,
                              mf + mg, x)
  cf = [Lin.lift(v) * frac(c) for v in fo]
  ok = ok and check_composite(ctx, case, "scalar-mul", c * f, mc * mf, x, cf)
  ok = ok and check_composite(ctx, case, "scalar-rmul", f * c, mc * mf, x, cf)
  ok = ok and check_composite(ctx, case, "scalar-add", f + c, mf + mc, x)
  ok = ok and check_composite(ctx, case, "scalar-rsub", c - f, mc - mf, x)
  inv_exact = isinstance(c, Fraction) or (not FRACTIONAL_CASE[0] and
                                          abs(c) in (1, 2, 4, 8, 0.5))
  if inv_exact:   # f / 3 multiplies by the float 1/3: rounding, not algebra
    ok = ok and check_composite(ctx, case, "scalar-div", f / c, mf / mc, x)
  ok = ok and check_composite(ctx, case, "neg", -f, -mf, x,
                              [-Lin.lift(v) for v in fo])
  if not ok:
    return True
  # equal filters whose terms were created in a different order hash equally
  for name, a_, b_ in (("add", f + g, g + f), ("add3", (f + g) + h,
                                               h + (g + f))):
    if a_ == b_:
      ctx.count("equal-pairs-hash-compared")
      ctx.count("hash:terms-created-in-another-order")
      if hash(a_) != hash(b_):
        ctx.violation("hash/equal-filters-hash-differently", case,
                      built="%s in both operand orders" % name)
        return True
  # product = composition in either order
  fg = run_filter(f, outs(g))[1]
  gf = run_filter(g, outs(f))[1]
  ok = ok and check_composite(ctx, case, "mul", f * g, mf * mg, x, fg)
  ok = ok and check_composite(ctx, case, "mul-commuted", g * f,
                              mf * mg, x, gf)
  # division, and (f/g)*g = f
  ok = ok and check_composite(ctx, case, "div", f / g, mf / mg, x)
  ok = ok and check_composite(ctx, case, "div-then-mul",
                              (f / g) * g, mf, x, fo)
  ok = ok and check_composite(ctx, case, "scalar-rdiv", c / g, mc / mg, x)
  ok = ok and check_composite(ctx, case, "self-division", g / g,
                              RF.const(1), x, list(x))
  if not ok:
    return True
  # powers
  cur = list(x)
  for _ in range(n):
    cur = run_filter(f, cur)[1]
  ok = ok and check_composite(ctx, case, "pow", f ** n, mf ** n, x, cur)
  ctx.count("pow:%d" % n)
  if n and (len(f.numpoly) >= 2 or len(f.denpoly) >= 2):
    # negative exponents: the n-th power of the inverse system (one-term
    # filters go through int ** negative, a rounded float: not compared)
    ok = ok and check_composite(ctx, case, "pow-negative", f ** -n,
                                (RF.const(1) / mf) ** n, x)
    ctx.count("pow-negative")
  # pure delays
  delayed = ([0] * k + list(x))[:xlen]
  ok = ok and check_composite(ctx, case, "delay", z ** -k,
                              RF({k: Fraction(1)}), x, delayed)
  ok = ok and check_composite(ctx, case, "delay-times-f", z ** -k * f,
                              RF({k: Fraction(1)}) * mf, x)
  if not ok:
    return True
  # associativity / distributivity through the real operators
  ok = ok and check_composite(ctx, case, "assoc-add", (f + g) + h,
                              mf + (mg + mh), x)
  ok = ok and check_composite(ctx, case, "assoc-mul", f * (g * h),
                              (mf * mg) * mh, x)
  ok = ok and check_composite(ctx, case, "distributive",
                              f * (g + h), mf * mg + mf * mh, x)
  if (mh + RF.const(k)).num:      # division by the zero filter is not generated
    tree = (f - c * g) / (h + k) * z ** -1
    ok = ok and check_composite(ctx, case, "tree", tree,
                                (mf - mc * mg) / (mh + RF.const(k)) *
                                RF({1: Fraction(1)}), x)
  if not ok:
    return True
  # cascade / parallel containers; the "-mutated" entries change a container
  # IN PLACE (it is a list) after its polynomials and output were used once:
  # it must then be the cascade / bank of its current parts
  mods = {"c": CascadeFilter, "p": ParallelFilter}
  live = {}
  spec_of = {"f": (fs, mf), "g": (gs, mg), "h": (hs, mh)}
  mutation = ["append", "setitem", "delitem", "insert", "iadd", "pop",
              "extend"][(n + xlen + k) % 7]
  after = {"append": "fgh", "setitem": "hg", "delitem": "g", "insert": "hfg",
           "iadd": "fgh", "pop": "f", "extend": "fghf"}[mutation]
  plan = [
      ("cascade2", [fs, gs], mf * mg, "c"), ("parallel2", [fs, gs], mf + mg, "p"),
      ("cascade3", [fs, gs, hs], mf * mg * mh, "c"),
      ("parallel3", [fs, gs, hs], mf + mg + mh, "p"),
      ("cascade1", [hs], mh, "c"), ("parallel1", [hs], mh, "p")]
  for pm, op in (("c", operator.mul), ("p", operator.add)):
    plan.append(("%s-mutated-%s" % ("cascade" if pm == "c" else "parallel",
                                    mutation),
                 [spec_of[ch][0] for ch in after],
                 functools.reduce(op, [spec_of[ch][1] for ch in after]), pm))
  for what, parts, mdl, pm in plan:
    cls = mods[pm]
    if "-mutated-" in what:
      cont = live[pm]          # the 2-part container used above
      if mutation == "append":
        cont.append(mk(hs))
      elif mutation == "setitem":
        cont[0] = mk(hs)
      elif mutation == "delitem":
        del cont[0]
      elif mutation == "insert":
        cont.insert(0, mk(hs))
      elif mutation == "iadd":
        cont += [mk(hs)]
      elif mutation == "pop":
        cont.pop()
      else:
        cont.extend([mk(hs), mk(fs)])
      if type(cont) is not cls:
        ctx.violation(what + "/container-type-changed", case,
                      got=type(cont).__name__)
        return True
    else:
      cont = cls(*[mk(p) for p in parts])
      if what in ("cascade2", "parallel2"):
        live[pm] = cont
    res = cont(list(x), zero=0)
    if not isinstance(res, Stream):
      ctx.violation(what + "/result-not-a-Stream", case)
      return True
    got = list(itertools.islice(iter(res), xlen + 3))
    num, den = mdl.normalised()
    want = recursion(num, den, x, None, 0)
    if not compare_out(ctx, case, what, got, want,
                       all(coeffs_exact(mk(p)) for p in parts),
                       growth(cont, xlen)):
      return True
    ctx.count("container:" + what)
    try:
      r = RF(fracdict(dict(cont.numpoly.terms())),
             fracdict(dict(cont.denpoly.terms())))
    except Exception as exc:  # noqa
      ctx.violation(what + "/polys-unreadable", case, exc=repr(exc))
      return True
    if not r.same(mdl):
      key = what + "/wrong-rational-function"
      if pm == "p":
        # mechanism: numerator taken from the sum of the parts (which keeps a
        # shared denominator once) while the denominator is always the product
        tot = functools.reduce(operator.add, [mk(p) for p in parts])
        if RF(fracdict(dict(cont.numpoly.terms())),
              fracdict(dict(tot.denpoly.terms()))).same(mdl):
          key = "parallel/numpoly-of-sum-with-denpoly-of-product"
      ctx.violation(key, case, got=repr(r), want=repr(mdl))
      return True
  # the parts of a container may be any linear filter: LinearFilter objects
  # and nested containers (is_linear / is_lti look into them)
  other = [
    ("parallel2-linearfilter-parts",
     lambda: ParallelFilter(mk(fs, "linear"), mk(gs, "linear")), mf + mg),
    ("cascade2-linearfilter-parts",
     lambda: CascadeFilter(mk(fs, "linear"), mk(gs, "linear")), mf * mg),
    ("parallel-linearfilter-and-zfilter",
     lambda: ParallelFilter(mk(fs, "linear"), mk(gs)), mf + mg),
    ("parallel-of-cascade",
     lambda: ParallelFilter(mk(fs), CascadeFilter(mk(gs), mk(hs))),
     mf + mg * mh),
    ("cascade-of-parallel",
     lambda: CascadeFilter(ParallelFilter(mk(fs), mk(gs)), mk(hs)),
     (mf + mg) * mh)]
  what, build, mdl = other[(n + k) % len(other)]
  try:
    cont = build()
    got = list(itertools.islice(iter(cont(list(x), zero=0)), xlen + 3))
    r = RF(fracdict(dict(cont.numpoly.terms())),
           fracdict(dict(cont.denpoly.terms())))
  except Exception as exc:  # noqa
    ctx.violation(what + "/polys-unreadable", case, exc=repr(exc))
    return True
  num, den = mdl.normalised()
  if not compare_out(ctx, case, what, got, recursion(num, den, x, None, 0),
                     all(coeffs_exact(mk(p_)) for p_ in (fs, gs, hs)),
                     growth(cont, xlen)):
    return True
  ctx.count("container:" + what)
  if not r.same(mdl):
    ctx.violation(what + "/wrong-rational-function", case, got=repr(r),
                  want=repr(mdl))
    return True
  # substitution f(g): evaluate at rational points; besides the random g, a g
  # of a special shape (scaled delay / advance, z / c, bilinear map, ...): an
  # implementation may treat monomials separately
  shapes = [([0, c], [1]), ([0, 0, c], [1]), ([c], [0, 1]), ([0, 1], [c]),
            ([1, -1], [1, 1]), ([c, 1], [1]), ([0, 0, 0, c], [1]),
            ([c], [0, 0, 1]), ([0, -1], [1]), ([2], [0, 1])]
  special = shapes[(n + k + xlen) % len(shapes)]
  subs = [("random", g, mg)]
  if c != 0:
    subs.append(("special", mk(special), model(special)))
  for sub_kind, g_, mg_ in subs:
    if not run_substitution(ctx, case, f, fs, mf, g_, mg_, sub_kind):
      return True
  # the operand objects were used by every expression above: they must be
  # exactly what they were (same polynomials, same behaviour)
  for name, obj, spec, mdl in (("f", f, fs, mf), ("g", g, gs, mg),
                               ("h", h, hs, mh)):
    fresh = mk(spec)
    same_polys = (dict(obj.numpoly.terms()) == dict(fresh.numpoly.terms()) and
                  dict(obj.denpoly.terms()) == dict(fresh.denpoly.terms()))
    ctx.count("operand-integrity-checked")
    if not same_polys or not (obj == fresh) or hash(obj) != hash(fresh):
      ctx.violation("operand-modified-by-an-expression", case, operand=name,
                    num=repr(dict(obj.numpoly.terms())),
                    den=repr(dict(obj.denpoly.terms())),
                    want_num=repr(dict(fresh.numpoly.terms())),
                    want_den=repr(dict(fresh.denpoly.terms())))
      return True
    if mdl.causal():
      out = run_filter(obj, x)
      num, den = mdl.normalised()
      if out[0] != "out" or not compare_out(
          ctx, case, "operand-after-reuse", out[1],
          recursion(num, den, x, None, 0), coeffs_exact(obj),
          growth(obj, len(x))):
        if out[0] != "out":
          ctx.violation("operand-after-reuse/refuses-to-run", case,
                        operand=name, got=out)
        return True
  return True


def finish(ctx):
  if not ctx.quick and ctx.shard == 0:
    # extra workload: the repository's own test-suite under passive monitors
    # (invariants at hooks on the real classes; vlib/passive.py)
    from vlib.passive_run import run_suite
    if run_suite(ctx, "filt"):
      ctx.need("passive:filt:eq_ne_checked", 20)
  ctx.need("operand-integrity-checked", 300)
  ctx.need("fraction-coefficient-case", 100)
  ctx.need("fraction-leading-denominator-coefficient", 50)
  ctx.need("concurrent-law-evaluations", 200)
  for k in ["rational-function-compared", "output-laws-compared",
            "noncausal-composite", "shared-denominator-pair",
            "substitution-points-compared", "equal-pairs-hash-compared",
            "linearize-compared"]:
    ctx.need(k, 50)
  ctx.need("pow-negative", 100)
  ctx.need("hash:fractional-terms-in-another-order", 100)
  ctx.need("hash:terms-created-in-another-order", 200)
  ctx.need("substitution:random", 50)
  ctx.need("substitution:special", 50)
  for how in ["same", "num-only", "den-only", "other"]:
    ctx.need("eq-pair:" + how, 50)
  for n in range(5):
    ctx.need("pow:%d" % n, 20)
  for c in ["cascade1", "cascade2", "cascade3", "parallel1", "parallel2",
            "parallel3"]:
    ctx.need("container:" + c, 50)
  for m in ["append", "setitem", "delitem", "insert", "iadd", "pop", "extend"]:
    ctx.need("container:cascade-mutated-" + m, 10)
    ctx.need("container:parallel-mutated-" + m, 10)
  for c in ["parallel2-linearfilter-parts", "cascade2-linearfilter-parts",
            "parallel-linearfilter-and-zfilter", "parallel-of-cascade",
            "cascade-of-parallel"]:
    ctx.need("container:" + c, 20)
