META = {
  "rule":
    "a case is (tool family, input form list/tuple/generator/Stream, samples, "
    "parameters) for one of maverage (deque, recursive, fir, default run on "
    "the same input), accumulate (accumulate, func, z, default), amdf, "
    "envelope (rms, abs, squared, default), clip, zcross, unwrap. Inputs have "
    "length 0..24: ints / dyadic floats k/2^j for averages, amdf and "
    "envelopes, ints / Fractions / dyadic floats for accumulate, Fractions "
    "and ints for clip, zcross, unwrap; sizes 1..8, lags 1..5, zero values "
    "incl. non-zero, cut-offs default / 0 / [0.005, pi], limits incl. None, "
    "hysteresis >= 0 incl. samples exactly at the threshold, first_sign of "
    "either sign and 0, step > 0, max_delta >= 0 incl. jumps exactly equal "
    "to max_delta and residues exactly step/2. Every tool is run on the "
    "empty and one-sample input in every form each run; small spaces of "
    "zcross / unwrap / clip are enumerated completely each run; the rest is "
    "random. A case is non-trivial when at least one output sample was "
    "compared; distinct = distinct case descriptions (hash of repr)",
  "assumptions": [
    "documented low-pass of the envelopes = lowpass.pole (the default "
    "strategy of lowpass): y[n] = (1-R) u[n] + R y[n-1], R = x - sqrt(x^2-1), "
    "x = 2 - cos(cutoff), evaluated independently with math.cos / math.sqrt "
    "and then in exact rationals; cut-offs below 0.005 rad/sample (other "
    "than 0) are not generated because R becomes ill-conditioned there",
    "'beyond the hysteresis threshold' and 'outside the band' are read "
    "strictly (a sample exactly at +-hysteresis is neither); 'no jump above "
    "max_delta' is read as |x[n]-x[n-1]| <= max_delta",
    "clip: besides idempotence and the bounds, samples already inside the "
    "limits must come out unchanged (by value); clip with low > high is only "
    "observed (counter clip:low>high:*), never judged - the statement is "
    "silent there",
    "amdf with a non-zero 'zero': the values of |x[n]-x[n-lag]| before time 0 "
    "may be either 'zero' (moving-average memory) or 0 (= |zero-zero|); a "
    "result is refuted only when it matches neither reading",
    "accumulate.z is called with zero in {default 0.0, 0, Fraction(0)} only "
    "(another value would be an offset, not part of a running sum); negative "
    "hysteresis, step <= 0, max_delta < 0, NaN/inf samples and the float "
    "defaults pi / 2 pi of unwrap are not generated",
    "values are compared by value (1 == 1.0 == Fraction(1)); result types "
    "are not part of the statement",
  ],
  "level_text":
    "Runtime monitoring of the real analysis tools: every output sample of "
    "every strategy is compared with a direct evaluation of its defining "
    "formula over exact rationals (== for Fractions, ints and the dyadic "
    "grid with power-of-two window sizes; explicit 1e-9 bound elsewhere, "
    "worst observed error recorded). zcross is compared with the sign "
    "automaton of the statement, unwrap and clip with exactly the three "
    "clauses the statement gives for each. Small input spaces of zcross, "
    "unwrap and clip are exhausted on every run, everything else is sampled "
    "(lengths <= 24) - testing-level assurance for the sampled part, no "
    "claim beyond the executions observed.",
  "technique": "runtime monitor: per-sample comparison with exact-rational "
               "formula oracles, exhaustive small spaces + random cases",
  "soft_s": {"quick": 20, "thorough": 200},
}

# EXTENSION families added after the seeded-change rounds
META["rule"] += (" Added after the seeded-change rounds: " '(c20_x) one tool object (maverage.X(size), amdf(lag,size), accumulate.z, envelope.abs) applied to two signals whose outputs are consumed interleaved' ".")
