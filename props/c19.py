"""C19 - signal generators produce their closed-form sequences and lengths.

Every generator of lazy_synth.py (line, fades, attack, adsr, ones/zeros,
impulse, noises, modulo_counter in all its argument-kind branches, TableLookup
oscillators, sinusoid, karplus_strong) and lazy_poly.resample is run for real,
its output collected with next()/islice only, and compared with an
independent closed form evaluated in exact rationals.

Comparison classes (DESIGN.md 3.3)
  E  modulo_counter with number start (Fractions / ints stay exact), resample
     with a Fraction step: ``==``
  D  modulo_counter with a start stream (the code starts from float 0.):
     dyadic floats, ``Fraction(got) == want``
  T  line/adsr/attack (float slope), tables, sinusoid, karplus_strong, and the
     few resample samples the code itself turns into floats: |err| <= 1e-9*scale

Inputs the statement is silent about are not generated: fades/adsr segments
with a length parameter 0 where the closed form itself divides by zero (a line
of a single sample - dur == finish == 1 - is just "begin"), negative durations, adsr whose a+d+r exceeds dur, empty
sustain stream for attack, modulo 0, resample steps <= 0 or non-dyadic float
steps (window ties would be decided by rounding), finite step streams for
resample, TableLookup.__getitem__ with negative indices, karplus_strong with a
delay below 2 samples or a memory shorter than the filter needs.
"""
import itertools
import math
import numbers
from fractions import Fraction

from audiolazy import (Stream, line, fadein, fadeout, attack, ones, zeros,
                       zeroes, adsr, white_noise, gauss_noise, TableLookup,
                       sin_table, saw_table, sinusoid, impulse,
                       karplus_strong, modulo_counter, resample)

from vlib.inst import frac, drain, take

ID = "C19"

inf = float("inf")
TOL = 1e-9
HALF = Fraction(1, 2)
# pi to 50 digits: the oracle's own constant (not the library's float)
PI = Fraction(314159265358979323846264338327950288419716939937510, 10 ** 50)
TWO_PI = 2 * PI
# TableLookup defines its rad/sample scale with the float constants 2 * pi:
# the table position is (phase + n*freq) * len / (cycles * 2 * float(pi)); the
# difference to the real pi is amplified by n*len, so it belongs to the
# definition, not to the error budget
TWO_PI_FLOAT = 2 * Fraction(math.pi)


# ---------------------------------------------------------------------------
# small helpers
# ---------------------------------------------------------------------------
def is_stream_spec(spec):
  return isinstance(spec, tuple)


def build(spec, how=2):
  """Library-side argument from a case spec: number, ("S", items) finite,
  ("C", period) endless periodic."""
  if not isinstance(spec, tuple):
    return spec
  tag, items = spec
  if tag == "C":
    return Stream(itertools.cycle(list(items)))
  if how == 0:
    return list(items)
  if how == 1:
    return iter(list(items))
  if how == 3:
    return tuple(items)
  if how == 4:
    return (v for v in list(items))
  return Stream(list(items))


def expand(spec, n, default=None):
  """Oracle-side list of the first n values of a spec (None: finite end
  reached earlier -> shorter list)."""
  if spec is None:
    spec = default
  if not isinstance(spec, tuple):
    return [spec] * n
  tag, items = spec
  if tag == "C":
    k = len(items)
    return [items[i % k] for i in range(n)]
  return list(items[:n])


def finite_len(*specs):
  """min length of the finite ("S") stream specs, or None when none."""
  lens = [len(s[1]) for s in specs if isinstance(s, tuple) and s[0] == "S"]
  return min(lens) if lens else None


def round_half_up(dur):
  return math.floor(frac(dur) + HALF)


def exact_eq(got, want):
  try:
    if isinstance(got, float) and not math.isfinite(got):
      return False
    return frac(got) == want
  except Exception:  # not a real number at all
    return False


def close(ctx, name, got, want, scale=1.0):
  """Toleranced comparison of a float with an exact rational."""
  try:
    if isinstance(got, float) and not math.isfinite(got):
      return False
    err = abs(frac(got) - want)
  except Exception:
    return False
  tol = TOL * scale
  ctx.err(name, float(err), tol)
  return err <= tol


def ex_name(exc):
  return type(exc).__name__


def compare_seq(ctx, case, name, got, exc, hit, want, endless, cmp):
  """Common judgement: no exception, the right length / end, every sample.
  cmp(i, g, w) -> bool.  Returns True when everything held."""
  if exc is not None:
    ctx.violation("%s/raises-%s" % (name, ex_name(exc)), case,
                  error=repr(exc), produced=len(got), want_len=len(want),
                  endless=endless)
    return False
  if endless:
    if len(got) != len(want):
      ctx.violation("%s/endless-output-ended" % name, case, got_len=len(got),
                    asked=len(want))
      return False
  else:
    if hit or len(got) != len(want):
      ctx.violation("%s/length" % name, case, got_len=len(got),
                    want_len=len(want), still_running=hit, got=got[:12],
                    want=want[:12])
      return False
  for i, (g, w) in enumerate(zip(got, want)):
    if not cmp(i, g, w):
      ctx.violation("%s/value" % name, case, index=i, got=g, want=w,
                    got_head=got[:8], want_head=want[:8])
      return False
  return True


# ---------------------------------------------------------------------------
# line / fades / ones / zeros / impulse / noise / adsr / attack
# ---------------------------------------------------------------------------
def seg(length, start, slope):
  return [start + i * slope for i in range(length)]


def run_line(ctx, case):
  _, dur, begin, end, finish, style = case
  if style == "pos":
    s = line(dur, begin, end, finish)
  elif style == "kw":
    s = line(dur=dur, begin=begin, end=end, finish=finish)
  elif style == "nofinish":
    s = line(dur, begin, end)
  else:  # "defaults": begin=0., end=1., finish=False in the case
    s = line(dur)
  n = round_half_up(dur)
  den = frac(dur) - (1 if finish else 0)
  # (the slope is multiplied by the sample index: it is not needed when there
  # is no sample, nor for the single sample "begin" of line(1, .., finish=True),
  # where the closed form reads begin + 0 * (end - begin) / 0)
  slope = (frac(end) - frac(begin)) / den if n and den else Fraction(0)
  want = seg(n, frac(begin), slope)
  if dur == 0:
    ctx.count("line:zero-duration")
  if den == 0 and n == 1:
    ctx.count("line:one-sample-with-finish")
  got, exc, hit = drain(s, n + 3)
  scale = 1 + abs(frac(begin)) + abs(frac(end))
  ctx.count("line:finish" if finish else "line:nofinish")
  if frac(dur) != int(frac(dur)):
    ctx.count("line:fractional_dur")
  if n == 0:
    ctx.count("line:empty")
  ok = compare_seq(
    ctx, case, "line", got, exc, hit, want, False,
    lambda i, g, w: close(ctx, "line", g, w,
                          float(scale * (1 + (abs(i / den) if den else 0)))))
  if ok:
    ctx.count("line:samples", n)
  return True


def run_fade(ctx, case):
  _, which, dur = case
  n = round_half_up(dur)
  d = frac(dur)
  if n == 0:
    ctx.count("fade:no-sample")
  if which == "in":
    s, want = fadein(dur), seg(n, Fraction(0), 1 / d if n else d)
  else:
    s, want = fadeout(dur), seg(n, Fraction(1), -1 / d if n else d)
  got, exc, hit = drain(s, n + 3)
  ctx.count("fade:" + which)
  compare_seq(ctx, case, "fade" + which, got, exc, hit, want, False,
              lambda i, g, w: close(ctx, "fade", g, w, 4.0))
  return True


ENDLESS_PREFIX = 70


def is_endless_dur(dur):
  return dur is None or dur == inf


def run_const(ctx, case):
  _, which, dur, style = case
  f = {"ones": ones, "zeros": zeros, "zeroes": zeroes}[which]
  val = 1 if which == "ones" else 0
  if style == "noarg":       # dur is None in the case
    s = f()
  elif style == "kw":
    s = f(dur=dur)
  else:
    s = f(dur)
  endless = is_endless_dur(dur)
  n = ENDLESS_PREFIX if endless else round_half_up(dur)
  got, exc, hit = drain(s, n if endless else n + 3)
  ctx.count("const:%s:%s" % ("ones" if val else "zeros",
                              "endless" if endless else "finite"))
  compare_seq(ctx, case, which, got, exc, hit, [Fraction(val)] * n, endless,
              lambda i, g, w: exact_eq(g, w))
  return True


def run_impulse(ctx, case):
  _, dur, one, zero, style = case
  if style == "noarg":
    s = impulse()
  elif style == "dur":       # one=1., zero=0. in the case
    s = impulse(dur)
  elif style == "kw":
    s = impulse(dur=dur, one=one, zero=zero)
  else:
    s = impulse(dur, one, zero)
  endless = is_endless_dur(dur)
  n = ENDLESS_PREFIX if endless else round_half_up(dur)
  want = ([frac(one)] + [frac(zero)] * (n - 1)) if n else []
  got, exc, hit = drain(s, n if endless else n + 3)
  ctx.count("impulse:" + ("endless" if endless else
                          "empty" if n == 0 else "finite"))
  compare_seq(ctx, case, "impulse", got, exc, hit, want, endless,
              lambda i, g, w: exact_eq(g, w))
  return True


def run_noise(ctx, case):
  _, which, dur, a, b, style = case
  f = white_noise if which == "white" else gauss_noise
  if style == "noarg":
    s = f()
  elif style == "dur":       # a, b are the defaults in the case
    s = f(dur)
  elif style == "kw":
    s = f(dur=dur, low=a, high=b) if which == "white" else \
        f(dur=dur, mu=a, sigma=b)
  else:
    s = f(dur, a, b)
  endless = is_endless_dur(dur)
  n = ENDLESS_PREFIX if endless else round_half_up(dur)
  got, exc, hit = drain(s, n if endless else n + 3)
  name = which + "_noise"
  ctx.count("noise:%s:%s" % (which, "endless" if endless else "finite"))
  if exc is not None:
    ctx.violation("%s/raises-%s" % (name, ex_name(exc)), case, error=repr(exc))
    return True
  if (endless and len(got) != n) or (not endless and (hit or len(got) != n)):
    ctx.violation("%s/length" % name, case, got_len=len(got), want_len=n,
                  endless=endless, still_running=hit)
    return True
  for i, v in enumerate(got):
    if not isinstance(v, numbers.Real) or v != v:
      ctx.violation("%s/not-a-number" % name, case, index=i, got=v)
      return True
    if which == "white" and not (a <= v <= b):
      ctx.violation("white_noise/out-of-range", case, index=i, got=v,
                    low=a, high=b)
      return True
  if which == "white":
    ctx.count("noise:white:range_checked", len(got))
    if b > a and len(got) >= 64:
      # "uniform ... within [low, high]": 64+ samples that all fall into the
      # same half of a non-degenerate interval have probability < 2 ** -62
      # under any uniform generator (a constant, `uniform(low, low)`, ... does)
      mid = (a + b) / 2.0
      lower = sum(1 for v in got if v < mid)
      ctx.count("noise:white:spread_checked")
      if lower == 0 or lower == len(got):
        ctx.violation("white_noise/not-spread-over-the-interval", case,
                      samples=len(got), in_lower_half=lower, low=a, high=b)
  elif len(got) >= 64 and b > 0:
    # gauss_noise(mu, sigma): the same argument about mu
    lower = sum(1 for v in got if v < a)
    ctx.count("noise:gauss:spread_checked")
    if lower == 0 or lower == len(got):
      ctx.violation("gauss_noise/not-spread-around-mu", case,
                    samples=len(got), below_mu=lower, mu=a, sigma=b)
  return True


def adsr_shape(a, d, s, r=None, ls=0):
  """Piecewise lines in the `line` convention (segment end not yielded):
  attack 0->1 over a, decay 1->s over d, [sustain, release s->0 over r]."""
  a, d, s = frac(a), frac(d), frac(s)
  la, ld = round_half_up(a), round_half_up(d)
  slope = lambda num, den, n: num / den if n else Fraction(0)  # no samples
  out = seg(la, Fraction(0), slope(1, a, la)) + \
        seg(ld, Fraction(1), slope(s - 1, d, ld))
  if r is not None:
    r = frac(r)
    lr = round_half_up(r)
    out += [s] * ls + seg(lr, s, slope(-s, r, lr))
  return out


def run_adsr(ctx, case):
  _, dur, a, d, s, r, style = case
  if 0 in (round_half_up(a), round_half_up(d), round_half_up(r)):
    ctx.count("adsr:zero-length-segment")
  if style == "kw":
    st = adsr(dur=dur, a=a, d=d, s=s, r=r)
  else:
    st = adsr(dur, a, d, s, r)
  total = round_half_up(dur)
  ls = total - round_half_up(a) - round_half_up(d) - round_half_up(r)
  assert ls >= 0     # guaranteed by the generator (statement silent otherwise)
  want = adsr_shape(a, d, s, r, ls)
  assert len(want) == total
  got, exc, hit = drain(st, total + 3)
  scale = float(2 + 2 * abs(frac(s)))
  ctx.count("adsr:cases")
  if ls > 0:
    ctx.count("adsr:with_sustain")
  for nm, v in (("a", a), ("d", d), ("r", r)):
    if frac(v) != int(frac(v)):
      ctx.count("adsr:fractional_segment")
      break
  compare_seq(ctx, case, "adsr", got, exc, hit, want, False,
              lambda i, g, w: close(ctx, "adsr", g, w, scale))
  return True


def run_attack(ctx, case):
  _, a, d, s, how = case
  if 0 in (round_half_up(a), round_half_up(d)):
    ctx.count("attack:zero-length-segment")
  if is_stream_spec(s):
    items = list(s[1])
    s0 = items[0]
    head = adsr_shape(a, d, s0)
    g = attack(a, d, build(s, how))
    got, exc, hit = drain(g, len(head) + len(items) + 3)
    ctx.count("attack:stream_sustain")
    scale = float(2 + 2 * abs(frac(s0)))
    if exc is not None:
      ctx.violation("attack/raises-%s" % ex_name(exc), case, error=repr(exc))
      return True
    if hit:
      ctx.violation("attack/finite-sustain-not-finite", case,
                    got_len=len(got))
      return True
    for i, w in enumerate(head):
      if i >= len(got) or not close(ctx, "attack", got[i], w, scale):
        ctx.violation("attack/value", case, index=i,
                      got=got[i] if i < len(got) else None, want=w)
        return True
    # documented: "a finite envelope if the sustain input is a finite Stream";
    # whether the first sustain item (the decay target) is yielded again is
    # not documented - both readings are accepted
    tail = got[len(head):]
    if not any(len(tail) == len(w) and
               all(exact_eq(x, frac(y)) for x, y in zip(tail, w))
               for w in (items, items[1:])):
      ctx.violation("attack/sustain-stream-tail", case, tail=tail,
                    sustain=items)
    return True
  head = adsr_shape(a, d, s)
  n = len(head) + 25
  want = head + [frac(s)] * 25
  got, exc, hit = drain(attack(a, d, s), n)
  ctx.count("attack:number_sustain")
  scale = float(2 + 2 * abs(frac(s)))
  compare_seq(ctx, case, "attack", got, exc, hit, want, True,
              lambda i, g, w: close(ctx, "attack", g, w, scale))
  return True


# ---------------------------------------------------------------------------
# modulo_counter
# ---------------------------------------------------------------------------
MC_DEFAULTS = (0., 256., 1.)


def fmod(x, m):
  """Floor modulo: the representative of x in [0, m) (in (m, 0] for m < 0)."""
  return x - m * math.floor(x / m)


def mc_oracle(start, modulo, step, n):
  """Sequential definition on exact rationals.
  c_0 = p_0 mod m_0;  c_i = (c_{i-1} + s_{i-1} + p_i - p_{i-1}) mod m_i,
  where p is the start stream (constant when start is a number).  An item i is
  produced only when every stream argument has an item i."""
  ps = [frac(v) for v in expand(start, n, MC_DEFAULTS[0])]
  ms = [frac(v) for v in expand(modulo, n, MC_DEFAULTS[1])]
  ss = [frac(v) for v in expand(step, n, MC_DEFAULTS[2])]
  count = min(len(ps), len(ms), len(ss))
  out = []
  c = None
  for i in range(count):
    if i == 0:
      c = fmod(ps[0], ms[0])
    else:
      c = fmod(c + ss[i - 1] + ps[i] - ps[i - 1], ms[i])
    out.append(c)
  return out


def run_mc(ctx, case):
  _, start, modulo, step, n, how, style = case
  specs = (start, modulo, step)
  kinds = "".join("S" if is_stream_spec(s) else "N" for s in specs)
  args = [build(s, how) for s in specs]
  if style == "kw":
    kw = {k: v for k, v in zip(("start", "modulo", "step"), args)
          if v is not None}
    obj = modulo_counter(**kw)
  else:
    while args and args[-1] is None:
      args.pop()
    if any(v is None for v in args):   # a hole in the middle: keywords
      kw = {k: v for k, v in zip(("start", "modulo", "step"), args)
            if v is not None}
      obj = modulo_counter(**kw)
    else:
      obj = modulo_counter(*args)
  flen = finite_len(*specs)
  endless = flen is None
  want = mc_oracle(start, modulo, step, n if endless else flen + 1)
  got, exc, hit = drain(obj, n if endless else len(want) + 3)

  # which branch of the code is this (observed from the arguments only)
  ctx.count("mc:kinds=" + kinds)
  sub = None
  if kinds[1:] == "NN":
    m = frac(MC_DEFAULTS[1] if modulo is None else modulo)
    s = frac(MC_DEFAULTS[2] if step is None else step)
    if s == 0:
      sub = "step0"
    else:
      steps = int(m / s)     # truncation, as the fast path decides
      if steps > 1:
        sub = "batched"
        if len(want) > steps:
          ctx.count("mc:%s:batched_reset" % kinds)
        if len(want) > 2 * steps:
          ctx.count("mc:%s:batched_reset_twice" % kinds)
        if m / s != steps:
          ctx.count("mc:batched_inexact_ratio")
      else:
        sub = "seq"
    ctx.count("mc:%s:%s" % (kinds, sub))
  if not endless:
    ctx.count("mc:finite_end_checked")
    lens = sorted(len(s[1]) for s in specs
                  if is_stream_spec(s) and s[0] == "S")
    if len(lens) > 1 and lens[0] != lens[-1]:
      ctx.count("mc:streams_of_unequal_length")
    if any(is_stream_spec(s) and s[0] == "C" for s in specs):
      ctx.count("mc:finite_with_endless_stream")
  ss = [frac(v) for v in (step[1] if is_stream_spec(step) else
                          [MC_DEFAULTS[2] if step is None else step])]
  ms = [frac(v) for v in (modulo[1] if is_stream_spec(modulo) else
                          [MC_DEFAULTS[1] if modulo is None else modulo])]
  if any(v < 0 for v in ss):
    ctx.count("mc:negative_step")
  if any(v < 0 for v in ms):
    ctx.count("mc:negative_modulo")
  if any(s != 0 and fmod(s, m) == 0 for s in ss for m in ms[:3]):
    ctx.count("mc:step_multiple_of_modulo")
  exact_class = all(s is not None and
                    all(isinstance(v, (int, Fraction)) and
                        not isinstance(v, bool)
                        for v in (s[1] if is_stream_spec(s) else [s]))
                    for s in specs)
  ctx.count("mc:class_E" if exact_class else "mc:class_D")

  name = "modulo_counter/%s%s" % (kinds, "-" + sub if sub else "")

  def cmp(i, g, w):
    if exact_class and kinds[0] == "N" and isinstance(g, float):
      return False   # exact arguments must not pick up float drift
    return exact_eq(g, w)
  if compare_seq(ctx, case, name, got, exc, hit, want, endless, cmp):
    ctx.count("mc:samples", len(want))
  return len(want) > 0


# ---------------------------------------------------------------------------
# TableLookup, sinusoid, karplus_strong
# ---------------------------------------------------------------------------
def phase_positions(freq, phase, n, default_phase=0.):
  """phase_i + sum_{k<i} freq_k as exact rationals; the list is as long as
  the shortest finite stream allows (at most n)."""
  fs = [frac(v) for v in expand(freq, n)]
  ps = [frac(v) for v in expand(phase, n, default_phase)]
  count = min(len(fs), len(ps))
  out = []
  acc = Fraction(0)
  for i in range(count):
    out.append(ps[i] + acc)
    acc += fs[i]
  return out


def interp_cyclic(tbl, x):
  """Cyclic linear interpolation of the table at real position x."""
  L = len(tbl)
  x = fmod(x, L)
  i = math.floor(x)
  f = x - i
  if f == 0:
    return tbl[i % L]
  return tbl[i % L] * (1 - f) + tbl[(i + 1) % L] * f


def table_oracle(tbl, cycles, freq, phase, n):
  """(values, local slopes): the cyclic linear interpolation of the table at
  (phase_i + sum of earlier freq) * len / (cycles * 2 pi), and for each sample
  the steepest |table difference| of its segment and the two neighbouring
  segments (the conditioning of that sample with respect to its position)."""
  L = len(tbl)
  big = L > 64
  ft = tbl if big else [frac(v) for v in tbl]
  cl = Fraction(L) / (cycles * TWO_PI_FLOAT)
  out, slopes = [], []
  for arg in phase_positions(freq, phase, n):
    x = fmod(arg * cl, L)
    i = math.floor(x)
    f = x - i
    pts = [ft[(i + k) % L] for k in (-1, 0, 1, 2)]
    if big:
      pts = [Fraction(v) for v in pts]
    a, b = pts[1], pts[2]
    out.append(a if f == 0 else a * (1 - f) + b * f)
    slopes.append(float(max(abs(pts[k + 1] - pts[k]) for k in range(3))))
  return out, slopes


_DEFTABLES = {}


def run_table(ctx, case):
  kind = case[0]
  if kind == "table":
    _, tbl, cycles, freq, phase, n = case
    if n % 3 == 0:
      # the table is a settable attribute: an oscillator object that served
      # another table (of another length) before is the oscillator of the
      # table it holds now
      other = (list(tbl) + [0.5, -0.25, 1])[:max(1, (len(tbl) + n) % 19)]
      if len(other) == len(tbl):
        other = other + [0.125]
      tl = TableLookup(other) if cycles is None else TableLookup(other, cycles)
      take(tl(0.3), 2)
      tl[0.5]
      tl.table = list(tbl)
      ctx.count("table:reassigned-before-use")
      if len(tl) != len(tbl):
        ctx.violation("table/len-after-table-reassignment", case,
                      got=len(tl), want=len(tbl))
        return True
    else:
      tl = TableLookup(list(tbl)) if cycles is None else \
           TableLookup(list(tbl), cycles)
    cyc = 1 if cycles is None else cycles
    otbl = tbl
    scale = float(max(1, max(abs(frac(v)) for v in tbl)))
    name = "table"
    ctx.count("table:size=%d" % len(tbl))
  else:
    _, which, freq, phase, n = case
    tl = sin_table if which == "sin" else saw_table
    if which not in _DEFTABLES:
      _DEFTABLES[which] = list(tl.table)
    otbl, cyc, scale, name = _DEFTABLES[which], 1, 1.0, "table"
    ctx.count("table:default_" + which)
  fa, pa = build(freq), build(phase)
  st = tl(fa) if phase is None else tl(fa, pa)
  flen = finite_len(freq, phase)
  endless = flen is None
  want, slopes = table_oracle(otbl, cyc, freq, phase,
                              n if endless else flen + 1)
  # the float position (magnitude ~ len, i accumulation steps) is resolved to
  # about len*(i+16)*4e-13 (1800 ulp per step); where the table is steep - the
  # cyclic wrap of a saw - that is what limits the output accuracy
  L = len(otbl)
  got, exc, hit = drain(st, n if endless else len(want) + 3)
  kinds = ("S" if is_stream_spec(freq) else "N") + \
          ("S" if is_stream_spec(phase) else "N")
  ctx.count("table:freq,phase=" + kinds)
  if not is_stream_spec(freq):
    if freq == 0:
      ctx.count("table:freq=0")
    elif abs(freq) > math.pi:
      ctx.count("table:freq>pi")
    if freq < 0:
      ctx.count("table:freq<0")
  if compare_seq(ctx, case, name, got, exc, hit, want, endless,
                 lambda i, g, w: close(ctx, "table", g, w, scale +
                                       slopes[i] * L * (i + 16) * 4e-4)):
    ctx.count("table:samples", len(want))
  return len(want) > 0


def run_getitem(ctx, case):
  _, tbl, idxs = case
  if len(idxs) % 2:
    tl = TableLookup(list(tbl))
  else:
    tl = TableLookup(list(tbl) + [7, 7])
    tl[1.25]
    tl.table = list(tbl)
    ctx.count("getitem:table-reassigned-before-use")
  ft = [frac(v) for v in tbl]
  scale = float(max(1, max(abs(v) for v in ft)))
  for idx in idxs:
    want = interp_cyclic(ft, frac(idx))
    try:
      got = tl[idx]
    except Exception as exc:
      ctx.violation("table-getitem/raises-%s" % ex_name(exc), case, idx=idx,
                    error=repr(exc))
      return True
    if not close(ctx, "getitem", got, want, scale):
      ctx.violation("table-getitem/value", case, idx=idx, got=got, want=want)
      return True
    ctx.count("getitem:checked")
    if idx < 0:
      ctx.count("getitem:negative-index")
  return True


def run_sin(ctx, case):
  _, freq, phase, n, how = case
  fa, pa = build(freq, how), build(phase, how)
  st = sinusoid(fa) if phase is None else sinusoid(fa, pa)
  flen = finite_len(freq, phase)
  endless = flen is None
  args = phase_positions(freq, phase, n if endless else flen + 1)
  # tolerance 1e-9 up to n = 500, then 2e-12 per sample (the float wrap by
  # 2*pi costs ~1e-15 per sample; observed worst 2.7e-12 at n = 2400)
  # sin of the exactly accumulated argument, reduced into [0, 2 pi) with the
  # 50-digit pi before it is rounded to a float (oracle error < 1e-15)
  want = [Fraction(math.sin(float(fmod(a, TWO_PI)))) for a in args]
  got, exc, hit = drain(st, n if endless else len(want) + 3)
  kinds = ("S" if is_stream_spec(freq) else "N") + \
          ("S" if is_stream_spec(phase) else "N")
  ctx.count("sin:freq,phase=" + kinds)
  if n >= 2000:
    ctx.count("sin:long")
  if not is_stream_spec(freq):
    if freq == 0:
      ctx.count("sin:freq=0")
    elif abs(freq) > math.pi:
      ctx.count("sin:freq>pi")
  if compare_seq(ctx, case, "sinusoid", got, exc, hit, want, endless,
                 lambda i, g, w: close(ctx, "sinusoid", g, w,
                                       max(1.0, i / 500.))):
    ctx.count("sin:samples", len(want))
  return len(want) > 0


def run_ks(ctx, case):
  _, freq, tau, memory, n, how = case
  delay = 2 * math.pi / freq
  alpha = 1.0 if tau is None else math.exp(-delay / tau)
  D = int(math.floor(delay))
  f = delay - D
  lm = D if f == 0 else D + 1
  assert len(memory) >= lm and D >= 2
  # y[n] = alpha * ((1-f) * y[n-D] + f * y[n-D-1]),  y[-k] = memory[k-1]
  hist = [float(v) for v in memory[:lm]]   # hist[k-1] = y[-k]
  y = []

  def at(i):        # y[i] for i possibly negative
    return y[i] if i >= 0 else hist[-i - 1]
  for i in range(n):
    v = alpha * (1. - f) * at(i - D)
    if f != 0:
      v += alpha * f * at(i - D - 1)
    y.append(v)
  mem = build(("S", memory), how)
  if tau is None:
    st = karplus_strong(freq, inf, memory=mem)
  elif tau == 2e4 and how == 0:
    st = karplus_strong(freq, memory=mem)
  else:
    st = karplus_strong(freq, tau, mem)
  got, exc, hit = drain(st, n)
  ctx.count("ks:integer_delay" if f == 0 else "ks:fractional_delay")
  if n > 2 * lm:
    ctx.count("ks:beyond_two_periods")
  scale = float(max(1, max(abs(v) for v in hist)))
  if compare_seq(ctx, case, "karplus_strong", got, exc, hit,
                 [Fraction(v) for v in y], True,
                 lambda i, g, w: close(ctx, "karplus_strong", g, w, scale)):
    ctx.count("ks:samples", n)
  return True


# ---------------------------------------------------------------------------
# resample
# ---------------------------------------------------------------------------
def lagrange_at(first, ys, t):
  """Exact Waring-Lagrange interpolation through (first+j, ys[j]) at t."""
  k = len(ys)
  total = Fraction(0)
  for j in range(k):
    w = Fraction(1)
    for i in range(k):
      if i != j:
        w *= (t - (first + i)) / (j - i)
    total += ys[j] * w
  return total


RESAMPLE_CAP = 400


def resample_oracle(sig, old, new, order, zero, n):
  """(wanted outputs, ended) - ended: the input end was reached within the
  first n outputs (only possible for a finite input)."""
  p = order
  thr = Fraction(p + 1, 2)
  finite = sig[0] == "S"
  x = [frac(v) for v in sig[1]]
  L = len(x)
  olds = [frac(v) for v in expand(old, n, 1)]
  news = [frac(v) for v in expand(new, n, 1)]
  z = frac(zero)
  t = Fraction(0)
  out = []
  int_pos = 0
  for m in range(n):
    first = math.ceil(t - thr)
    if finite and first + p > L - 1:
      return out, True, int_pos
    ys = [z if i < 0 else x[i if finite else i % L]
          for i in range(first, first + p + 1)]
    v = lagrange_at(first, ys, t)
    if t == int(t):
      int_pos += 1
      assert v == (x[int(t) if finite else int(t) % L])
    out.append(v)
    t += olds[m] / news[m]
  return out, False, int_pos


def run_resample(ctx, case):
  _, sig, old, new, order, zero, n, how = case
  kw = {}
  if old is not None:
    kw["old"] = build(old)
  if new is not None:
    kw["new"] = build(new)
  if order is not None:
    kw["order"] = order
  if zero is not None:
    kw["zero"] = zero
  p = 3 if order is None else order
  z = 0. if zero is None else zero
  want, ended, int_pos = resample_oracle(sig, old, new, p, z, n)
  if how == 5 and set(kw) == {"old", "new", "order", "zero"}:
    obj = resample(build(sig, 0), kw["old"], kw["new"], kw["order"],
                   kw["zero"])
  else:
    obj = resample(build(sig, how), **kw)
  got, exc, hit = drain(obj, len(want) + 3 if ended else len(want))

  L = len(sig[1])
  lookahead = math.floor(Fraction(p + 1, 2) + HALF)   # samples taken up front
  ctx.count("resample:order=%d" % p)
  if is_stream_spec(old) or is_stream_spec(new):
    ctx.count("resample:stream_step")
  step_float = not any(isinstance(v, Fraction)
                       for s in (old, new) if s is not None
                       for v in (s[1] if is_stream_spec(s) else [s]))
  ctx.count("resample:float_step" if step_float else "resample:exact_step")
  scale = float(1 + max([abs(frac(v)) for v in sig[1]] + [abs(frac(z))]))

  # 1. the samples produced (also those produced before an exception)
  nexact = 0
  for i, (g, w) in enumerate(zip(got, want)):
    if isinstance(g, float):
      ok = close(ctx, "resample", g, w, scale)
    else:
      ok = exact_eq(g, w)
      nexact += 1
    if not ok:
      ctx.violation("resample/value", case, index=i, got=g, want=w,
                    got_head=got[:8], want_head=want[:8])
      return True
  ctx.count("resample:samples", min(len(got), len(want)))
  ctx.count("resample:samples_exact", nexact)
  if len(got) >= len(want):
    ctx.count("resample:integer_positions", int_pos)

  # 2. where and how the output stops
  if len(got) > len(want):
    ctx.violation("resample/continues-past-input-end", case,
                  got_len=len(got), want_len=len(want), extra=got[len(want):])
    return True
  known = None
  if exc is not None:
    msg = str(exc)
    if p == 0 and isinstance(exc, TypeError) and "reduce" in msg \
       and len(got) == 0 and L >= lookahead:
      ctx.count("resample:order0_TypeError")
      ctx.violation("resample/order0-lagrange-TypeError", case,
                    error=repr(exc), want_head=want[:6])
      return True
    if isinstance(exc, RuntimeError) and "StopIteration" in msg and ended \
       and len(got) == len(want):
      known = "resample/short-input-lookahead-RuntimeError" \
              if L < lookahead else "resample/end-of-input-RuntimeError"
    else:
      ctx.violation("resample/raises-%s" % ex_name(exc), case,
                    error=repr(exc), produced=len(got), want_len=len(want),
                    input_ends=ended)
      return True
  if len(got) < len(want):
    ctx.violation("resample/ends-early", case, got_len=len(got),
                  want_len=len(want), input_ends=ended)
    return True
  if ended:
    ctx.count("resample:end_of_input_reached")
    if L < lookahead:
      ctx.count("resample:input_shorter_than_lookahead")
    if known:
      ctx.violation(known, case, error=repr(exc), produced=len(got),
                    note="all %d samples before the exception are correct; "
                         "the stream must end instead" % len(got))
    else:
      ctx.count("resample:clean_end")
  else:
    ctx.count("resample:prefix_only")
  return True


# ---------------------------------------------------------------------------
# dispatch
# ---------------------------------------------------------------------------
RUN = {
  "line": run_line, "fade": run_fade, "const": run_const,
  "impulse": run_impulse, "noise": run_noise, "adsr": run_adsr,
  "attack": run_attack, "mc": run_mc, "table": run_table,
  "deftable": run_table, "getitem": run_getitem, "sin": run_sin,
  "ks": run_ks, "resample": run_resample,
}


def run_case(ctx, case):
  return RUN[case[0]](ctx, case)


# ---------------------------------------------------------------------------
# case generation
# ---------------------------------------------------------------------------
def r_exact(rng, big=30, maxden=12):
  if rng.random() < 0.3:
    return rng.randint(-big, big)
  return Fraction(rng.randint(-big * 4, big * 4), rng.randint(1, maxden))


def r_dyadic(rng, big=40, maxexp=4):
  if rng.random() < 0.2:
    return rng.randint(-big, big)
  e = rng.randint(0, maxexp)
  return rng.randint(-big << e, big << e) / float(1 << e)


def r_dur(rng, hi=40):
  """A duration >= 0: integer, k/4, k/8 (never so close to a rounding tie
  that int(dur+.5) is decided by float rounding)."""
  c = rng.random()
  if c < 0.45:
    return rng.randint(0, hi)
  if c < 0.6:
    return float(rng.randint(0, hi))
  if c < 0.85:
    return rng.randint(0, hi * 8) / 8.
  return Fraction(rng.randint(0, hi * 4), 4)


def gen_line(rng):
  style = rng.choice(["pos", "pos", "kw", "nofinish", "defaults"])
  if style == "defaults":
    begin, end, finish = 0., 1., False
  else:
    num = rng.choice([r_exact, r_dyadic, lambda r: round(r.uniform(-3, 3), 3)])
    begin, end = num(rng), num(rng)
    finish = False if style == "nofinish" else rng.random() < 0.5
  while True:
    dur = r_dur(rng, rng.choice([5, 40, 300]))
    # closed form defined - or not needed: no sample, or only sample 0
    if frac(dur) != (1 if finish else 0) or round_half_up(dur) <= 1:
      break
  if finish and rng.random() < 0.08:
    dur = rng.choice([1, 1., Fraction(1)])      # one sample: "begin" itself
  return ("line", dur, begin, end, finish, style)


def gen_fade(rng):
  dur = r_dur(rng, rng.choice([5, 40, 300]))
  if rng.random() < 0.05:
    dur = rng.choice([0, 0.0, Fraction(0), 0.25])
  return ("fade", rng.choice(["in", "out"]), dur)


def gen_const(rng):
  which = rng.choice(["ones", "zeros", "zeroes"])
  c = rng.random()
  if c < 0.15:
    return ("const", which, None, rng.choice(["noarg", "pos", "kw"]))
  if c < 0.3:
    return ("const", which, inf, rng.choice(["pos", "kw"]))
  return ("const", which, r_dur(rng, rng.choice([3, 60])),
          rng.choice(["pos", "kw"]))


def gen_impulse(rng):
  c = rng.random()
  if c < 0.12:
    dur, style = None, rng.choice(["noarg", "dur", "kw", "pos"])
  elif c < 0.25:
    dur, style = inf, rng.choice(["dur", "kw", "pos"])
  else:
    dur, style = r_dur(rng, rng.choice([2, 3, 40])), \
                 rng.choice(["dur", "kw", "pos"])
  if style in ("noarg", "dur"):
    one, zero = 1., 0.
  else:
    one, zero = r_exact(rng), r_exact(rng)
  return ("impulse", dur, one, zero, style)


def gen_noise(rng):
  which = rng.choice(["white", "white", "gauss"])
  c = rng.random()
  if c < 0.12:
    dur, style = None, rng.choice(["noarg", "dur", "kw", "pos"])
  elif c < 0.25:
    dur, style = inf, rng.choice(["dur", "kw", "pos"])
  else:
    dur, style = r_dur(rng, rng.choice([3, 80, 200, 200])), \
                 rng.choice(["dur", "kw", "pos"])
  if style in ("noarg", "dur"):
    a, b = (-1., 1.) if which == "white" else (0., 1.)
  elif which == "white":
    a = r_dyadic(rng)
    b = a + abs(r_dyadic(rng))     # low <= high (equal allowed)
  else:
    a, b = r_dyadic(rng), abs(r_dyadic(rng))
  return ("noise", which, dur, a, b, style)


def r_seglen(rng):
  """Segment duration; now and then 0 or below one half (no sample at all:
  the closed form is never evaluated there)."""
  c = rng.random()
  if c < 0.08:
    return rng.choice([0, 0, 0.0, Fraction(0), 0.25, Fraction(3, 8)])
  if c < 0.6:
    return rng.randint(1, 12)
  if c < 0.8:
    return rng.randint(1, 96) / 8.
  return Fraction(rng.randint(1, 48), 4)


def gen_adsr(rng):
  a, d, r = r_seglen(rng), r_seglen(rng), r_seglen(rng)
  s = rng.choice([r_dyadic(rng, 2, 4), round(rng.uniform(0, 1), 3),
                  Fraction(rng.randint(0, 8), 8), 0, 1])
  need = round_half_up(a) + round_half_up(d) + round_half_up(r)
  extra = rng.choice([0, 0, 1, rng.randint(0, 30)])
  c = rng.random()
  if c < 0.6:
    dur = need + extra
  elif c < 0.8:
    dur = need + extra + rng.choice([-0.5, -0.25, 0.25, 0.375])
  else:
    dur = Fraction(need + extra) + Fraction(rng.randint(-2, 1), 4)
  assert round_half_up(dur) >= need
  return ("adsr", dur, a, d, s, r, rng.choice(["pos", "kw"]))


def gen_attack(rng):
  a, d = r_seglen(rng), r_seglen(rng)
  if rng.random() < 0.35:
    items = [round(rng.uniform(0, 1), 3) if rng.random() < .5 else
             Fraction(rng.randint(0, 8), 8)
             for _ in range(rng.randint(1, 9))]
    return ("attack", a, d, ("S", items), rng.choice([0, 1, 2, 3]))
  s = rng.choice([r_dyadic(rng, 2, 4), round(rng.uniform(0, 1), 3),
                  Fraction(rng.randint(0, 8), 8)])
  return ("attack", a, d, s, 0)


def gen_mc(rng, kinds=None):
  if kinds is None:
    kinds = rng.randrange(8)
  sS, mS, tS = bool(kinds & 1), bool(kinds & 2), bool(kinds & 4)
  dy = sS or rng.random() < 0.35     # class D whenever start is a stream
  num = (lambda: r_dyadic(rng)) if dy else (lambda: r_exact(rng))

  def unit():    # a small positive quantum
    if dy:
      return rng.randint(1, 24) / float(1 << rng.randint(0, 4))
    return Fraction(rng.randint(1, 24), rng.randint(1, 12))
  sign = -1 if rng.random() < 0.25 else 1
  # number modulo / number step: aim at the three sub-branches
  cat = rng.choice(["div", "div", "frac", "frac", "zero", "mult", "big",
                    "neg", "one"])
  q = unit()
  k = rng.choice([2, 2, 3, 4, 5, 7, 8, 12, 16, 25, 40])
  if cat == "div":        # modulo an exact multiple of step: steps == k
    step, modulo = sign * q, sign * q * k
  elif cat == "frac":     # inexact ratio: steps == k, wraps carry a rest
    step = sign * q
    modulo = sign * (q * k + q * rng.choice([1, 3, 5, 7]) / 8)
  elif cat == "zero":
    step, modulo = (0. if dy else 0), sign * q * k
  elif cat == "mult":     # step a multiple of the modulo
    modulo = sign * q
    step = modulo * rng.choice([1, 1, 2, 3, -1, -2])
  elif cat == "big":
    modulo = sign * q
    step = modulo * rng.choice([1, 2, 5]) + sign * q * rng.choice([1, 3]) / 4
  elif cat == "neg":      # opposite signs
    modulo, step = sign * q * k, -sign * q * rng.choice([1, 3, 5]) / 4
  else:                   # 1 < modulo/step < 2: steps == 1
    step = sign * q
    modulo = sign * (q + q * rng.choice([1, 3, 5, 7]) / 8)
  nsteps = int(frac(modulo) / frac(step)) if step != 0 else 0
  if nsteps > 1:
    base = nsteps * rng.choice([1, 1, 2, 2, 3]) + rng.randint(0, 6)
  else:
    base = rng.randint(1, 40)
  base = min(base, 400)

  def stream(gen):
    ln = base if rng.random() < 0.7 else rng.randint(0, base)
    if rng.random() < 0.15:
      return ("C", [gen() for _ in range(rng.randint(1, 5))])
    return ("S", [gen() for _ in range(ln)])

  def gen_mod():
    while True:
      v = modulo * rng.choice([1, 1, 1, 2, 3]) if rng.random() < .6 else num()
      if rng.random() < 0.1:
        v = -v
      if v != 0:
        return v

  def gen_step():
    c = rng.random()
    if c < 0.4:
      return step
    if c < 0.55:
      return step * rng.choice([0, 2, -1, 3])
    if c < 0.7:
      return modulo * rng.choice([1, -1, 2])
    return num()
  # an omitted argument is a float default: only with the dyadic class
  start = stream(num) if sS else (None if dy and rng.random() < 0.1
                                  else num())
  mod = stream(gen_mod) if mS else modulo
  stp = stream(gen_step) if tS else step
  if dy and not mS and not tS and rng.random() < 0.08:
    mod, stp = None, None            # defaults 256., 1.: steps == 256
    base = rng.choice([300, 520, 600])
    if sS:
      start = ("S", [r_dyadic(rng) for _ in range(base)])
  return ("mc", start, mod, stp, base, rng.choice([0, 1, 2, 3, 4]),
          rng.choice(["pos", "kw"]))


def gen_spec_float(rng, gen, n):
  c = rng.random()
  if c < 0.65:
    return gen()
  if c < 0.8:
    return ("C", [gen() for _ in range(rng.randint(1, 6))])
  ln = n if rng.random() < 0.5 else rng.randint(0, n)
  return ("S", [gen() for _ in range(ln)])


def r_freq(rng):
  c = rng.random()
  if c < 0.08:
    return rng.choice([0, 0.])
  if c < 0.5:
    return round(rng.uniform(0.001, math.pi), 4)
  if c < 0.7:
    return round(rng.uniform(math.pi, 7.), 4)
  if c < 0.8:
    return rng.choice([math.pi, 2 * math.pi, math.pi / 2, math.pi / 8])
  if c < 0.9:
    return round(rng.uniform(1e-4, 1e-2), 6)
  return -round(rng.uniform(0.001, 4.), 4)


def gen_table(rng):
  size = rng.randint(1, 16)
  if rng.random() < 0.5:
    tbl = [round(rng.uniform(-1, 1), 3) for _ in range(size)]
  else:
    tbl = [rng.choice([rng.randint(-3, 3), r_dyadic(rng, 2, 3)])
           for _ in range(size)]
  cycles = None if rng.random() < 0.8 else rng.choice([1, 2, 3])
  n = rng.randint(10, 260)
  freq = gen_spec_float(rng, lambda: r_freq(rng), n)
  phase = None if rng.random() < 0.2 else \
          gen_spec_float(rng, lambda: round(rng.uniform(-7, 7), 3), n)
  return ("table", tbl, cycles, freq, phase, n)


def gen_deftable(rng):
  n = rng.randint(10, 120)
  freq = gen_spec_float(rng, lambda: r_freq(rng), n)
  phase = None if rng.random() < 0.3 else round(rng.uniform(-7, 7), 3)
  return ("deftable", rng.choice(["sin", "saw"]), freq, phase, n)


def gen_getitem(rng):
  size = rng.randint(1, 16)
  tbl = [round(rng.uniform(-1, 1), 3) for _ in range(size)]
  idxs = []
  for _ in range(rng.randint(1, 12)):
    c = rng.random()
    if c < 0.12:          # cyclic: negative positions as well
      idxs.append(rng.choice([-rng.randint(1, 3 * size),
                              -round(rng.uniform(0, 3 * size), 3),
                              -(rng.randint(0, 3 * size) + 0.5)]))
    elif c < 0.3:
      idxs.append(rng.randint(0, 3 * size))
    elif c < 0.5:
      idxs.append(float(rng.randint(0, 3 * size)))
    else:
      idxs.append(round(rng.uniform(0, 3 * size), 3))
  return ("getitem", tbl, idxs)


def gen_sin(rng):
  n = rng.choice([50, 200, 200, 600, 3000 if rng.random() < .3 else 400])
  n = rng.randint(max(5, n // 2), n)
  freq = gen_spec_float(rng, lambda: r_freq(rng), min(n, 300))
  phase = None if rng.random() < 0.2 else \
          gen_spec_float(rng, lambda: round(rng.uniform(-10, 10), 3),
                         min(n, 300))
  return ("sin", freq, phase, n, rng.choice([0, 1, 2, 3]))


def gen_ks(rng):
  c = rng.random()
  if c < 0.3:
    d = rng.randint(2, 24)
    freq = 2 * math.pi / d
    if not (2 * math.pi / freq).is_integer():
      freq = 2 * math.pi / (d + 0.5)
  else:
    freq = 2 * math.pi / round(rng.uniform(2.05, 30), 3)
  delay = 2 * math.pi / freq
  D = int(math.floor(delay))
  lm = D if delay == D else D + 1
  tau = rng.choice([None, 2e4, 2e4, 50., 7.5, float(rng.randint(3, 400))])
  mem = [round(rng.uniform(-1, 1), 3) for _ in range(lm + rng.choice([0, 0, 2]))]
  n = rng.randint(lm + 1, 4 * lm + 10)
  return ("ks", freq, tau, mem, n, rng.choice([0, 2, 3]))


def gen_resample(rng):
  order = rng.choice([0, 1, 1, 2, 2, 3, 3, 4, 5, None])
  p, q = rng.randint(1, 8), rng.randint(1, 8)
  rep = rng.choice(["Fo", "Fn", "FF", "Fq", "dy", "stream", "stream2",
                    "default"])
  fr = lambda: Fraction(rng.randint(1, 8), rng.randint(1, 8))
  if rep == "Fo":
    old, new = Fraction(p), q
  elif rep == "Fn":
    old, new = p, Fraction(q)
  elif rep == "FF":
    old, new = Fraction(p, q), None
  elif rep == "Fq":
    old, new = None, Fraction(q, p)
  elif rep == "dy":      # float step, dyadic: exact accumulation
    old, new = rng.choice([p, float(p)]), rng.choice([1, 2, 4, 8])
  elif rep == "stream":
    old, new = ("C", [fr() for _ in range(rng.randint(1, 5))]), \
               rng.choice([None, q])
  elif rep == "stream2":
    old = rng.choice([p, ("C", [fr() for _ in range(rng.randint(1, 3))])])
    new = ("C", [fr() for _ in range(rng.randint(1, 4))])
  else:
    old, new = None, None
  vgen = rng.choice([lambda: rng.randint(-9, 9),
                     lambda: Fraction(rng.randint(-40, 40), rng.randint(1, 9)),
                     lambda: r_exact(rng, 10, 6)])
  zero = rng.choice([None, 0, 0, Fraction(0), Fraction(0),
                     Fraction(rng.randint(-6, 6), rng.randint(1, 3))])
  if rng.random() < 0.2:
    sig = ("C", [vgen() for _ in range(rng.randint(1, 7))])
    n = rng.randint(3, 50)
  else:
    L = rng.choice([0, 1, 2, 3, 4, rng.randint(0, 12), rng.randint(0, 24)])
    sig = ("S", [vgen() for _ in range(L)])
    n = RESAMPLE_CAP
  return ("resample", sig, old, new, order, zero, n,
          rng.choice([0, 1, 2, 3, 4, 5]))


GENERATORS = [
  (gen_mc, 30), (gen_resample, 14), (gen_table, 10), (gen_sin, 5),
  (gen_line, 8), (gen_adsr, 6), (gen_attack, 4), (gen_ks, 4),
  (gen_impulse, 4), (gen_const, 4), (gen_noise, 4), (gen_fade, 3),
  (gen_getitem, 2), (gen_deftable, 2),
]


def cases(ctx):
  i = 0
  # -- exhaustive part 1: modulo_counter, every argument-kind combination on
  #    a small grid; a stream argument is the constant stream of the number,
  #    so all 8 combinations must give the very same sequence
  starts = [0, Fraction(-1, 2), 7]
  modulos = [3, -3, Fraction(5, 2)]
  steps = [0, 1, -1, Fraction(1, 2), 3, Fraction(-7, 4), 6, Fraction(1, 4)]
  n = 30
  for kinds in range(8):
    for st in starts:
      for mo in modulos:
        for sp in steps:
          if ctx.mine(i):
            if kinds & 1:    # start stream -> float path: dyadic floats
              conv = float
            else:
              conv = lambda v: v
            a = ("S", [conv(st)] * n) if kinds & 1 else conv(st)
            b = ("S", [conv(mo)] * (n + 1)) if kinds & 2 else conv(mo)
            c = ("S", [conv(sp)] * (n + 2)) if kinds & 4 else conv(sp)
            yield ("mc", a, b, c, n, i % 5, "pos")
          i += 1
  # -- exhaustive part 2: resample, every (order, input length, ratio)
  for order in range(0, 6):
    for L in range(0, 9):
      for p in range(1, 5):
        for q in range(1, 5):
          if ctx.mine(i):
            sig = ("S", [Fraction((7 * k * k + 3 * k) % 11 - 5, 1 + k % 3)
                         for k in range(L)])
            yield ("resample", sig, Fraction(p), q, order, 0, RESAMPLE_CAP,
                   i % 5)
          i += 1
  # -- exhaustive part 3: durations of the constant generators
  for which in ("ones", "zeros", "zeroes"):
    for k in range(0, 41):
      if ctx.mine(i):
        yield ("const", which, k / 8., "pos")
      i += 1
  for k in range(0, 41):
    if ctx.mine(i):
      yield ("impulse", k / 8., 1., 0., "dur")
    i += 1
  ctx.flag("exhaustive_subspace",
           "modulo_counter: 8 argument-kind combinations x 3 starts x 3 "
           "moduli x 8 steps (constant streams); resample: orders 0..5 x "
           "input lengths 0..8 x old 1..4 x new 1..4; ones/zeros/zeroes/"
           "impulse: durations k/8, k = 0..40")

  rng = ctx.rng
  gens = [g for g, w in GENERATORS]
  weights = [w for g, w in GENERATORS]
  for _ in ctx.loop(9000, 1000000):
    g = rng.choices(gens, weights)[0]
    yield g(rng)


def finish(ctx):
  for kinds in ("NNN", "SNN", "NSN", "SSN", "NNS", "SNS", "NSS", "SSS"):
    ctx.need("mc:kinds=" + kinds, 60)
  for kinds in ("NNN", "SNN"):
    for sub in ("step0", "batched", "seq"):
      ctx.need("mc:%s:%s" % (kinds, sub), 12)
    ctx.need("mc:%s:batched_reset" % kinds, 20)
    ctx.need("mc:%s:batched_reset_twice" % kinds, 10)
  ctx.need("mc:batched_inexact_ratio", 20)
  ctx.need("mc:finite_end_checked", 100)
  ctx.need("mc:streams_of_unequal_length", 30)
  ctx.need("mc:negative_step", 50)
  ctx.need("mc:negative_modulo", 50)
  ctx.need("mc:step_multiple_of_modulo", 50)
  ctx.need("mc:class_E", 100)
  ctx.need("mc:class_D", 100)
  ctx.need("line:zero-duration", 5)
  ctx.need("fade:no-sample", 3)
  ctx.need("adsr:zero-length-segment", 10)
  ctx.need("attack:zero-length-segment", 5)
  ctx.need("line:finish", 30)
  ctx.need("line:one-sample-with-finish", 5)
  ctx.need("line:nofinish", 30)
  ctx.need("line:fractional_dur", 20)
  ctx.need("line:samples", 1000)
  ctx.need("fade:in", 10)
  ctx.need("fade:out", 10)
  for v in ("ones", "zeros"):
    ctx.need("const:%s:endless" % v, 5)
    ctx.need("const:%s:finite" % v, 40)
  ctx.need("impulse:endless", 5)
  ctx.need("impulse:finite", 30)
  ctx.need("impulse:empty", 4)
  ctx.need("noise:white:finite", 20)
  ctx.need("noise:white:endless", 3)
  ctx.need("noise:gauss:finite", 10)
  ctx.need("noise:gauss:endless", 2)
  ctx.need("noise:white:range_checked", 300)
  ctx.need("noise:white:spread_checked", 10)
  ctx.need("adsr:cases", 60)
  ctx.need("adsr:with_sustain", 20)
  ctx.need("adsr:fractional_segment", 15)
  ctx.need("attack:number_sustain", 20)
  ctx.need("attack:stream_sustain", 10)
  for k in ("NN", "SN", "NS", "SS"):
    ctx.need("table:freq,phase=" + k, 8)
  ctx.need("table:freq=0", 5)
  ctx.need("table:freq>pi", 20)
  ctx.need("table:size=1", 3)
  ctx.need("table:reassigned-before-use", 50)
  ctx.need("getitem:table-reassigned-before-use", 20)
  ctx.need("table:size=16", 3)
  ctx.need("table:samples", 5000)
  ctx.need("table:default_sin", 3)
  ctx.need("table:default_saw", 3)
  ctx.need("getitem:checked", 50)
  ctx.need("getitem:negative-index", 20)
  for k in ("NN", "SN", "NS", "SS"):
    ctx.need("sin:freq,phase=" + k, 4)
  ctx.need("sin:freq>pi", 10)
  ctx.need("sin:long", 5)
  ctx.need("ks:integer_delay", 10)
  ctx.need("ks:fractional_delay", 30)
  ctx.need("ks:beyond_two_periods", 20)
  for p in range(0, 6):
    ctx.need("resample:order=%d" % p, 40)
  ctx.need("resample:stream_step", 30)
  ctx.need("resample:exact_step", 200)
  ctx.need("resample:float_step", 20)
  ctx.need("resample:samples_exact", 2000)
  ctx.need("resample:integer_positions", 500)
  ctx.need("resample:end_of_input_reached", 200)
  ctx.need("resample:input_shorter_than_lookahead", 30)
  ctx.need("resample:prefix_only", 20)


# extension family (second round of seeded changes), see props/c19_x.py
from props import c19_x as _x, ext as _ext
_ext.install(globals(), _x)
