META = {
  "rule":
    "two case families. chunks: (format, byte order, size, values, padval, "
    "call style, kind of iterable) - every (format b h i f d, byte order None "
    "@ = < > !, size 1..9 and the default, length 0..30) combination is "
    "enumerated each run with random values drawn half from the boundary pool "
    "of the format (min, max, +-2^k, 2^k-1, byte-asymmetric patterns; for f/d "
    "max, min normal, subnormals, +-0.0, +-inf, values that round), plus sizes "
    "around 128/32768 (array buffer initialisation), lengths around the "
    "default size 2048 and random larger sizes/lengths; each case runs "
    "chunks.struct, chunks.array and the default chunks(...) on a fresh "
    "iterable. wav: (sample width 1..4, channels 1..2, rate, stored integers, "
    "keep, input kind path/open file/BytesIO) - every (width, channels, frames "
    "0..40, keep, kind) combination enumerated each run with random/boundary "
    "values, one file per width holding the whole boundary pool, plus random "
    "files up to 250 frames. A case is non-trivial when at least one strategy "
    "or stream was executed and judged; distinct = distinct case descriptions "
    "(hash of repr)",
  "assumptions": [
    "struct.pack/unpack of ONE item with an explicit '<'/'>' prefix, "
    "int.to_bytes/int.from_bytes and the stdlib wave writer are correct (the "
    "written file is re-read and its 44-byte header and data bytes are compared "
    "with the raw frames before the library sees it)",
    "inputs the statement is silent about are not generated: values outside "
    "the range of the format, non-integers for b/h/i, NaN, doubles that do not "
    "round to a finite float32 for 'f', pad values of another type than the "
    "format's (padval is always passed for b/h/i because its default is the "
    "float 0.)",
    "for an already-open file object (or BytesIO) the caller keeps ownership as "
    "in the stdlib wave module: only a file WavStream opened itself (path "
    "input) is required to be closed after exhaustion; what happens to a "
    "caller's file object is recorded, not judged",
    "/proc/self/fd lists every open descriptor of the shard process (the run is "
    "inconclusive when the file was never seen open before exhaustion)",
    "native sizes of b h i f d equal the standard sizes 1 2 4 4 8 on this "
    "platform (checked through struct.calcsize per case)",
  ],
  "level_text":
    "Runtime monitoring of the real chunks strategies and of WavStream on real "
    "files. Every byte string yielded by chunks.struct / chunks.array / "
    "chunks(...) is compared byte for byte with an independent packing "
    "(int.to_bytes, one-item struct.pack) of sequence + pad values and is "
    "unpacked with the statement's own struct format; chunk count and "
    "per-chunk length are checked. Every WavStream sample is compared exactly "
    "(ints; Fractions of the yielded floats) with int.from_bytes of the raw "
    "frames, the range [-1,1), the header attributes, and the descriptor table "
    "of the process after exhaustion. The small spaces named in the rule are "
    "enumerated completely in their structural parameters on every run; sample "
    "values are sampled with boundary values of every width guaranteed by "
    "required-event counters. Codec paths are per-sample and stateless, so "
    "value sampling heavy on byte/sign boundaries is the appropriate level.",
  "technique": "runtime monitor: byte-exact comparison with int.to_bytes/"
               "int.from_bytes/struct oracles on enumerated structure + "
               "boundary-weighted random values; /proc/self/fd descriptor check",
  "shards": {"quick": 4, "thorough": 16},
}
