"""C01 - Stream operators and broadcast functions act element by element."""
import cmath
import itertools
import math
import operator
import types
from collections import deque
from fractions import Fraction

import audiolazy
from audiolazy import Stream, OpMethod, ControlStream
from audiolazy import lazy_math, lazy_midi

from vlib.inst import Probe

ID = "C01"
inf = float("inf")
nan = float("nan")
H = 12   # observation horizon for endless results

# The 35 operator methods of the statement, written out independently of the
# library's own table: name -> (python operator function, reflected?, arity)
BIN = {"add": operator.add, "sub": operator.sub, "mul": operator.mul,
       "truediv": operator.truediv, "floordiv": operator.floordiv,
       "mod": operator.mod, "pow": operator.pow, "rshift": operator.rshift,
       "lshift": operator.lshift, "and": operator.and_, "or": operator.or_,
       "xor": operator.xor, "matmul": operator.matmul,
       "lt": operator.lt, "le": operator.le, "eq": operator.eq,
       "ne": operator.ne, "gt": operator.gt, "ge": operator.ge}
REFLECTABLE = ["add", "sub", "mul", "truediv", "floordiv", "mod", "pow",
               "rshift", "lshift", "and", "or", "xor", "matmul"]
UN = {"pos": operator.pos, "neg": operator.neg, "invert": operator.invert}
ALL_METHODS = list(BIN) + ["r" + n for n in REFLECTABLE] + list(UN)
assert len(ALL_METHODS) == 35


class Mat(object):
  """2x2 integer matrix [[k,1],[0,1]]-like element for the @ operator
  (non-commutative, not iterable)."""
  __slots__ = ("m",)

  def __init__(self, m):
    self.m = tuple(m)

  @staticmethod
  def of(k):
    return Mat((k, 1, 0, 1))

  def __matmul__(self, o):
    if not isinstance(o, Mat):
      return NotImplemented
    a, b, c, d = self.m
    e, f, g, h = o.m
    return Mat((a * e + b * g, a * f + b * h, c * e + d * g, c * f + d * h))

  def __eq__(self, o):
    return isinstance(o, Mat) and self.m == o.m

  def __ne__(self, o):
    return not self == o

  def __hash__(self):
    return hash(self.m)

  def __repr__(self):
    return "Mat%r" % (self.m,)


def same(a, b):
  if type(a) is not type(b):
    return False
  if isinstance(a, tuple):
    return len(a) == len(b) and all(same(x, y) for x, y in zip(a, b))
  try:
    if a == b:
      return True
  except Exception:  # noqa
    pass
  return repr(a) == repr(b)   # nan, nan-bearing complex


def same_list(a, b):
  return len(a) == len(b) and all(same(x, y) for x, y in zip(a, b))


# ----------------------------------------------------------------------------
# operand specs -> real objects / oracle sequences
# ----------------------------------------------------------------------------
def decode(v, etype):
  return Mat.of(v) if etype == "mat" else v


def build_real(spec, etype):
  kind, data = spec
  if kind == "scalar":
    return decode(data, etype)
  vals = [decode(v, etype) for v in data]
  if kind == "stream":
    return Stream(iter(vals))
  if kind == "pstream":
    if etype == "str":   # strings are iterables: Stream("a", "b") would chain
      return Stream(itertools.cycle(vals))
    return Stream(*vals) if len(vals) > 1 else Stream(vals[0])
  if kind == "list":
    return list(vals)
  if kind == "tuple":
    return tuple(vals)
  if kind == "gen":
    return (v for v in vals)
  if kind == "deque":
    return deque(vals)
  if kind == "hub":            # a Stream subclass with its own dunders
    return audiolazy.thub(list(vals), 1)
  if kind == "cstream":        # another Stream subclass, endless
    return ControlStream(vals[0])
  raise ValueError(kind)


def build_model(spec, etype):
  """-> (items up to H, terminal set)  terminal in {'stop','more',ExcName}"""
  kind, data = spec
  if kind == "scalar":
    return [decode(data, etype)] * H, {"more"}
  vals = [decode(v, etype) for v in data]
  if kind == "pstream":
    return [vals[i % len(vals)] for i in range(H)], {"more"}
  if kind == "cstream":
    return [vals[0]] * H, {"more"}
  if len(vals) >= H:
    return vals[:H], {"more"}
  return vals, {"stop"}


def model_bin(func, left, right):
  (li, lt), (ri, rt) = left, right
  n = min(len(li), len(ri))
  out = []
  for i in range(n):
    try:
      out.append(func(li[i], ri[i]))
    except Exception as exc:  # noqa - mirrored from the element operation
      return out, {type(exc).__name__}
  term = set()
  if len(li) == n:
    term |= lt
  if len(ri) == n:
    term |= rt
  if n == H:
    term = {"more"}
  return out, term


def model_un(func, child):
  ci, ct = child
  out = []
  for v in ci:
    try:
      out.append(func(v))
    except Exception as exc:  # noqa
      return out, {type(exc).__name__}
  return out, set(ct)


def observe(result):
  """-> (items, terminal) reading at most H items through plain iteration."""
  it = iter(result)
  out = []
  for _ in range(H):
    try:
      out.append(next(it))
    except StopIteration:
      return out, "stop"
    except Exception as exc:  # noqa
      return out, type(exc).__name__
  return out, "more"


def judge(ctx, case, what, result, want):
  if type(result) is not Stream:
    ctx.violation(what + "/result-not-a-Stream", case,
                  got=type(result).__name__)
    return False
  items, term = observe(result)
  witems, wterm = want
  ctx.count("elements_compared", len(items))
  if not same_list(items, witems):
    key = "/wrong-length" if same_list(items[:len(witems)],
                                       witems[:len(items)]) else "/wrong-element"
    ctx.violation(what + key, case, got=items, want=witems, got_end=term,
                  want_end=sorted(wterm))
    return False
  if term not in wterm:
    ctx.violation(what + "/wrong-termination", case, got=items, got_end=term,
                  want_end=sorted(wterm))
    return False
  if wterm - {"stop", "more"}:
    ctx.count("element-exception-mirrored")
  return True


# ----------------------------------------------------------------------------
# value generators per element type
# ----------------------------------------------------------------------------
ETYPE_OPS = {
  "int": ["add", "sub", "mul", "truediv", "floordiv", "mod", "pow", "rshift",
          "lshift", "and", "or", "xor", "lt", "le", "eq", "ne", "gt", "ge"],
  "float": ["add", "sub", "mul", "truediv", "floordiv", "mod", "pow", "lt",
            "le", "eq", "ne", "gt", "ge"],
  "complex": ["add", "sub", "mul", "truediv", "pow", "eq", "ne"],
  "frac": ["add", "sub", "mul", "truediv", "floordiv", "mod", "pow", "lt",
           "le", "eq", "ne", "gt", "ge"],
  "bool": ["and", "or", "xor", "add", "lt", "le", "eq", "ne", "gt", "ge"],
  "mat": ["matmul", "eq", "ne"],
  "str": ["add", "lt", "le", "eq", "ne", "gt", "ge"],
}
ETYPE_UN = {"int": ["pos", "neg", "invert"], "float": ["pos", "neg"],
            "complex": ["pos", "neg"], "frac": ["pos", "neg"],
            "bool": ["invert", "neg", "pos"]}
FLOATS = [-2.5, -1.0, -0.0, 0.0, 0.5, 1.5, 3.0, 0.1, 1e300, -7.25, inf]


def rval(rng, etype, role="any", op=None):
  if etype == "int":
    if op in ("pow",) and role == "right":
      return rng.choice([0, 1, 2, 3, 2, -1])
    if op in ("rshift", "lshift") and role == "right":
      return rng.choice([0, 1, 2, 5, 3, -1])
    return rng.randint(-6, 6)
  if etype == "float":
    if op == "pow" and role == "right":
      return rng.choice([0.0, 1.0, 2.0, 0.5, -1.0, 3.0])
    return rng.choice(FLOATS)
  if etype == "complex":
    if op == "pow" and role == "right":
      return complex(rng.choice([0, 1, 2, -1]), 0)
    return complex(rng.randint(-3, 3), rng.randint(-3, 3))
  if etype == "frac":
    if op == "pow" and role == "right":
      return Fraction(rng.choice([0, 1, 2, 3, -1, -2]))
    return Fraction(rng.randint(-6, 6), rng.randint(1, 5))
  if etype == "bool":
    return rng.random() < 0.5
  if etype == "mat":
    return rng.randint(-3, 3)
  if etype == "str":
    return rng.choice(["a", "b", "ab", "", "z", "B"])
  raise ValueError(etype)


def rspec(rng, etype, kinds, role="any", op=None, maxlen=6):
  kind = rng.choice(kinds)
  if kind == "scalar":
    if etype == "str":
      kind = "list"    # a str operand is an iterable of characters, not a scalar
    else:
      return ("scalar", rval(rng, etype, role, op))
  if kind in ("pstream", "cstream"):
    return (kind, [rval(rng, etype, role, op)
                   for _ in range(rng.randint(1, 4))])
  n = rng.choice([0, 1, 2, 3, 4, 5, 6, maxlen, H + 2][:8]) if rng.random() < .9 \
      else H + 2
  return (kind, [rval(rng, etype, role, op) for _ in range(n)])


OTHER_KINDS = ["stream", "pstream", "list", "tuple", "gen", "scalar", "deque",
               "hub", "cstream"]
STREAM_KINDS = ["stream", "stream", "pstream"]


def rtree(rng, etype, depth):
  """Random expression tree; every inner node has >= 1 Stream-valued child."""
  ops = [o for o in ETYPE_OPS[etype] if o not in ("matmul",)]
  uns = ETYPE_UN.get(etype, [])
  if etype in ("int", "bool"):
    # comparisons / bitwise results stay ints or bools: everything composes
    pass
  def node(d):
    if d == 0:
      return rspec(rng, etype, STREAM_KINDS)
    r = rng.random()
    if uns and r < 0.15:
      return ("un", rng.choice(uns), node(d - 1))
    op = rng.choice(ops)
    if op in ("pow", "rshift", "lshift"):
      # bounded right operand (a leaf), arbitrary left subtree
      right = rspec(rng, etype, ["list", "scalar", "tuple"], "right", op)
      return ("bin", op, node(d - 1), right)
    a = node(d - 1)
    if rng.random() < 0.5:
      b = node(rng.randint(0, d - 1))
    else:
      b = rspec(rng, etype, OTHER_KINDS)
    if rng.random() < 0.5:
      a, b = b, a
    return ("bin", op, a, b)
  return node(depth)


def cases(ctx):
  rng = ctx.rng
  # (i) every operator method x kind of the other operand, systematically
  i = 0
  for name in ALL_METHODS:
    base = name[1:] if name not in BIN and name not in UN else name
    for etype, ops in sorted(ETYPE_OPS.items()):
      if name in UN:
        continue
      if base not in ops:
        continue
      for kind in OTHER_KINDS:
        for style in ("dunder", "syntax"):
          for rep in range(ctx.pick(2, 12)):
            if ctx.mine(i):
              refl = name not in BIN
              s_role = "right" if refl else "left"
              o_role = "left" if refl else "right"
              sspec = rspec(rng, etype, STREAM_KINDS, s_role, base)
              ospec = rspec(rng, etype, [kind], o_role, base)
              yield ("op", name, style, sspec, ospec, etype)
            i += 1
  for name in UN:
    for etype, uns in sorted(ETYPE_UN.items()):
      if name in uns:
        for style in ("dunder", "syntax"):
          for rep in range(ctx.pick(3, 12)):
            if ctx.mine(i):
              yield ("unop", name, style, rspec(rng, etype, STREAM_KINDS), etype)
            i += 1
  for _ in ctx.loop(100000, 1600000):
    etype = rng.choice(sorted(ETYPE_OPS))
    base = rng.choice(ETYPE_OPS[etype])
    refl = base in REFLECTABLE and rng.random() < 0.5
    yield ("op", ("r" + base) if refl else base,
           rng.choice(["dunder", "syntax"]),
           rspec(rng, etype, STREAM_KINDS, "right" if refl else "left", base),
           rspec(rng, etype, OTHER_KINDS, "left" if refl else "right", base),
           etype)
  # unimplemented element operations: the TypeError must surface element-wise
  for _ in ctx.loop(400, 8000):
    yield ("op", rng.choice(["and", "rshift", "rxor", "matmul", "rmatmul"]),
           rng.choice(["dunder", "syntax"]),
           rspec(rng, "float", STREAM_KINDS), rspec(rng, "float", OTHER_KINDS),
           "float")
  # (ii) random expression trees
  for _ in ctx.loop(40000, 800000):
    etype = rng.choice(["int", "int", "float", "frac", "complex", "bool"])
    yield ("tree", etype, rtree(rng, etype, rng.randint(1, 4)))
  # (iii) element-wise attribute access / call / abs
  for _ in ctx.loop(8000, 100000):
    which = rng.choice(["real", "imag", "conjugate", "numerator", "upper",
                        "zfill", "abs", "bit_length"])
    etype = {"real": "complex", "imag": "complex", "conjugate": "complex",
             "numerator": "frac", "upper": "str", "zfill": "str",
             "abs": rng.choice(["int", "float", "complex", "frac"]),
             "bit_length": "int"}[which]
    yield ("attr", which, rspec(rng, etype, STREAM_KINDS), etype)
  # (iii-b) operators leave a reusable operand usable: several expressions from
  # the same ControlStream object (and direct reads of it in between)
  for _ in ctx.loop(2500, 60000):
    etype = rng.choice(["int", "float", "frac", "complex"])
    ops = []
    for _ in range(rng.randint(2, 5)):
      base = rng.choice([o for o in ETYPE_OPS[etype] if o != "pow"])
      refl = base in REFLECTABLE and rng.random() < 0.5
      ops.append((("r" + base) if refl else base,
                  rval(rng, etype, "right" if not refl else "left", base),
                  rng.choice(["dunder", "syntax"])))
    yield ("reuse", etype, rval(rng, etype), ops, rng.randint(1, 4))
  # (iv) broadcasting functions
  names = sorted(FUNCS)
  j = 0
  for name in names:
    for kind in CONTAINERS:
      for rep in range(ctx.pick(6, 60)):
        if ctx.mine(j):
          dom = FUNCS[name][1]
          n = rng.randint(0, 5)
          vals = [rng.choice(DOMAINS[dom]) for _ in range(n)]
          if kind in ("set", "frozenset") and not FUNCS[name][2]:
            pass
          elif kind == "range" and dom in ("note", "note1", "freq",
                                           "notefreq"):
            pass
          else:
            kw = rng.random() < 0.3 and FUNCS[name][3] is not None
            yield ("func", name, kind, vals, kw)
        j += 1


# ----------------------------------------------------------------------------
# broadcasting function table: name -> (oracle, domain, exact?, kwname)
# ----------------------------------------------------------------------------
def o_log(x, base=None):
  if base is None:
    if x == 0:
      return -inf
    if isinstance(x, complex) or x < 0:
      return cmath.log(x)
    return math.log(x)
  if base <= 0 or base == 1:
    raise ValueError("base")
  if x == 0:
    return -inf
  if isinstance(x, complex) or x < 0:
    return cmath.log(x, base)
  return math.log(x, base)


def o_log1p(x):
  if x == -1:
    return -inf
  if isinstance(x, complex) or x < -1:
    return cmath.log(1 + x)
  return math.log1p(x)


def o_factorial(n):
  if isinstance(n, float) and n.is_integer():
    n = int(n)
  if not isinstance(n, int):
    raise TypeError("non-integer")
  if n < 0:
    raise ValueError("negative")
  return math.factorial(n)


def o_sign(x):
  return 1 if x > 0 else (-1 if x < 0 else 0)


NOTE_OFFS = {"c": 0, "d": 2, "e": 4, "f": 5, "g": 7, "a": 9, "b": 11}
SHARP = ["C", "C#", "D", "D#", "E", "F", "F#", "G", "G#", "A", "A#", "B"]


def o_str2midi(s):
  if s == "?":
    return nan
  t = s.strip().lower()
  k = 1
  acc = 0
  while k < len(t) and t[k] in "b#x":
    acc += {"b": -1, "#": 1, "x": 2}[t[k]]
    k += 1
  return 12 * (int(t[k:]) + 1) + NOTE_OFFS[t[0]] + acc


def o_midi2str(m):
  if math.isinf(m) or math.isnan(m):
    return "?"
  m = int(m)
  return SHARP[m % 12] + str(m // 12 - 1)


def o_midi2freq(m):
  return 440. * 2. ** ((m - 69) / 12.)


def o_freq2midi(f):
  if f == 0:
    return -inf
  if f < 0:
    return nan
  return 12 * math.log2(f / 440.) + 69


FUNCS = {}
_MATH_NAMES = ["acos", "acosh", "asin", "asinh", "atan", "atanh", "ceil",
               "cos", "cosh", "degrees", "erf", "erfc", "exp", "expm1",
               "fabs", "floor", "frexp", "gamma", "isinf", "isnan", "lgamma",
               "modf", "radians", "sin", "sinh", "sqrt", "tan", "tanh",
               "trunc"]
for _n in _MATH_NAMES:
  FUNCS[_n] = (getattr(math, _n), "real", True, None)
FUNCS["absolute"] = (abs, "anynum", True, None)
FUNCS["cexp"] = (cmath.exp, "complex", True, None)
FUNCS["phase"] = (cmath.phase, "complex", True, None)
FUNCS["log"] = (o_log, "lognum", False, "x")
FUNCS["ln"] = (o_log, "lognum", False, "x")
FUNCS["log1p"] = (o_log1p, "lognum", False, "x")
FUNCS["log10"] = (lambda x: o_log(x, 10), "lognum", False, None)
FUNCS["log2"] = (lambda x: o_log(x, 2), "lognum", False, None)
FUNCS["factorial"] = (o_factorial, "fact", True, "n")
FUNCS["dB10"] = (lambda d: 10 * math.log10(abs(d)) if d != 0 else -inf,
                 "anynum", False, "data")
FUNCS["dB20"] = (lambda d: 20 * math.log10(abs(d)) if d != 0 else -inf,
                 "anynum", False, "data")
FUNCS["sign"] = (o_sign, "realx", True, "x")
FUNCS["midi2freq"] = (o_midi2freq, "midi", False, "midi_number")
FUNCS["freq2midi"] = (o_freq2midi, "freq", False, "freq")
FUNCS["str2midi"] = (o_str2midi, "note", True, "note_string")
FUNCS["midi2str"] = (o_midi2str, "midiint", True, "midi_number")
FUNCS["str2freq"] = (lambda s: o_midi2freq(o_str2midi(s)), "note1", False, None)
FUNCS["freq2str"] = (lambda f: o_midi2str(round(o_freq2midi(f))), "notefreq",
                     True, None)

FLAT = ["C", "Db", "D", "Eb", "E", "F", "Gb", "G", "Ab", "A", "Bb", "B"]


def o_midi2str_flat(m):
  r = o_midi2str(m)
  if r == "?":
    return r
  m = int(m)
  return FLAT[m % 12] + str(m // 12 - 1)


# secondary operands (same for every element): name|variant ->
# (library function name, extra positional args, extra keyword args)
EXTRA = {
  "log|base=2": ("log", (), {"base": 2}),
  "log|2": ("log", (2,), {}),
  "log|base=10": ("log", (), {"base": 10}),
  "ln|base=0.5": ("ln", (), {"base": 0.5}),
  "midi2str|sharp=False": ("midi2str", (), {"sharp": False}),
  "midi2str|False": ("midi2str", (False,), {}),
  "midi2str|sharp=True": ("midi2str", (), {"sharp": True}),
}
FUNCS["log|base=2"] = (lambda x: o_log(x, 2), "lognum", False, "x")
FUNCS["log|2"] = (lambda x: o_log(x, 2), "lognum", False, None)
FUNCS["log|base=10"] = (lambda x: o_log(x, 10), "lognum", False, "x")
FUNCS["ln|base=0.5"] = (lambda x: o_log(x, 0.5), "lognum", False, "x")
FUNCS["midi2str|sharp=False"] = (o_midi2str_flat, "midiint", True,
                                 "midi_number")
FUNCS["midi2str|False"] = (o_midi2str_flat, "midiint", True, None)
FUNCS["midi2str|sharp=True"] = (o_midi2str, "midiint", True, "midi_number")

DOMAINS = {
  "real": [-2.5, -1.0, -0.5, 0.0, 0.25, 0.5, 1.0, 1.5, 3.0, 20.0, 2, -1, 0, 1,
           True, 1e-3, 170.5, -170.5],
  "anynum": [-2.5, 0.0, 0.5, 3, -4, 0, 1 + 2j, -3j, Fraction(-3, 4), True,
             1e-300, 100.0],
  "complex": [0.5, -1.0, 1 + 2j, -3j, 0j, 2, 0.0, -0.5 + 0.25j],
  "lognum": [0, 0.0, 1, 2.5, -1.0, -1, 1 + 1j, 10, 100.0, 1e-9, 0.5, 8, -2.5,
             2j],
  "fact": [0, 1, 2, 5, 10, 3.0, 20, 0.0, -1, 2.5, 30, -3.0],
  "realx": [-2.5, 0.0, -0.0, 3, 0, -7, Fraction(1, 3), Fraction(-1, 3), True,
            inf, -inf],
  "midi": [69, 60, 0, 127, 57.5, 69.0, -12, Fraction(121, 2)],
  "freq": [440., 880., 220., 1., 27.5, 0, -440., 261.6255653005986, 440],
  "note": ["A4", "C4", "Bb3", "C#5", "?", "a4", " g2 ", "Cx2", "Dbb4", "B-1",
           "F#10"],
  "note1": ["A4", "C4", "Bb3", "C#5", "a4", "E2", "G9"],
  "midiint": [69, 60, 0, 127, 21, 69.0, 61, inf, nan, 12, 11],
  "notefreq": [440., 880., 220., 27.5, 55., 261.6255653005986,
               o_midi2freq(61), o_midi2freq(100), o_midi2freq(13)],
}
CONTAINERS = ["scalar", "list", "tuple", "deque", "set", "frozenset", "stream",
              "cstream", "gen", "range", "map", "filter", "zip", "enumerate"]
LAZY = ("gen", "map", "filter", "zip", "enumerate", "range")


def close(a, b, ctx, name):
  """Toleranced equality for re-stated functions (1e-12 relative)."""
  if same(a, b):
    return True
  try:
    if isinstance(a, (int, float, complex)) and isinstance(b, (int, float,
                                                               complex)):
      if isinstance(a, complex) != isinstance(b, complex):
        return False
      d = abs(a - b)
      tol = 1e-12 * max(1.0, abs(a), abs(b))
      ctx.err("restated:" + name, d, tol)
      return d <= tol
  except Exception:  # noqa
    pass
  return False


def apply_oracle(fn, v):
  try:
    return ("val", fn(v))
  except Exception as exc:  # noqa
    return ("exc", type(exc).__name__)


def run_func(ctx, case):
  _, name, kind, vals, kw = case
  oracle, dom, exact, kwname = FUNCS[name]
  if name in EXTRA:
    fname, xargs, xkw = EXTRA[name]
    f0 = getattr(audiolazy, fname)
    ctx.count("secondary-operand")
    if kw:
      call = lambda a: f0(**dict(xkw, **{kwname: a}))
    else:
      call = lambda a: f0(a, *xargs, **xkw)
  else:
    f = getattr(audiolazy, name)
    call = (lambda a: f(**{kwname: a})) if kw else f
  eq = same if exact else (lambda a, b: close(a, b, ctx, name))
  ctx.count("func:" + name)
  ctx.count("container:" + kind)

  def call_elem(fn_, *a):
    try:
      return ("val", fn_(*a))
    except Exception as exc:  # noqa
      return ("exc", type(exc).__name__)

  def check_elem(got, v, pos):
    want = apply_oracle(oracle, v)
    if got[0] != want[0] or (got[0] == "exc" and got[1] != want[1]) or \
       (got[0] == "val" and not eq(got[1], want[1])):
      ctx.violation("func/%s/wrong-value" % name, case, index=pos, arg=v,
                    got=got, want=want)
      return False
    if kind != "scalar" and got[0] == "val":
      # "the i-th output equals the function applied to the i-th element":
      # the element of the container result and the scalar call on the same
      # element must be the very same value (type and bits), whatever the
      # tolerance of my own re-statement of the function
      alone = call_elem(call, v)
      ctx.count("element-vs-scalar-call")
      if alone[0] != "val" or not same(alone[1], got[1]):
        ctx.violation("func/%s/element-differs-from-scalar-call" % name, case,
                      index=pos, arg=v, in_container=got, alone=alone)
        return False
    return True

  if kind == "scalar":
    for v in vals[:2] or [DOMAINS[dom][0]]:
      got = call_elem(call, v)
      if got[0] == "val" and isinstance(got[1], (list, types.GeneratorType,
                                                 Stream)):
        ctx.violation("func/scalar-in-container-out", case, got=got)
        return True
      if not check_elem(got, v, 0):
        return True
    return True

  if kind in ("list", "tuple", "deque", "set", "frozenset"):
    ctor = {"list": list, "tuple": tuple, "deque": deque, "set": set,
            "frozenset": frozenset}[kind]
    if kind in ("set", "frozenset"):
      vals = [v for v in vals if not (isinstance(v, float) and v != v)]
    arg = ctor(vals)
    wants = [apply_oracle(oracle, v) for v in arg]
    firstexc = next((w[1] for w in wants if w[0] == "exc"), None)
    got = call_elem(call, arg)
    if firstexc is not None:
      if got != ("exc", firstexc):
        ctx.violation("func/%s/wrong-exception" % name, case, got=got,
                      want=firstexc)
      return True
    if got[0] != "val":
      ctx.violation("func/%s/unexpected-exception" % name, case, got=got)
      return True
    res = got[1]
    if type(res) is not ctor:
      ctx.violation("func/container-kind-changed", case,
                    got=type(res).__name__, want=kind)
      return True
    if kind in ("set", "frozenset"):
      wantset = ctor(w[1] for w in wants)
      canon = lambda c: sorted((type(v).__name__, repr(v)) for v in c)
      if canon(res) != canon(wantset):
        ctx.violation("func/%s/wrong-value" % name, case, got=res,
                      want=wantset)
      return True
    if len(res) != len(wants):
      ctx.violation("func/wrong-length", case, got=list(res))
      return True
    for pos, (g, v) in enumerate(zip(res, arg)):
      if not check_elem(("val", g), v, pos):
        return True
    return len(vals) > 0

  # lazy kinds and Streams: a Probe counts what the function pulls
  probe = Probe(list(vals))
  if kind == "stream":
    arg = Stream(probe)
    seq = list(vals)
  elif kind == "cstream":
    v0 = vals[0] if vals else DOMAINS[dom][0]
    arg = ControlStream(v0)
    seq = [v0] * 4
    probe = None
  elif kind == "gen":
    arg = (v for v in probe)
    seq = list(vals)
  elif kind == "map":
    arg = map(lambda v: v, probe)
    seq = list(vals)
  elif kind == "filter":
    arg = filter(lambda v: True, probe)
    seq = list(vals)
  elif kind == "zip":
    arg = zip(probe, itertools.repeat(0))
    seq = [(v, 0) for v in vals]
  elif kind == "enumerate":
    arg = enumerate(probe)
    seq = list(enumerate(vals))
  elif kind == "range":
    arg = range(0, len(vals))
    seq = list(arg)
    probe = None
  got = call_elem(call, arg)
  if got[0] != "val":
    ctx.violation("func/%s/raised-at-call-on-lazy-input" % name, case, got=got)
    return True
  res = got[1]
  if kind in ("stream", "cstream"):
    if not isinstance(res, Stream):
      ctx.violation("func/container-kind-changed", case,
                    got=type(res).__name__, want="Stream")
      return True
  elif not isinstance(res, types.GeneratorType):
    ctx.violation("func/lazy-input-not-a-generator", case,
                  got=type(res).__name__)
    return True
  if probe is not None and probe.pulls != 0:
    ctx.violation("func/lazy-input-read-at-call", case, pulls=probe.pulls)
    return True
  it = iter(res)
  if kind in ("zip", "enumerate"):
    # elements are tuples: only laziness is judged (one source item per
    # requested output), not the values
    if seq:
      call_elem(next, it)
      ctx.count("lazy-element-compared")
      if probe.pulls != 1:
        ctx.violation("func/lazy-input-read-ahead", case, pulls=probe.pulls,
                      outputs=1)
    return len(seq) > 0
  for pos, v in enumerate(seq):
    got = call_elem(next, it)
    ctx.count("lazy-element-compared")
    if not check_elem(got, v, pos):
      return True
    if probe is not None and probe.pulls != pos + 1:
      ctx.violation("func/lazy-input-read-ahead", case, pulls=probe.pulls,
                    outputs=pos + 1)
      return True
    if got[0] == "exc":
      return True
  if kind != "cstream":
    end = call_elem(next, it)
    if end != ("exc", "StopIteration"):
      ctx.violation("func/wrong-length", case, extra=end)
  return len(seq) > 0


def eval_tree(tree, etype):
  """-> (real object, model)"""
  if tree[0] == "bin":
    _, op, a, b = tree
    ra, ma = eval_tree(a, etype)
    rb, mb = eval_tree(b, etype)
    return BIN[op](ra, rb), model_bin(BIN[op], ma, mb)
  if tree[0] == "un":
    _, op, a = tree
    ra, ma = eval_tree(a, etype)
    return UN[op](ra), model_un(UN[op], ma)
  return build_real(tree, etype), build_model(tree, etype)


def tree_depth(tree):
  if tree[0] == "bin":
    return 1 + max(tree_depth(tree[2]), tree_depth(tree[3]))
  if tree[0] == "un":
    return 1 + tree_depth(tree[2])
  return 0


def run_case(ctx, case):
  kind = case[0]
  if kind == "op":
    _, name, style, sspec, ospec, etype = case
    refl = name not in BIN
    base = name[1:] if refl else name
    func = BIN[base]
    s = build_real(sspec, etype)
    o = build_real(ospec, etype)
    ms, mo = build_model(sspec, etype), build_model(ospec, etype)
    ctx.count("method:" + name)
    ctx.count("other-kind:" + ospec[0])
    ctx.count("etype:" + etype)
    dname = "__%s__" % name
    if not hasattr(Stream, dname):
      ctx.violation("operator/missing-dunder", case, dunder=dname)
      return True
    if style == "syntax" and refl and base == "pow" and etype == "frac" \
       and ospec[0] == "scalar":
      # Fraction.__pow__ itself turns a Fraction base into a float before
      # Python reaches the Stream's reflected method - not the library's doing
      style = "dunder"
    if style == "dunder":
      res = getattr(s, dname)(o)
    else:
      # real Python dispatch; for a reflected method the Stream is on the right
      res = func(o, s) if refl else func(s, o)
      ctx.count("syntax-form")
    want = model_bin(func, mo, ms) if refl else model_bin(func, ms, mo)
    ok = judge(ctx, case, "operator/" + name, res, want)
    if ok and sspec[0] == "pstream" and want[1] == {"stop"}:
      ctx.count("periodic-truncated-by-finite")
    if ok and not want[0]:
      ctx.count("empty-result")
    return bool(want[0])

  if kind == "unop":
    _, name, style, sspec, etype = case
    s = build_real(sspec, etype)
    ctx.count("method:" + name)
    res = getattr(s, "__%s__" % name)() if style == "dunder" else UN[name](s)
    want = model_un(UN[name], build_model(sspec, etype))
    judge(ctx, case, "operator/" + name, res, want)
    return bool(want[0])

  if kind == "tree":
    _, etype, tree = case
    res, want = eval_tree(tree, etype)
    ctx.count("tree-depth:%d" % tree_depth(tree))
    judge(ctx, case, "tree", res, want)
    return bool(want[0])

  if kind == "attr":
    _, which, sspec, etype = case
    s = build_real(sspec, etype)
    m = build_model(sspec, etype)
    ctx.count("attr:" + which)
    if which == "abs":
      res = abs(s)
      want = model_un(abs, m)
    elif which in ("real", "imag", "numerator"):
      res = getattr(s, which)
      want = model_un(operator.attrgetter(which), m)
    elif which == "zfill":
      res = s.zfill(3)
      want = model_un(lambda v: v.zfill(3), m)
    else:
      res = getattr(s, which)()
      want = model_un(operator.methodcaller(which), m)
    judge(ctx, case, "elementwise-attr/" + which, res, want)
    return bool(want[0])

  if kind == "reuse":
    _, etype, value, ops, nread = case
    cs = ControlStream(value)
    results = []
    for name, scalar, style in ops:
      refl = name not in BIN
      func = BIN[name[1:] if refl else name]
      if style == "dunder":
        res = getattr(cs, "__%s__" % name)(scalar)
      else:
        res = func(scalar, cs) if refl else func(cs, scalar)
      if res is cs:
        ctx.violation("operator/%s/returns-its-operand" % name, case)
        return True
      results.append((name, func, refl, scalar, res))
    ctx.count("reused-operand-expressions", len(results))
    # every expression (in any order) and the operand itself still yield their own
    direct = list(itertools.islice(iter(cs), nread))
    if not same_list(direct, [value] * nread):
      ctx.violation("operator/operand-altered-by-building-an-expression", case,
                    got=direct, want=[value] * nread)
      return True
    for name, func, refl, scalar, res in reversed(results):
      try:
        want = func(scalar, value) if refl else func(value, scalar)
        wterm = None
      except Exception as exc:  # noqa
        want, wterm = None, type(exc).__name__
      items, term = observe(itertools.islice(iter(res), nread))
      if wterm is not None:
        if term != wterm:
          ctx.violation("operator/%s/reused-operand-wrong-exception" % name,
                        case, got=term, want=wterm)
          return True
        continue
      if not same_list(items, [want] * nread):
        ctx.violation("operator/%s/wrong-element-after-operand-reuse" % name,
                      case, got=items, want=[want] * nread)
        return True
    return True

  if kind == "func":
    return run_func(ctx, case)
  raise ValueError(kind)


def finish(ctx):
  for name in ALL_METHODS:
    ctx.need("method:" + name, 10)
  for k in OTHER_KINDS:
    ctx.need("other-kind:" + k, 50)
  for e in ETYPE_OPS:
    ctx.need("etype:" + e, 10)
  ctx.need("syntax-form", 200)
  ctx.need("periodic-truncated-by-finite", 20)
  ctx.need("empty-result", 20)
  ctx.need("element-exception-mirrored", 20)
  for d in (1, 2, 3, 4):
    ctx.need("tree-depth:%d" % d, 100)
  for n in FUNCS:
    ctx.need("func:" + n, 5)
  for c in CONTAINERS:
    ctx.need("container:" + c, 20)
  ctx.need("lazy-element-compared", 100)
  ctx.need("secondary-operand", 100)
  ctx.need("reused-operand-expressions", 500)
  ctx.flag("cov.operator_methods_in_library_table",
           len(list(OpMethod.get("all"))))


from props import c01_x as _x, ext as _ext  # noqa: E402
_ext.install(globals(), _x)
