META = {
  "rule":
    "cases are (function, input, order, call style): levinson_durbin on "
    "autocorrelation vectors built exactly from rational reflection "
    "coefficients |k| <= 0.9 (orders 1..8) or from the exact lag sums of "
    "rational blocks (length 2..16, possibly truncated), with order None / "
    "1..len-1 / >= len(r) (zero extension), handed over as Fractions, floats "
    "or ints; lpc.kautocor and lpc.kcovar on rational / int / dyadic-float / "
    "structured (near-constant, alternating, geometric, ramp) blocks of "
    "length 2..16; acorr, lag_matrix and toeplitz on such blocks. Every "
    "block in {-1,0,1}^n, n = 2..4, with every order is enumerated on each "
    "run. A case is non-trivial when the code returned a filter (or table) "
    "inside the judged domain and it was compared; distinct = distinct case "
    "descriptions (hash of repr)",
  "assumptions": [
    "'autocorrelation sequence' is read as: the exact rational Levinson "
    "recursion on the (zero-extended) r has r0 > 0, |k_m| < 1 for m < p and "
    "|k_p| <= 1; sequences outside (indefinite, e.g. most truncated-then-"
    "zero-extended r) and inputs on which the exact recursion divides by "
    "zero are counted, not judged",
    "float outputs are judged by the backward error of the normal equations "
    "with relative tolerance 1e-9 of the sum of absolute terms (worst seen "
    "on the unchanged tree < 1e-14); instances with prod(1+|k|) > 1e4 or "
    "min E_m/r0 < 1e-9 would not be judged (none is generated)",
    "lpc.kcovar raising ValueError('Unstable filter') or ZeroDivisionError is "
    "'does not return'; on blocks whose covariance matrix has an exactly "
    "zero pivot (exact recursion divides by zero) a returned filter is "
    "counted but not judged; lag_matrix / lpc.kcovar with order >= len(blk) "
    "(documented ValueError) is not generated",
    "the numpy-based strategies (lpc.autocor, nautocor, covar) are not "
    "exercised: numpy is absent"],
  "level_text":
    "Runtime monitoring of the real levinson_durbin, lpc.kautocor, "
    "lpc.kcovar, acorr, lag_matrix and toeplitz: each returned filter's "
    "numerator and error attribute are converted exactly to rationals and "
    "the defining normal equations (Toeplitz rows; energy gradient of a "
    "convolved with the zero-extended block; covariance rows over n >= p) "
    "and the error identity are evaluated in exact integer arithmetic "
    "against an explicit 1e-9 relative backward-error bound, plus a forward "
    "comparison with an exact rational Levinson recursion on well-"
    "conditioned instances; acorr / lag_matrix / toeplitz are compared with "
    "== against independently written plain sums. Sampled inputs (small "
    "ternary blocks exhaustively): evidence for the executions observed, "
    "not a proof for all inputs; float rounding is bounded, not excluded. "
    "All-Fraction lags / blocks (reflection coefficients a hair inside "
    "(-1, 1), lags outside the float range, binomial blocks) are a "
    "separate class: every normal equation and the error identity must "
    "hold with ==.",
  "technique": "runtime monitor: exact-rational residuals of the normal "
               "equations (backward error) + exact Levinson / plain-sum "
               "oracles, exhaustive ternary blocks + random cases",
  "soft_s": {"quick": 25, "thorough": 240},
}

# EXTENSION families added after the seeded-change rounds
META["rule"] += (" Added after the seeded-change rounds: " '(c10_x) blocks of 129..400 small integers: acorr / lag_matrix exact, kautocor normal equations; blocks rescaled by 2^-34..10^6' ".")
