"""Shared oracle code for the filter properties C04, C05, C06: exact
difference-equation recursion on Lin shadow samples and a small rational
function model over {delay: Fraction} dicts (delay k stands for z**-k)."""
import itertools
from fractions import Fraction

from vlib.inst import Lin, frac

H = 64


# ----------------------------------------------------------------------------
# polynomials in z^-1 as {delay: Fraction}
# ----------------------------------------------------------------------------
def pclean(p):
  return {k: v for k, v in p.items() if v != 0}


def padd(p, q):
  r = dict(p)
  for k, v in q.items():
    r[k] = r.get(k, 0) + v
  return pclean(r)


def pneg(p):
  return {k: -v for k, v in p.items()}


def pmul(p, q):
  r = {}
  for k1, v1 in p.items():
    for k2, v2 in q.items():
      r[k1 + k2] = r.get(k1 + k2, 0) + v1 * v2
  return pclean(r)


def pscale(p, c):
  return pclean({k: v * c for k, v in p.items()})


def ppow(p, n):
  r = {0: Fraction(1)}
  for _ in range(n):
    r = pmul(r, p)
  return r


def peval(p, zinv):
  """value at z^-1 = zinv"""
  return sum((v * zinv ** k for k, v in p.items()), Fraction(0))


def fracdict(d):
  return pclean({k: frac(v) for k, v in d.items()})


class RF(object):
  """Rational function num/den in z^-1 (exact)."""
  def __init__(self, num, den=None):
    self.num = pclean(dict(num))
    self.den = pclean(dict(den)) if den is not None else {0: Fraction(1)}
    if not self.den:
      raise ZeroDivisionError("zero denominator")

  @staticmethod
  def const(c):
    return RF({0: frac(c)})

  def __add__(self, o):
    return RF(padd(pmul(self.num, o.den), pmul(o.num, self.den)),
              pmul(self.den, o.den))

  def __neg__(self):
    return RF(pneg(self.num), self.den)

  def __sub__(self, o):
    return self + (-o)

  def __mul__(self, o):
    return RF(pmul(self.num, o.num), pmul(self.den, o.den))

  def __truediv__(self, o):
    if not o.num:
      raise ZeroDivisionError("division by the zero filter")
    return RF(pmul(self.num, o.den), pmul(self.den, o.num))

  def __pow__(self, n):
    return RF(ppow(self.num, n), ppow(self.den, n))

  def same(self, o):
    return pmul(self.num, o.den) == pmul(o.num, self.den)

  def value(self, zinv):
    d = peval(self.den, zinv)
    if d == 0:
      return None
    return peval(self.num, zinv) / d

  def normalised(self):
    """(num, den) shifted so that the lowest denominator delay is 0."""
    p = min(self.den)
    return ({k - p: v for k, v in self.num.items()},
            {k - p: v for k, v in self.den.items()})

  def causal(self):
    num, den = self.normalised()
    return all(k >= 0 for k in num)

  def __repr__(self):
    return "RF(%r / %r)" % (self.num, self.den)


# ----------------------------------------------------------------------------
# difference-equation oracle
# ----------------------------------------------------------------------------
def coef_at(c, n):
  """Coefficient value at sample n; c is a number, ("fin", [..]) or
  ("per", [..]).  Returns None when a finite coefficient stream has ended."""
  if isinstance(c, tuple):
    kind, vals = c
    if kind == "per":
      return vals[n % len(vals)]
    if n >= len(vals):
      return None
    return vals[n]
  return c


def recursion(num, den, x, mem, zero):
  """Outputs of a0[n] y[n] = sum_k b_k[n] x[n-k] - sum_{k>=1} a_k[n] y[n-k]
  with x[<0] = zero and y[-k] = mem[k-1] (zero when mem is None or short).
  num/den: {delay>=0: coefficient spec}.  Ends with the input or with the
  first coefficient stream that ends."""
  zero_l = zero
  ys = []
  for n in range(len(x)):
    acc = Lin()
    cn = {k: coef_at(c, n) for k, c in num.items()}
    cd = {k: coef_at(c, n) for k, c in den.items()}
    if any(v is None for v in cn.values()) or \
       any(v is None for v in cd.values()):
      break
    for k, b in cn.items():
      xv = x[n - k] if n - k >= 0 else zero_l
      acc = acc + Lin.lift(xv) * frac(b)
    for k, a in cd.items():
      if k == 0:
        continue
      if n - k >= 0:
        yv = ys[n - k]
      else:
        idx = k - n - 1          # y[-1] is mem[0]
        yv = mem[idx] if (mem is not None and idx < len(mem)) else zero_l
      acc = acc - Lin.lift(yv) * frac(a)
    ys.append(acc / frac(cd[0]))
  return ys


def to_lin(v):
  return Lin.lift(v)


def lin_list_equal(got, want):
  if len(got) != len(want):
    return False
  for g, w in zip(got, want):
    try:
      if not (Lin.lift(g) == w):
        return False
    except TypeError:
      return False
  return True


def syms(prefix, n):
  return [Lin.sym("%s%d" % (prefix, i)) for i in range(n)]
