"""Controlled random scheduler + fake PyAudio backend for lazy_io (C17).

Real AudioIO / AudioThread code runs on real threads, but only one *managed*
thread runs at a time: every synchronisation operation (shim Lock / Event,
thread start / join / end) and every device call is a yield point where a
seeded chooser decides who continues.  Deadlock (no enabled thread) is detected
exactly; livelock as a bound on logical steps.  Nothing here looks at a clock.
"""
import os
import struct
import sys
import threading
import types

_real_threading = threading


class SchedAbort(BaseException):
  """Raised inside managed threads to unwind a scenario that was aborted."""


class TState(object):
  __slots__ = ("tid", "name", "gate", "status", "pred", "unwinding", "exc",
               "blocked_on", "steps")

  def __init__(self, tid, name):
    self.tid = tid
    self.name = name
    self.gate = _real_threading.Semaphore(0)
    self.status = "ready"
    self.pred = None
    self.unwinding = False
    self.exc = None
    self.blocked_on = None
    self.steps = 0


class Scheduler(object):
  def __init__(self, chooser, max_steps=5000, keep_trace=400):
    self.chooser = chooser
    self.max_steps = max_steps
    self.by_ident = {}
    self.order = []
    self.pending = {}
    self.steps = 0
    self.switches = 0
    self.aborted = None
    self.trace = []
    self.keep_trace = keep_trace
    self.active = True
    self.choices = []

  # -- registration ----------------------------------------------------------
  def register_current(self, name):
    st = TState(len(self.order), name)
    st.status = "running"
    self.order.append(st)
    self.by_ident[_real_threading.get_ident()] = st
    return st

  def me(self):
    if not self.active:
      return None
    return self.by_ident.get(_real_threading.get_ident())

  def new_thread(self, thread_obj, name):
    st = TState(len(self.order), name)
    self.order.append(st)
    self.pending[id(thread_obj)] = st
    return st

  # -- core --------------------------------------------------------------------
  def _enabled(self):
    out = []
    for t in self.order:
      if t.status == "ready":
        out.append(t)
      elif t.status == "blocked" and t.pred():
        out.append(t)
    return out

  def _record(self, st, label):
    self.steps += 1
    st.steps += 1
    if len(self.trace) < self.keep_trace:
      self.trace.append((st.tid, label))
    elif len(self.trace) == self.keep_trace:
      self.trace.append((-1, "...trace truncated..."))
    self.tail = getattr(self, "tail", [])
    self.tail.append((st.tid, label))
    if len(self.tail) > 60:
      del self.tail[0]

  def abort(self, reason, current=None):
    if self.aborted is None:
      self.aborted = reason
      self.abort_state = [(t.tid, t.name, t.status, t.blocked_on)
                          for t in self.order]
    for t in self.order:
      if t is not current and t.status != "done":
        t.gate.release()

  def switch(self, label, pred=None, blocked_on=None):
    """Yield point.  With ``pred`` the calling thread blocks until pred()."""
    st = self.me()
    if st is None:
      return
    if self.aborted:
      if st.unwinding:
        return
      st.unwinding = True
      raise SchedAbort(self.aborted)
    self._record(st, label)
    if self.steps > self.max_steps:
      self.abort("step-bound", st)
      st.unwinding = True
      raise SchedAbort(self.aborted)
    if pred is not None:
      # a conditional yield point stays conditional until the thread is
      # actually resumed: the predicate is re-evaluated at every choice, so a
      # lock that was free when the thread arrived but has been taken since
      # does not let it through (acquisition is atomic with being chosen)
      st.status, st.pred, st.blocked_on = "blocked", pred, blocked_on or label
    else:
      st.status, st.pred, st.blocked_on = "ready", None, None
    enabled = self._enabled()
    if not enabled:
      self.abort("deadlock", st)
      st.unwinding = True
      raise SchedAbort(self.aborted)
    nxt = self.chooser(enabled, st)
    self.choices.append(nxt.tid)
    nxt.status, nxt.pred, nxt.blocked_on = "running", None, None
    if nxt is st:
      return
    self.switches += 1
    nxt.gate.release()
    st.gate.acquire()
    if self.aborted:
      st.unwinding = True
      raise SchedAbort(self.aborted)

  def thread_done(self, st):
    st.status = "done"
    if self.aborted:
      return
    self._record(st, "thread-end")
    enabled = self._enabled()
    if not enabled:
      if any(t.status != "done" for t in self.order):
        self.abort("deadlock", st)
      return
    nxt = self.chooser(enabled, st)
    self.choices.append(nxt.tid)
    nxt.status, nxt.pred, nxt.blocked_on = "running", None, None
    self.switches += 1
    nxt.gate.release()

  def all_others_done(self, st):
    return all(t.status == "done" for t in self.order if t is not st)


SCHED = None     # the scheduler of the scenario in progress (or None)
FREE_DELAY = None  # free-running mode: callable invoked before each device call


def _sched():
  return SCHED


# ----------------------------------------------------------------------------
# threading shim used as audiolazy.lazy_io.threading
# ----------------------------------------------------------------------------
class SLock(object):
  _count = 0

  def __init__(self):
    SLock._count += 1
    self.name = "L%d" % SLock._count
    self._locked = False
    self.owner = None

  def acquire(self, blocking=True, timeout=-1):
    s = _sched()
    if s is not None and s.me() is not None:
      s.switch("acquire " + self.name, pred=lambda: not self._locked,
               blocked_on="lock " + self.name)
      self.owner = s.me().tid
    self._locked = True
    return True

  def release(self):
    self._locked = False
    self.owner = None
    s = _sched()
    if s is not None and s.me() is not None:
      s.switch("release " + self.name)

  def locked(self):
    return self._locked

  def __enter__(self):
    self.acquire()
    return self

  def __exit__(self, *exc):
    self.release()
    return False


class SEvent(object):
  _count = 0

  def __init__(self):
    SEvent._count += 1
    self.name = "E%d" % SEvent._count
    self._flag = False

  def is_set(self):
    s = _sched()
    if s is not None and s.me() is not None:
      s.switch("is_set " + self.name)
    return self._flag
  isSet = is_set

  def set(self):
    s = _sched()
    if s is not None and s.me() is not None:
      s.switch("set " + self.name)
    self._flag = True

  def clear(self):
    s = _sched()
    if s is not None and s.me() is not None:
      s.switch("clear " + self.name)
    self._flag = False

  def wait(self, timeout=None):
    s = _sched()
    if s is not None and s.me() is not None:
      s.switch("wait " + self.name, pred=lambda: self._flag,
               blocked_on="event " + self.name)
    return self._flag


class SCondition(object):
  """threading.Condition over a shim lock: wait() releases the lock, blocks
  until notified, re-acquires."""
  _count = 0

  def __init__(self, lock=None):
    SCondition._count += 1
    self.name = "C%d" % SCondition._count
    self._lock = lock if lock is not None else SLock()
    self._waiters = []
    self.acquire = self._lock.acquire
    self.release = self._lock.release

  def __enter__(self):
    self._lock.acquire()
    return self

  def __exit__(self, *exc):
    self._lock.release()
    return False

  def wait(self, timeout=None):
    token = [False]
    self._waiters.append(token)
    self._lock.release()
    s = _sched()
    if s is not None and s.me() is not None:
      if timeout is None:
        s.switch("cond-wait " + self.name, pred=lambda: token[0],
                 blocked_on="condition " + self.name)
      else:               # a timed wait may return un-notified at any time
        s.switch("cond-timed-wait " + self.name)
    if not token[0] and token in self._waiters:
      self._waiters.remove(token)
    self._lock.acquire()
    return token[0]

  def wait_for(self, predicate, timeout=None):
    result = predicate()
    while not result:
      self.wait(timeout)
      result = predicate()
      if timeout is not None:
        break
    return result

  def notify(self, n=1):
    s = _sched()
    if s is not None and s.me() is not None:
      s.switch("notify " + self.name)
    for token in self._waiters[:n]:
      token[0] = True
    del self._waiters[:n]

  def notify_all(self):
    self.notify(len(self._waiters))
  notifyAll = notify_all


class SSemaphore(object):
  _count = 0

  def __init__(self, value=1):
    SSemaphore._count += 1
    self.name = "S%d" % SSemaphore._count
    self._value = value

  def acquire(self, blocking=True, timeout=None):
    s = _sched()
    if s is not None and s.me() is not None:
      if blocking and timeout is None:
        s.switch("sem-acquire " + self.name, pred=lambda: self._value > 0,
                 blocked_on="semaphore " + self.name)
      else:
        s.switch("sem-try-acquire " + self.name)
        if self._value <= 0:
          return False
    self._value -= 1
    return True

  def release(self, n=1):
    self._value += n
    s = _sched()
    if s is not None and s.me() is not None:
      s.switch("sem-release " + self.name)

  def __enter__(self):
    self.acquire()
    return self

  def __exit__(self, *exc):
    self.release()
    return False


class SRLock(SLock):
  """Re-entrant variant (owner + depth)."""
  def __init__(self):
    SLock.__init__(self)
    self._depth = 0
    self._owner_ident = None

  def acquire(self, blocking=True, timeout=-1):
    me = _real_threading.get_ident()
    if self._locked and self._owner_ident == me:
      self._depth += 1
      return True
    SLock.acquire(self, blocking, timeout)
    self._owner_ident, self._depth = me, 1
    return True

  def release(self):
    self._depth -= 1
    if self._depth == 0:
      self._owner_ident = None
      SLock.release(self)


def make_shim():
  shim = types.ModuleType("threading_shim")
  for name in dir(_real_threading):
    if not name.startswith("__"):
      setattr(shim, name, getattr(_real_threading, name))
  shim.Lock = SLock
  shim.RLock = SRLock
  shim.Event = SEvent
  shim.Condition = SCondition
  shim.Semaphore = shim.BoundedSemaphore = SSemaphore
  return shim


# ----------------------------------------------------------------------------
# fake PyAudio backend
# ----------------------------------------------------------------------------
def rec_sample(device_index, k):
  return ((k * 5 + device_index * 11) % 64 - 32) / 16.0    # exact in float32


class FakeDevStream(object):
  def __init__(self, pa, kwargs):
    self.pa = pa
    self.kwargs = kwargs
    self.log = []          # ("write", bytes, nframes) / ("stop",) / ...
    self.closed = 0
    self.calls_after_close = []
    self._stream = self     # what AudioThread hands to _portaudio.write_stream
    self.index = len(pa.all_streams)

  def _call(self, what, *args):
    s = _sched()
    if s is not None and s.me() is not None:
      s.switch("dev%d.%s" % (self.index, what))
    elif FREE_DELAY is not None:
      FREE_DELAY()
    if self.closed or self.pa.terminated:
      self.calls_after_close.append((what, "terminated" if self.pa.terminated
                                     else "closed"))
    self.log.append((what,) + args)

  def write(self, data, nframes=None, *a, **k):
    self._call("write", bytes(data), nframes)

  def read(self, nframes, *a, **k):
    """Input streams: frames are numbered per device so that a recording can
    be compared with what the device delivered (float32, mono)."""
    self._call("read", nframes)
    start = getattr(self, "frames_read", 0)
    self.frames_read = start + nframes
    return struct.pack("%df" % nframes, *[
      rec_sample(self.index, start + i) for i in range(nframes)])

  def stop_stream(self):
    self._call("stop")

  def start_stream(self):
    self._call("start")

  def is_active(self):
    return not self.closed

  def close(self):
    self._call("close")
    self.closed += 1
    self.pa._streams.discard(self)


class FakePyAudio(object):
  instances = []

  def __init__(self):
    self._streams = set()
    self.all_streams = []
    self.terminated = 0
    FakePyAudio.instances.append(self)

  def open(self, **kwargs):
    s = _sched()
    if s is not None and s.me() is not None:
      s.switch("pa.open")
    st = FakeDevStream(self, kwargs)
    self.all_streams.append(st)
    self._streams.add(st)
    if self.terminated:
      st.calls_after_close.append(("open", "terminated"))
    return st

  def terminate(self):
    s = _sched()
    if s is not None and s.me() is not None:
      s.switch("pa.terminate")
    self.terminated += 1

  def get_host_api_count(self):
    return 0


def install_fake_backend():
  pyaudio = types.ModuleType("pyaudio")
  pyaudio.PyAudio = FakePyAudio
  pyaudio.paFloat32, pyaudio.paInt32, pyaudio.paInt16 = 1, 2, 8
  pyaudio.paInt8, pyaudio.paUInt8 = 16, 32
  portaudio = types.ModuleType("_portaudio")

  def write_stream(st, data, nframes, exc_on_underflow=False):
    st._call("write", bytes(data), nframes)
  portaudio.write_stream = write_stream
  sys.modules["pyaudio"] = pyaudio
  sys.modules["_portaudio"] = portaudio
  return pyaudio, portaudio


# ----------------------------------------------------------------------------
# running library code under the scheduler
# ----------------------------------------------------------------------------
class Harness(object):
  """Context manager: installs shim + wrappers around AudioThread for one
  scenario and restores everything afterwards."""
  def __init__(self, lazy_io, chooser, max_steps=5000, line_level=False,
               line_budget=None):
    self.lazy_io = lazy_io
    self.sched = Scheduler(chooser, max_steps)
    self.line_level = line_level
    # logical bound on the library lines one thread may execute between two
    # yield points: a loop that spins without ever reaching a synchronisation
    # point or a device call is not a deadlock the scheduler can see and must
    # not be left to a wall-clock watchdog
    self.line_budget = line_budget
    self.lines_since_yield = 0
    self.thread_errors = []
    self.player_threads = []
    self.extra_threads = []

  def __enter__(self):
    global SCHED
    lio = self.lazy_io
    sched = self.sched
    AT = lio.AudioThread
    self.saved = (lio.threading, AT.start, AT.run, AT.join)
    orig_start, orig_run, orig_join = AT.start, AT.run, AT.join
    harness = self
    lio.threading = make_shim()

    def start(thread):
      if sched.me() is None:
        return orig_start(thread)
      st = sched.new_thread(thread, "player%d" % len(harness.player_threads))
      harness.player_threads.append((thread, st))
      orig_start(thread)
      sched.switch("start " + st.name)

    def run(thread):
      st = sched.pending.pop(id(thread), None)
      if st is None:
        return orig_run(thread)
      sched.by_ident[_real_threading.get_ident()] = st
      st.gate.acquire()
      try:
        if sched.aborted:
          return
        if harness.line_level:
          sys.settrace(harness._tracer)
        elif harness.line_budget:
          sys.settrace(harness._budget_tracer)
        orig_run(thread)
      except SchedAbort:
        pass
      except BaseException as exc:  # noqa - a dying player thread is evidence
        st.exc = exc
        harness.thread_errors.append((st.name, repr(exc)))
      finally:
        sys.settrace(None)
        sched.thread_done(st)

    def join(thread, timeout=None):
      me = sched.me()
      if me is None:
        return orig_join(thread, timeout)
      target = next((s for t, s in harness.player_threads if t is thread), None)
      if target is None:
        return orig_join(thread, timeout)
      sched.switch("join " + target.name,
                   pred=lambda: target.status == "done",
                   blocked_on="join " + target.name)

    AT.start, AT.run, AT.join = start, run, join
    self.main = sched.register_current("main")
    SCHED = sched
    self._budget_step = -1
    if self.line_level:
      sys.settrace(self._tracer)
    elif self.line_budget:
      sys.settrace(self._budget_tracer)
    return self

  def spawn(self, name, fn):
    """Run fn on another managed thread (e.g. a second control thread)."""
    sched = self.sched
    token = object()
    st = sched.new_thread(token, name)
    harness = self

    def body():
      sched.pending.pop(id(token), None)
      sched.by_ident[_real_threading.get_ident()] = st
      st.gate.acquire()
      try:
        if sched.aborted:
          return
        if harness.line_level:
          sys.settrace(harness._tracer)
        elif harness.line_budget:
          sys.settrace(harness._budget_tracer)
        fn()
      except SchedAbort:
        pass
      except BaseException as exc:  # noqa
        st.exc = exc
        harness.thread_errors.append((st.name, repr(exc)))
      finally:
        sys.settrace(None)
        sched.thread_done(st)
    t = _real_threading.Thread(target=body, daemon=True)
    self.extra_threads.append((t, st))
    t.start()
    sched.switch("spawn " + name)
    return st

  def _tracer(self, frame, event, arg):
    if event == "call" and frame.f_code.co_filename.endswith("lazy_io.py"):
      return self._local
    return None

  def _budget_tracer(self, frame, event, arg):
    if event == "call" and os.sep + "audiolazy" + os.sep in \
       frame.f_code.co_filename:
      return self._budget_local
    return None

  def _budget_local(self, frame, event, arg):
    if event == "line":
      s = self.sched
      if s.steps != self._budget_step:
        self._budget_step = s.steps
        self.lines_since_yield = 0
      self.lines_since_yield += 1
      if self.lines_since_yield > self.line_budget and not s.aborted:
        st = s.me()
        if st is not None:
          s.abort("spin-without-yield-point", st)
          st.unwinding = True
          self.spin_at = (frame.f_code.co_name, frame.f_lineno)
          raise SchedAbort(s.aborted)
    return self._budget_local

  def _local(self, frame, event, arg):
    if event == "line":
      s = _sched()
      if s is not None and s.me() is not None and not s.aborted:
        s.switch("line %d" % frame.f_lineno)
    return self._local

  def __exit__(self, etype, evalue, tb):
    global SCHED
    sys.settrace(None)
    lio = self.lazy_io
    AT = lio.AudioThread
    sched = self.sched
    # let every managed thread go (they unwind with SchedAbort if need be)
    if any(t.status != "done" for t in sched.order if t is not self.main):
      sched.abort(sched.aborted or "scenario-ended", self.main)
    stuck = 0
    for thread, st in self.player_threads + self.extra_threads:
      if thread.ident is not None:
        _real_threading.Thread.join(thread, 10.0)
        if thread.is_alive():
          stuck += 1
    self.os_threads_stuck = stuck
    sched.active = False
    SCHED = None
    lio.threading, AT.start, AT.run, AT.join = self.saved
    return etype is not None and issubclass(etype, SchedAbort)
