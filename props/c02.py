"""C02 - everything is lazy: no read before demand, bounded read per output.

A catalogue of stage constructors is driven with pull-counting probes as
sources: building a stage must pull nothing, and after the k-th output each
source must show exactly (or at most) the number of pulls that stage needs."""
import itertools
import math
import operator
import types
from fractions import Fraction

import audiolazy
from audiolazy import (Stream, thub, blocks, zero_pad, chunks, z, ZFilter,
                       CascadeFilter, ParallelFilter, Streamix, ControlStream,
                       zcross, clip, unwrap, maverage, envelope, amdf,
                       overlap_add, stft, resample, modulo_counter, sinusoid,
                       TableLookup, window)
from audiolazy import lazy_itertools as lit
from audiolazy import lazy_math

from vlib.inst import Probe, OverRead
from props.c01 import Mat, ALL_METHODS, BIN, UN

ID = "C02"


def v_int(n):
  return n + 1


def v_small(n):
  return (n * 5) % 7 - 3          # small signed ints, repeats


def v_float(n):
  return ((n * 3) % 8 - 4) / 4.0


def v_mat(n):
  return Mat.of(n % 5 - 2)


def v_blocks(size):
  return lambda n: [float(n + j) for j in range(size)]


VALS = {"int": v_int, "small": v_small, "float": v_float, "mat": v_mat}


class Entry(object):
  def __init__(self, name, nsrc, build, need, exact=True, vals="int",
               kmax=10, finite=None):
    self.name, self.nsrc, self.build, self.need = name, nsrc, build, need
    self.exact, self.vals, self.kmax = exact, vals, kmax
    self.finite = finite or {}    # source index -> finite length


CAT = {}


def E(name, nsrc, build, need, **kw):
  assert name not in CAT, name
  CAT[name] = Entry(name, nsrc, build, need, **kw)


def same(n):
  return lambda k: (k,) * n


# ---- A. Stream operators -----------------------------------------------------
def _op_entries():
  for name in ALL_METHODS:
    dname = "__%s__" % name
    vals = "mat" if "matmul" in name else "int"
    if name in UN:
      E("op/%s" % name, 1, lambda s, d=dname: getattr(Stream(s[0]), d)(),
        same(1), vals=vals)
      continue
    scalar = Mat.of(2) if vals == "mat" else 2
    E("op/%s/scalar" % name, 1,
      lambda s, d=dname, c=scalar: getattr(Stream(s[0]), d)(c), same(1),
      vals=vals)
    E("op/%s/stream" % name, 2,
      lambda s, d=dname: getattr(Stream(s[0]), d)(Stream(s[1])), same(2),
      vals=vals)
    E("op/%s/generator" % name, 2,
      lambda s, d=dname: getattr(Stream(s[0]), d)(x for x in s[1]), same(2),
      vals=vals)


_op_entries()

# ---- B. Stream methods -------------------------------------------------------
E("stream/map", 1, lambda s: Stream(s[0]).map(lambda x: x * 2), same(1))
E("stream/filter", 1, lambda s: Stream(s[0]).filter(lambda x: x % 3 == 0),
  lambda k: (3 * k,))           # values n+1: the k-th multiple of 3 is item 3k
E("stream/skip", 1, lambda s: Stream(s[0]).skip(4), lambda k: (4 + k,))
E("stream/limit", 1, lambda s: Stream(s[0]).limit(30), same(1))
E("stream/append", 2, lambda s: Stream(s[0]).append(s[1]),
  lambda k: (min(k, 3), max(0, k - 3)), finite={0: 3})
E("stream/getattr", 1, lambda s: Stream(s[0]).real, same(1))
E("stream/call", 1, lambda s: Stream(s[0]).bit_length(), same(1))
E("stream/abs", 1, lambda s: abs(Stream(s[0])), same(1), vals="small")
E("stream/blocks", 1, lambda s: Stream(s[0]).blocks(size=4, hop=3),
  lambda j: ((j - 1) * 3 + 4,))
E("stream/nested", 1, lambda s: Stream(Stream(Stream(s[0]))), same(1))
E("stream/chained-ctor", 2, lambda s: Stream(s[0], s[1]),
  lambda k: (min(k, 3), max(0, k - 3)), finite={0: 3})


def _copy(s):
  a = Stream(s[0])
  b = a.copy()
  # consume b first, then a: the source must be read once per position
  return itertools.chain(itertools.islice(b, 5), itertools.islice(a, 5),
                         b, )


E("stream/copy", 1, _copy, lambda k: (k if k <= 5 else 5 if k <= 10 else k - 5,))


def _peek(s):
  def gen():          # peek is a consumer: it runs when the first output is asked
    a = Stream(s[0])
    for x in itertools.chain(a.peek(3), a):
      yield x
  return gen()


E("stream/peek", 1, _peek, lambda k: (3 if k <= 6 else k - 3,), kmax=10)


def _take(s):
  def gen():
    a = Stream(s[0])
    for x in itertools.chain(a.take(3), a):
      yield x
  return gen()


E("stream/take", 1, _take, lambda k: (max(3, k),))


def _thub(s):
  hub = thub(Stream(s[0]), 3)
  a, b, c = iter(hub), iter(hub), iter(hub)
  return itertools.chain(itertools.islice(a, 4), itertools.islice(b, 6),
                         itertools.islice(c, 2), a)


E("stream/thub-3-uses", 1, _thub,
  lambda k: (k if k <= 4 else 4 if k <= 8 else k - 4 if k <= 10
             else 6 if k <= 14 else k - 8,), kmax=16)
E("stream/thub-expression", 1,
  lambda s: (lambda h: (h + 1) * h - h)(thub(s[0], 3)), same(1))


def _tee(s):
  a, b = lit.tee(Stream(s[0]), 2)
  return itertools.chain(itertools.islice(a, 3), b)


E("itertools/tee", 1, _tee, lambda k: (k if k <= 3 else max(3, k - 3),))

# ---- C. lazy_itertools wrappers ---------------------------------------------------
E("itertools/chain", 2, lambda s: lit.chain(s[0], s[1]),
  lambda k: (min(k, 3), max(0, k - 3)), finite={0: 3})
E("itertools/chain.star", 1,
  lambda s: lit.chain.star([x, x] for x in s[0]), lambda k: ((k + 1) // 2,))
E("itertools/izip", 2, lambda s: lit.izip(s[0], s[1]), same(2))
E("itertools/izip.longest", 2, lambda s: lit.izip.longest(s[0], s[1]), same(2))
E("itertools/imap", 2, lambda s: lit.imap(operator.add, s[0], s[1]), same(2))
E("itertools/ifilter", 1, lambda s: lit.ifilter(lambda x: x % 3 == 0, s[0]),
  lambda k: (3 * k,))
E("itertools/ifilterfalse", 1,
  lambda s: lit.ifilterfalse(lambda x: x % 3 != 0, s[0]), lambda k: (3 * k,))
E("itertools/takewhile", 1, lambda s: lit.takewhile(lambda x: x < 1000, s[0]),
  same(1))
E("itertools/dropwhile", 1, lambda s: lit.dropwhile(lambda x: x < 5, s[0]),
  lambda k: (4 + k,))
E("itertools/islice", 1, lambda s: lit.islice(s[0], 3, None),
  lambda k: (3 + k,))
E("itertools/islice-step", 1, lambda s: lit.islice(s[0], 0, None, 2),
  lambda k: (2 * k - 1,))
E("itertools/starmap", 1,
  lambda s: lit.starmap(pow, ((x, 2) for x in s[0])), same(1))
E("itertools/compress", 2,
  lambda s: lit.compress(s[0], (x % 2 for x in s[1])),
  lambda k: (2 * k - 1, 2 * k - 1))
E("itertools/accumulate", 1, lambda s: lit.accumulate(s[0]), same(1))
E("itertools/accumulate.func", 1, lambda s: lit.accumulate.func(s[0]), same(1))
E("itertools/accumulate.z", 1, lambda s: lit.accumulate.z(s[0]), same(1))
E("itertools/cycle", 1, lambda s: lit.cycle(s[0]), same(1))
E("itertools/groupby", 1,
  lambda s: lit.groupby(s[0], key=lambda x: (x - 1) // 3),
  lambda k: (3 * (k - 1) + 1,))
if hasattr(itertools, "pairwise"):
  E("itertools/pairwise", 1, lambda s: lit.pairwise(s[0]), lambda k: (k + 1,))
if hasattr(itertools, "batched"):
  E("itertools/batched", 1, lambda s: lit.batched(s[0], 3), lambda k: (3 * k,))

# ---- D. filters -------------------------------------------------------------------
E("filter/FIR", 1, lambda s: (1 + 2 * z ** -1 - z ** -3)(s[0]), same(1))
E("filter/IIR", 1, lambda s: ((1 + z ** -1) / (1 - 0.5 * z ** -1))(s[0]),
  same(1))
E("filter/memory-generator", 1,
  lambda s: (1 / (1 - 0.5 * z ** -2))(s[0], memory=(m for m in [1., 2., 3.])),
  same(1))
E("filter/time-varying", 3,
  lambda s: ZFilter({0: Stream(s[1]), 1: 2}, {0: 1, 1: Stream(s[2])})(s[0]),
  same(3), vals="small")
E("filter/time-varying-expr", 3,
  lambda s: ((Stream(s[1]) + z ** -1) * (1 + Stream(s[2]) * z ** -2))(s[0]),
  same(3), vals="small")
E("filter/time-varying-gain", 2,
  lambda s: ZFilter([1, 1], {0: Stream(s[1]), 1: .5})(s[0]), same(2))
E("filter/all-zero-expr", 1, lambda s: (0 * z ** -1)(s[0]), same(1))
E("filter/all-zero-difference", 1, lambda s: (z ** -2 - z ** -2)(s[0]),
  same(1))
E("filter/all-zero-ZFilter(0)", 1, lambda s: ZFilter(0)(s[0]), same(1))
E("filter/all-zero-over-denominator", 1,
  lambda s: ZFilter([0, 0], [1, -.5])(s[0]), same(1))
E("filter/cascade", 1,
  lambda s: CascadeFilter(1 - z ** -1, 1 / (1 - .5 * z ** -1), z ** -2)(s[0]),
  same(1))
E("filter/parallel", 1,
  lambda s: ParallelFilter(1 - z ** -1, 1 / (1 - .5 * z ** -1),
                           z ** -2)(s[0]), same(1))
E("filter/parallel-of-cascades", 1,
  lambda s: ParallelFilter(CascadeFilter(z ** -1, 1 + z ** -1),
                           CascadeFilter(1 - z ** -2))(s[0]), same(1))
E("filter/lowpass", 1, lambda s: audiolazy.lowpass(0.5)(s[0]), same(1))
E("filter/comb", 1, lambda s: audiolazy.comb(3, .5)(s[0]), same(1))
E("filter/resonator", 1, lambda s: audiolazy.resonator(1., .2)(s[0]), same(1))

def v_cut(n):
  return 0.3 + 0.1 * (n % 5)


VALS["cut"] = v_cut
for _name, _mk in [
    ("lowpass.pole", lambda c: audiolazy.lowpass.pole(c)),
    ("lowpass.z", lambda c: audiolazy.lowpass.z(c)),
    ("highpass.pole_exp", lambda c: audiolazy.highpass.pole_exp(c)),
    ("highpass.z", lambda c: audiolazy.highpass.z(c)),
    ("resonator.poles_exp", lambda c: audiolazy.resonator.poles_exp(c, .2)),
    ("resonator.z_exp-bw", lambda c: audiolazy.resonator.z_exp(1., c)),
    ("comb.fb-alpha", lambda c: audiolazy.comb.fb(2, c)),
    ("comb.tau", lambda c: audiolazy.comb.tau(3, c * 20)),
    ("envelope.rms-cutoff", None),
]:
  if _mk is None:
    E("filter/stream-param/" + _name, 2,
      lambda s: envelope.rms(s[0], cutoff=Stream(s[1])), same(2), vals="cut")
  else:
    E("filter/stream-param/" + _name, 2,
      lambda s, mk=_mk: mk(Stream(s[1]))(s[0]), same(2), vals="cut")
E("filter/stream-param/gammatone.klapuri", 2,
  lambda s: audiolazy.gammatone.klapuri(Stream(s[1]), .2)(s[0]), same(2),
  vals="cut")
E("synth/karplus_strong-memory", 0,
  lambda s: audiolazy.karplus_strong(.5, memory=[1., 0., -1.] * 8), same(0))

# ---- E. blockenizers --------------------------------------------------------------
for _size, _hop in [(4, 4), (5, 2), (3, 5), (1, 1), (6, 1)]:
  E("blocks/%d-%d" % (_size, _hop), 1,
    lambda s, a=_size, b=_hop: blocks(s[0], size=a, hop=b),
    lambda j, a=_size, b=_hop: ((j - 1) * b + a,))
E("zero_pad", 1, lambda s: zero_pad(s[0], left=3, right=2),
  lambda k: (max(0, k - 3),))
E("chunks.struct", 1, lambda s: chunks.struct(s[0], size=3, dfmt="i"),
  lambda j: (3 * j,))
E("chunks.default", 1, lambda s: chunks(s[0], size=2, dfmt="i"),
  lambda j: (2 * j,))

# ---- F. sample-wise analysis ---------------------------------------------------------
E("analysis/zcross", 1, lambda s: zcross(s[0], hysteresis=1), same(1),
  vals="small")
E("analysis/zcross-first-sign", 1, lambda s: zcross(s[0], first_sign=-1),
  same(1), vals="small")
E("analysis/clip", 1, lambda s: clip(s[0], -2, 2), same(1), vals="small")
E("analysis/clip-one-sided", 1, lambda s: clip(s[0], None, 2), same(1),
  vals="small")
E("analysis/unwrap", 1, lambda s: unwrap(s[0], 2, 4), same(1), vals="small")
E("analysis/maverage.deque", 1, lambda s: maverage.deque(3)(s[0]), same(1))
E("analysis/maverage.recursive", 1, lambda s: maverage.recursive(3)(s[0]),
  same(1))
E("analysis/maverage.fir", 1, lambda s: maverage.fir(3)(s[0]), same(1))
E("analysis/envelope.rms", 1, lambda s: envelope.rms(s[0]), same(1))
E("analysis/envelope.abs", 1, lambda s: envelope.abs(s[0]), same(1))
E("analysis/envelope.squared", 1, lambda s: envelope.squared(s[0]), same(1))
E("analysis/amdf", 1, lambda s: amdf(2, 3)(s[0]), same(1))

# ---- G. mixer / control ------------------------------------------------------------
def _mix(s):
  m = Streamix()
  m.add(0, s[0])
  m.add(2, s[1])
  m.add(1.75, s[2])      # cumulative time 3.75: starts at sample 4
  return m


E("streamix/3-events", 3, _mix,
  lambda k: (k, max(0, k - 2), max(0, k - 4)), vals="float")


def _mix_late(s):
  m = Streamix()
  m.add(0, s[0])

  def gen():
    it = iter(m)
    for i in range(3):
      yield next(it)
    m.add(0, s[1])       # added during playback: starts at sample 3
    for x in it:
      yield x
  return gen()


def _mix_frac(s):
  m = Streamix()
  for delta, src in zip((0.4, 2.4, 2.4, 0.7), s):   # cumulative .4 2.8 5.2 5.9
    m.add(delta, src)
  return m


E("streamix/fractional-deltas", 4, _mix_frac,
  lambda k: (k, max(0, k - 3), max(0, k - 5), max(0, k - 6)), vals="float",
  kmax=12)
E("streamix/added-during-playback", 2, _mix_late,
  lambda k: (k, max(0, k - 3)), vals="float")
E("control/expression", 1,
  lambda s: ControlStream(2) * Stream(s[0]) + ControlStream(1), same(1))

# ---- H. synthesis with stream arguments ------------------------------------------------
E("synth/modulo_counter-step", 1,
  lambda s: modulo_counter(0., 7., Stream(s[0])), same(1), exact=False)
E("synth/modulo_counter-start", 1,
  lambda s: modulo_counter(Stream(s[0]), 7., 1.), same(1), exact=False)
E("synth/modulo_counter-all", 3,
  lambda s: modulo_counter(Stream(s[0]), Stream(s[1]), Stream(s[2])), same(3),
  exact=False)
E("synth/sinusoid-freq", 1, lambda s: sinusoid(Stream(s[0]) * .01), same(1),
  exact=False)
E("synth/sinusoid-phase", 1, lambda s: sinusoid(.1, Stream(s[0]) * .01),
  same(1), exact=False)
E("synth/table-lookup", 1,
  lambda s: TableLookup([0., 1., 0., -1.])(Stream(s[0]) * .01), same(1),
  exact=False)


# ---- I. resample ----------------------------------------------------------------------
def _res_need(old, new, order):
  """Output m interpolates the p+1 neighbours first(m) .. first(m)+p with
  first(m) = ceil(m*old/new - (p+1)/2): nothing beyond the last neighbour is
  needed."""
  def need(m1):      # m1 outputs = output indices 0..m1-1
    m = m1 - 1
    first = math.ceil(Fraction(m * old, new) - Fraction(order + 1, 2))
    return (int(first) + order + 1,)
  return need


for _old, _new, _order in [(1, 1, 3), (1, 2, 3), (3, 2, 1), (5, 3, 2),
                           (1, 3, 5), (2, 1, 4), (7, 5, 3),
                           # heavy decimation, integer and dyadic factors
                           (5, 1, 1), (8, 1, 3), (16, 1, 3), (11, 2, 1),
                           (9, 1, 0), (25, 2, 2), (12, 1, 5), (33, 4, 3)]:
  E("resample/%d-%d-o%d" % (_old, _new, _order), 1,
    lambda s, a=_old, b=_new, c=_order: resample(
      s[0], old=Fraction(a), new=Fraction(b), order=c),
    _res_need(_old, _new, _order), exact=False, vals="float")
E("resample/stream-step", 2,
  lambda s: resample(s[0], old=Stream(s[1]), new=2, order=3),
  lambda m1: (int(m1 * 3) + 4, m1), exact=False, vals="float")


# a stream-valued step of known (constant) value: the same exact neighbour
# bound as for a number, and at most one step value per output
def _res_need_stream(old, new, order):
  inner = _res_need(old, new, order)
  return lambda m1: (inner(m1)[0], m1)


for _old, _new, _order in [(1, 1, 1), (1, 1, 3), (2, 1, 1), (3, 2, 2),
                           (1, 2, 3), (5, 2, 0), (3, 1, 4)]:
  E("resample/stream-old/%d-%d-o%d" % (_old, _new, _order), 2,
    lambda s, a=_old, b=_new, c=_order: resample(
      s[0], old=Stream(s[1]).map(lambda v, a=a: Fraction(a)), new=Fraction(b),
      order=c),
    _res_need_stream(_old, _new, _order), exact=False, vals="float")
  E("resample/stream-new/%d-%d-o%d" % (_old, _new, _order), 2,
    lambda s, a=_old, b=_new, c=_order: resample(
      s[0], old=Fraction(a), new=Stream(s[1]).map(lambda v, b=b: Fraction(b)),
      order=c),
    _res_need_stream(_old, _new, _order), exact=False, vals="float")


# ---- J. overlap-add / STFT ---------------------------------------------------------------
def _ola_need(hop, extra=0):
  return lambda k: ((k + hop - 1) // hop + extra,)


E("ola/size-given", 1,
  lambda s: overlap_add.list(s[0], size=4, hop=2), _ola_need(2), exact=False,
  vals=v_blocks(4))
E("ola/size-detected", 1,
  lambda s: overlap_add.list(s[0], hop=3), _ola_need(3), exact=False,
  vals=v_blocks(5))
E("ola/window", 1,
  lambda s: overlap_add.list(s[0], size=4, hop=1, wnd=window.hann),
  _ola_need(1), exact=False, vals=v_blocks(4))
E("ola/blocks-of-source", 1,
  lambda s: overlap_add.list(blocks(s[0], size=6, hop=2), size=6, hop=2),
  lambda k: (((k + 1) // 2 - 1) * 2 + 6,), exact=False, vals="float")


def _stft(s, ola, **kw):
  return stft(lambda blk: [2 * x for x in blk], transform=None,
              inverse_transform=None, before=None, after=None, ola=ola,
              **kw)(s[0])


E("stft/ola-list", 1,
  lambda s: _stft(s, overlap_add.list, size=8, hop=4, wnd=window.hann),
  lambda k: (((k + 3) // 4 - 1) * 4 + 8,), exact=False, vals="float")
E("stft/ola-list-no-window", 1,
  lambda s: _stft(s, overlap_add.list, size=5, hop=5),
  lambda k: (((k + 4) // 5 - 1) * 5 + 5,), exact=False, vals="float")
E("stft/ola-none", 1, lambda s: _stft(s, None, size=6, hop=2),
  lambda j: ((j - 1) * 2 + 6,), vals="float")
E("stft/python-transforms", 1,
  lambda s: stft(lambda blk: blk, size=4, hop=2,
                 transform=lambda b, n: list(b),
                 inverse_transform=lambda b, n: list(b),
                 before=lambda b: list(b), after=lambda b: list(b),
                 ola=overlap_add.list)(s[0]),
  lambda k: (((k + 1) // 2 - 1) * 2 + 4,), exact=False, vals="float")

# ---- K. broadcasting functions on lazy inputs ------------------------------------------------
E("broadcast/sin-generator", 1, lambda s: lazy_math.sin(x for x in s[0]),
  same(1))
E("broadcast/dB20-map", 1, lambda s: lazy_math.dB20(map(float, s[0])), same(1))
E("broadcast/sign-stream", 1, lambda s: lazy_math.sign(Stream(s[0])), same(1),
  vals="small")
E("broadcast/midi2freq-filter", 1,
  lambda s: audiolazy.midi2freq(filter(None, s[0])), same(1))

# ---- chains: compositions of stages with known per-output needs ------------------------------
LINKS = {
  "add1": (lambda it: Stream(it) + 1, lambda k: k),
  "rmul": (lambda it: 2 * Stream(it), lambda k: k),
  "map": (lambda it: Stream(it).map(lambda x: -x), lambda k: k),
  "imap": (lambda it: lit.imap(lambda x: x, it), lambda k: k),
  "fir": (lambda it: (1 - z ** -1)(it), lambda k: k),
  "iir": (lambda it: (1 / (1 + .5 * z ** -1))(it), lambda k: k),
  "parallel": (lambda it: ParallelFilter(z ** -1, 1 + z ** -2)(it),
               lambda k: k),
  "clip": (lambda it: clip(it, -50, 50), lambda k: k),
  "maverage": (lambda it: maverage.deque(2)(it), lambda k: k),
  "accumulate": (lambda it: lit.accumulate(it), lambda k: k),
  "copy": (lambda it: Stream(it).copy(), lambda k: k),
  "thub1": (lambda it: 1 * thub(it, 1), lambda k: k),
  "skip2": (lambda it: Stream(it).skip(2), lambda k: k + 2 if k else 0),
  "islice1": (lambda it: lit.islice(it, 1, None), lambda k: k + 1 if k else 0),
  "zero_pad2": (lambda it: zero_pad(it, left=2), lambda k: max(0, k - 2)),
  "limit": (lambda it: Stream(it).limit(40), lambda k: k),
  "sin": (lambda it: lazy_math.sin(x for x in it), lambda k: k),
}
TAILS = {
  "none": (lambda it: it, lambda k: k),
  "blocks32": (lambda it: blocks(it, size=3, hop=2), lambda j: (j - 1) * 2 + 3),
  "blocks23": (lambda it: Stream(it).blocks(size=2, hop=3),
               lambda j: (j - 1) * 3 + 2),
  "pairs": (lambda it: lit.izip(it, lit.count()), lambda k: k),
}


# ---- stages whose end does not depend on the source: reaching the end must
# ---- not cost a source item either (name -> build, outputs, pulls at the end)
ENDS = {
  "end/stream.limit": (lambda s: Stream(s[0]).limit(4), 4, (4,)),
  "end/stream.limit-0": (lambda s: Stream(s[0]).limit(0), 0, (0,)),
  "end/stream.limit-float": (lambda s: Stream(s[0]).limit(2.7), 3, (3,)),
  "end/thub.limit": (lambda s: thub(s[0], 1).limit(3), 3, (3,)),
  "end/limit-after-skip": (lambda s: Stream(s[0]).skip(2).limit(3), 3, (5,)),
  "end/limit-of-sum": (lambda s: (Stream(s[0]) + 1).limit(2), 2, (2,)),
  "end/itertools.islice": (lambda s: lit.islice(s[0], 1, 4), 3, (4,)),
  "end/itertools.islice-n": (lambda s: lit.islice(s[0], 5), 5, (5,)),
  "end/blocks-of-limited": (lambda s: Stream(s[0]).limit(6).blocks(size=3),
                            2, (6,)),
}


def cases(ctx):
  rng = ctx.rng
  i = 0
  for name in sorted(ENDS):
    for variant in ("endless", "capped"):
      if ctx.mine(i):
        yield ("end", name, variant)
      i += 1
  for name in sorted(CAT):
    ent = CAT[name]
    for K in (1, 2, 3, 5, ent.kmax):
      for variant in ("endless", "capped", "finite"):
        if ctx.mine(i):
          yield ("stage", name, K, variant)
        i += 1
  ctx.flag("exhaustive_subspace",
           "every catalogue entry x K in {1,2,3,5,kmax} x source variant")
  for _ in ctx.loop(4000, 300000):
    links = [rng.choice(sorted(LINKS)) for _ in range(rng.randint(2, 4))]
    yield ("chain", links, rng.choice(sorted(TAILS)), rng.randint(1, 9),
           rng.choice(["endless", "capped", "finite"]))


def make_sources(ent_nsrc, valfn, variant, needs, finite):
  srcs = []
  for i in range(ent_nsrc):
    n = needs[i]
    if i in finite:
      srcs.append(Probe([valfn(j) for j in range(finite[i])],
                        name="src%d" % i))
    elif variant == "endless":
      # far beyond any need, so an eager stage fails fast instead of hanging
      srcs.append(Probe(endless=valfn, cap=n + 256, name="src%d" % i))
    elif variant == "capped":
      srcs.append(Probe(endless=valfn, cap=n, name="src%d" % i))
    else:
      srcs.append(Probe([valfn(j) for j in range(n)], name="src%d" % i))
  return srcs


def drive(ctx, case, what, stage_builder, srcs, need, K, exact, variant):
  try:
    stage = stage_builder(srcs)
  except OverRead as exc:
    ctx.violation(what + "/read-at-construction", case, exc=str(exc))
    return
  pulled = [p.pulls for p in srcs]
  if any(pulled):
    ctx.violation(what + "/read-at-construction", case, pulls=pulled)
    return
  ctx.count("constructions-checked")
  it = iter(stage)
  if any(p.pulls for p in srcs):
    ctx.violation(what + "/read-at-iter", case, pulls=[p.pulls for p in srcs])
    return
  for k in range(1, K + 1):
    try:
      next(it)
    except OverRead as exc:
      ctx.violation(what + "/reads-beyond-need", case, output=k, exc=str(exc),
                    need=need(k))
      return
    except StopIteration:
      ctx.violation(what + "/ended-before-%s" % (
        "need-was-exhausted" if variant == "finite" else "output"), case,
        output=k, pulls=[p.pulls for p in srcs], need=need(k))
      return
    want = need(k)
    got = tuple(p.pulls for p in srcs)
    ctx.count("outputs-checked")
    if exact and variant != "finite":
      bad = got != tuple(want)
    else:
      bad = any(g > w for g, w in zip(got, want))
    if bad:
      ctx.violation(what + ("/pull-count-not-exact" if exact
                            else "/reads-beyond-need"), case, output=k,
                    pulls=got, need=want)
      return


def run_end(ctx, case):
  _, name, variant = case
  build, nout, end_need = ENDS[name]
  srcs = [Probe(endless=v_int, cap=(n if variant == "capped" else n + 256),
                name="src%d" % i) for i, n in enumerate(end_need)]
  ctx.count("entry:end")
  try:
    stage = build(srcs)
    if any(p.pulls for p in srcs):
      ctx.violation(name + "/read-at-construction", case)
      return True
    it = iter(stage)
    got = 0
    while got <= nout + 2:
      try:
        next(it)
      except StopIteration:
        break
      got += 1
  except OverRead as exc:
    ctx.violation(name + "/reads-beyond-need-at-its-end", case, exc=str(exc))
    return True
  pulls = tuple(p.pulls for p in srcs)
  ctx.count("ends-checked")
  if got != nout:
    ctx.violation(name + "/wrong-number-of-outputs", case, got=got, want=nout)
  elif pulls != tuple(end_need):
    ctx.violation(name + "/reads-beyond-need-at-its-end", case, pulls=pulls,
                  need=end_need)
  return True


def run_case(ctx, case):
  if case[0] == "end":
    return run_end(ctx, case)
  if case[0] == "stage":
    _, name, K, variant = case
    ent = CAT[name]
    valfn = VALS[ent.vals] if isinstance(ent.vals, str) else ent.vals
    srcs = make_sources(ent.nsrc, valfn, variant, ent.need(K), ent.finite)
    ctx.count("entry:" + name.split("/")[0])
    ctx.count("variant:" + variant)
    drive(ctx, case, name, ent.build, srcs, ent.need, K, ent.exact, variant)
    return True
  _, links, tail, K, variant = case
  fns = [LINKS[l] for l in links] + [TAILS[tail]]

  def need(k):
    for _, nd in reversed(fns):
      k = nd(k)
    return (k,)

  def build(srcs):
    it = srcs[0]
    for fn, _ in fns:
      it = fn(it)
    return it
  srcs = make_sources(1, v_small, variant, need(K), {})
  ctx.count("chain-depth:%d" % len(links))
  drive(ctx, case, "chain", build, srcs, need, K, True, variant)
  return True


def finish(ctx):
  for grp in ["op", "stream", "itertools", "filter", "blocks", "analysis",
              "streamix", "synth", "resample", "ola", "stft", "broadcast",
              "zero_pad", "chunks.struct", "control"]:
    ctx.need("entry:" + grp, 3)
  for v in ["endless", "capped", "finite"]:
    ctx.need("variant:" + v, 100)
  ctx.need("constructions-checked", 1000)
  ctx.need("ends-checked", 10)
  ctx.need("outputs-checked", 5000)
  for d in (2, 3, 4):
    ctx.need("chain-depth:%d" % d, 100)
  ctx.flag("cov.catalogue_entries", len(CAT))
