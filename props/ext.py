"""Glue for extension families: a module props/cNN_x.py defines KINDS, cases(ctx),
run_case(ctx, case), finish(ctx); `install(globals(), ext)` at the end of
props/cNN.py chains them in front of the module's own workload (so a soft time
limit never starves them)."""


def install(ns, ext):
  base_cases, base_run = ns["cases"], ns["run_case"]
  base_finish = ns.get("finish")

  def cases(ctx):
    for c in ext.cases(ctx):
      yield c
    for c in base_cases(ctx):
      yield c

  def run_case(ctx, case):
    if case[0] in ext.KINDS:
      return ext.run_case(ctx, case)
    return base_run(ctx, case)

  def finish(ctx):
    if base_finish is not None:
      base_finish(ctx)
    ext.finish(ctx)
  ns["cases"], ns["run_case"], ns["finish"] = cases, run_case, finish
