"""C20 extension family (second round of seeded changes):

reuse   one filter object (maverage.X(size), amdf(lag, size), accumulate.z,
        the envelope functions) applied to two different signals whose outputs
        are consumed in an interleaved order: each output must be what the same
        tool gives on that signal alone
"""
import itertools
from fractions import Fraction

from audiolazy import maverage, amdf, envelope
from audiolazy import lazy_itertools as lit

KINDS = ("reuse",)


def cases(ctx):
  rng = ctx.rng
  for _ in ctx.loop(2500, 80000):
    tool = rng.choice(["maverage.deque", "maverage.recursive", "maverage.fir",
                       "maverage.default", "amdf", "accumulate.z",
                       "envelope.abs"])
    n1, n2 = rng.randint(2, 10), rng.randint(2, 10)
    x1 = [rng.randint(-16, 16) / 4.0 for _ in range(n1)]
    x2 = [rng.randint(-16, 16) / 4.0 for _ in range(n2)]
    yield ("reuse", tool, rng.choice([1, 2, 4, 8]), rng.randint(1, 3), x1, x2,
           [rng.random() < 0.5 for _ in range(n1 + n2)],
           rng.choice([0., 0., 0.5]))


def make(tool, size, lag):
  if tool == "maverage.deque":
    return maverage.deque(size)
  if tool == "maverage.recursive":
    return maverage.recursive(size)
  if tool == "maverage.fir":
    return maverage.fir(size)
  if tool == "maverage.default":
    return maverage(size)
  if tool == "amdf":
    return amdf(lag, size)
  if tool == "accumulate.z":
    return lit.accumulate.z
  return envelope.abs


def run_case(ctx, case):
  _, tool, size, lag, x1, x2, order, zero = case
  kw = {} if tool in ("accumulate.z", "envelope.abs") else {"zero": zero}
  # reference: a fresh tool object per signal, consumed on its own
  ref1 = list(make(tool, size, lag)(list(x1), **kw))
  ref2 = list(make(tool, size, lag)(list(x2), **kw))
  f = make(tool, size, lag)            # ONE object for both signals
  it1, it2 = iter(f(list(x1), **kw)), iter(f(list(x2), **kw))
  out1, out2 = [], []
  for first in order:                  # interleaved consumption
    src, out = (it1, out1) if first else (it2, out2)
    try:
      out.append(next(src))
    except StopIteration:
      pass
  out1.extend(it1)
  out2.extend(it2)
  ctx.count("shared-tool-object-checked")
  ctx.count("reuse:" + tool)
  for name, got, want in (("first", out1, ref1), ("second", out2, ref2)):
    if len(got) != len(want) or any(
        abs(Fraction(g) - Fraction(w)) > Fraction(1, 10 ** 9) * (1 + abs(Fraction(w)))
        for g, w in zip(got, want)):
      ctx.violation("reuse/%s/outputs-of-one-tool-object-interfere" % tool,
                    case, signal=name, got=got, want=want)
      return True
  return True


def finish(ctx):
  ctx.need("shared-tool-object-checked", 500)
  for tool in ("maverage.deque", "maverage.recursive", "maverage.fir", "amdf"):
    ctx.need("reuse:" + tool, 30)
