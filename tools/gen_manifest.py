#!/usr/bin/env python3
"""Regenerates MANIFEST.json from props/meta.py + props/manifest_text.py."""
import json, os, sys
HERE = os.path.dirname(os.path.dirname(os.path.abspath(__file__)))
sys.path.insert(0, HERE)
from props.meta import META
from props.static import NOT_APPLICABLE, SOURCE_COMMITS

NOTE = ("Trusted: CPython 3.12 semantics, the stdlib (itertools, fractions, "
        "struct, wave, threading), and the independent reference oracle in "
        "props/%s.py. Held = no monitor fired on the executions of this run; "
        "it says nothing about inputs/histories/schedules not generated.")
props = [json.loads(l) for l in open(os.path.join(HERE, "properties.jsonl"))]
ids = [p["id"] for p in props]
checks = []
for pid in ids:
  if pid not in META:
    continue
  t = META[pid]
  checks.append({
    "property_id": pid,
    "quick_cmd": "./check %s --tier quick" % pid,
    "thorough_cmd": "./check %s --tier thorough" % pid,
    "evidence_file": "/verif/evidence/%s.json" % pid,
    "replay_cmd_template": "./check %s --replay {path}" % pid,
    "engine": "runtime-monitors",
    "level_claimed": {"category": META[pid].get("level", "exploration"),
                      "text": t["level_text"],
                      "design_ref": "DESIGN.md section 4, %s" % pid},
    "level_note": NOTE % pid.lower(),
    "technique": t["technique"],
  })
na = [{"property_id": pid, "reason": NOT_APPLICABLE.get(
        pid, "check not built yet in this session (work in progress)")}
      for pid in ids if pid not in {c["property_id"] for c in checks}]
manifest = {
  "version": 1,
  "setup_cmd": "./tools/setup.sh",
  "hooks": {
    "guard": "AUDIOLAZY_VERIF",
    "enable": "no source hooks are needed: monitors wrap the public API from "
              "outside (fake pyaudio modules in sys.modules, lazy_io.threading "
              "shim, pull-counting probes); checks import audiolazy fresh from "
              "/repo's working tree (VERIF_REPO overrides) in new processes",
    "baseline_off_cmd": "cd /repo && /venv/bin/python -m pytest -ra -q -p "
                        "no:cacheprovider --timeout=900 "
                        "--continue-on-collection-errors",
    "source_commits": SOURCE_COMMITS,
    "add_only": True,
  },
  "engines": [{
    "name": "runtime-monitors", "path": "/verif/vlib",
    "serves_properties": [c["property_id"] for c in checks],
    "kind_free_text": "stdlib-only runtime monitors: reference-model oracles "
      "over recorded outputs/histories, pull-counting probes, exact linear "
      "shadow values through the generated filter code, controlled random "
      "thread scheduler with fake PyAudio backend; sharded over processes",
  }],
  "checks": checks,
  "not_applicable": na,
  "notes": "exit 0 held / 1 VIOLATION (replay file written) / 2 INCONCLUSIVE; "
           "VERIF_SEED, VERIF_TIER, VERIF_REPO honoured; known findings in "
           "/verif/known_findings.json (mechanism keys).",
}
if not na:
  manifest["not_applicable"] = []
with open(os.path.join(HERE, "MANIFEST.json"), "w") as f:
  json.dump(manifest, f, indent=1)
  f.write("\n")
print("checks:", [c["property_id"] for c in checks], "n/a:", [n["property_id"] for n in na])
