"""C14 - window functions obey their periodic/symmetric, symmetry and overlap
contracts.

Observed: the lists returned by the real (exec-generated) ``window[name]`` and
``wsymm[name]`` strategies and the identity of the objects reached through
item access, attribute access and the ``.periodic`` / ``.symm`` attributes.

Oracle: the closed forms of Harris' paper / the strategy docstrings, written
out here independently with an exact integer argument reduction (so that the
oracle itself is symmetric and exactly zero where the formula is zero).

Violated on the unchanged tree (both genuine, separate mechanism keys):
  wsymm/missing-alias   wsymm lacks "dirichlet" / "rectangular" (window has
                        them): only the first name of the non-distinct rect
                        strategy is copied into wsymm.
  sample/not-real:cos   wsymm.cos(14, .5)[-1] is a complex number: the last
                        sample is sin(pi * 13 / 13) ** alpha and
                        fl(fl(pi * 13) / 13) > fl(pi) makes the sine -3.2e-16;
                        a negative float to a non-integer power is complex in
                        Python 3 (sizes 14, 27, 48, 53, ... any non-integer
                        alpha).
"""
import math

from audiolazy import window, wsymm

ID = "C14"

TOL = 1e-12    # flat absolute tolerance of the statement's numeric clauses
BASE = 1e-12   # tolerance on sin(pi n/size) *before* it is raised to alpha

# Documented names (docstrings / generation table headings), written out here
# independently: name -> strategy family.
FAMILY = {
  "hann": "hann", "hanning": "hann",
  "hamming": "hamming",
  "rect": "rect", "dirichlet": "rect", "rectangular": "rect",
  "bartlett": "bartlett",
  "triangular": "triangular", "triangle": "triangular",
  "blackman": "blackman",
  "cos": "cos",
}
PRIMARY = ("hann", "hamming", "rect", "bartlett", "triangular", "blackman",
           "cos")
DEFAULT_ALPHA = {"blackman": .16, "cos": 1}   # "Defaults to 0.16" / "to 1"
COLA2 = ("hann", "hamming", "bartlett", "rect")   # hop = size/2
COLA4 = ("hann", "hamming", "blackman")           # hop = size/4

EXACT_BLACKMAN = 2.0 * 1430 / 18608


# ---------------------------------------------------------------- oracle ----
def cos2pi(n, N):
  """cos(2 pi n / N) for ints, argument reduced exactly to [0, pi/2]."""
  n %= N
  if 2 * n > N:
    n = N - n
  if 4 * n > N:
    return -math.cos(math.pi * (N - 2 * n) / N)
  return math.cos(2 * math.pi * n / N)


def sinpi(n, N):
  """sin(pi n / N) for 0 <= n <= N, symmetric and exactly 0.0 at both ends."""
  if 2 * n > N:
    n = N - n
  return math.sin(math.pi * n / N)


def closed_form(fam, size, symm, alpha):
  """List of (mid, lo, hi): the documented value of each sample and the
  interval in which a sample is accepted."""
  if symm and size == 1:
    return [(1.0, 1.0, 1.0)]
  N = size - 1 if symm else size    # the documented "size -> size - 1"
  out = []
  for n in range(size):
    if fam == "hann":
      v = .5 - .5 * cos2pi(n, N)
    elif fam == "hamming":
      v = .54 - .46 * cos2pi(n, N)
    elif fam == "rect":
      v = 1.0
    elif fam == "bartlett":
      v = 1.0 - abs(2 * n - N) / N
    elif fam == "triangular":
      v = 1.0 - abs(2 * n - N) / (N + 2)
    elif fam == "blackman":
      v = (1 - alpha) / 2. - .5 * cos2pi(n, N) + alpha / 2. * cos2pi(2 * n, N)
    elif fam == "cos":
      # x ** alpha is ill-conditioned at x = 0 for 0 < alpha < 1 (a 1e-16
      # rounding of sin(pi) becomes 1e-8 for alpha = .5), so the tolerance is
      # applied to the base sin(pi n / N) and propagated (monotonically)
      # through the power; a flat TOL is added on top.
      s0 = sinpi(n, N)
      out.append((s0 ** alpha,
                  max(s0 - BASE, 0.0) ** alpha - TOL,
                  (s0 + BASE) ** alpha + TOL))
      continue
    else:
      raise ValueError(fam)
    out.append((v, v - TOL, v + TOL))
  return out


# ----------------------------------------------------------------- cases ----
def lib_names():
  names = []
  for sd in (window, wsymm):
    for key_tuple in sd.keys():
      for k in key_tuple:
        if isinstance(k, str) and k not in names:
          names.append(k)
  return names


def all_names():
  """Every documented name plus every name either dictionary has."""
  found = lib_names()
  ordered = list(PRIMARY) + sorted(k for k in FAMILY if k not in PRIMARY)
  return ordered + sorted(k for k in found if k not in ordered)


def variants(fam, quick):
  """(mode, alpha) call variants of one strategy family."""
  if fam == "blackman":
    if quick:
      grid = [0.0, .05, .1, .16, EXACT_BLACKMAN, .2, .25]
      kws = [.16, .25, 0]
    else:
      grid = [i / 100. for i in range(26)] + [EXACT_BLACKMAN]
      kws = [0, .08, .16, .25]
  elif fam == "cos":
    if quick:
      grid = [0, .5, 1, 1.5, 2, 2.5, 3, 4, 0.0, 1.0, .25]
      kws = [.5, 2, 4.0]
    else:
      grid = [i / 4. for i in range(17)] + [0, 1, 2, 3, 4, .1, .01]
      kws = [0, .5, 1, 2.0, 3.5, 4]
  else:
    return [("default", None)]
  return ([("default", None)] + [("pos", a) for a in grid] +
          [("kw", a) for a in kws])


def cola_variants(fam, quick):
  if fam != "blackman":
    return [("default", None)]
  grid = [0.0, .16, EXACT_BLACKMAN, .25] if quick else \
         [i / 50. for i in range(13)] + [EXACT_BLACKMAN, .25]
  return [("default", None)] + [("pos", a) for a in grid] + [("kw", .16)]


def cases(ctx):
  names = all_names()
  maxsize = ctx.pick(128, 600)
  i = 0
  for c in [("dicts",)] + [("name", k) for k in names]:
    if ctx.mine(i):
      yield c
    i += 1
  # exhaustive sub-space, every run
  for size in range(1, maxsize + 1):
    for k in names:
      fam = FAMILY.get(k)
      for mode, alpha in variants(fam, ctx.quick):
        if ctx.mine(i):
          yield ("win", k, size, mode, alpha)
        i += 1
      for div, fams in ((2, COLA2), (4, COLA4)):
        if size % div == 0 and fam in fams:
          for mode, alpha in cola_variants(fam, ctx.quick):
            if ctx.mine(i):
              yield ("cola", k, size, div, mode, alpha)
            i += 1
  ctx.flag("exhaustive_subspace",
           "every name and alias of window and wsymm (%d names) x every size "
           "1..%d x the alpha grid (blackman 0..0.25, cos 0..4; positional, "
           "keyword, default); COLA for every even size / multiple of 4 up "
           "to %d" % (len(names), maxsize, maxsize))
  # sampled beyond it: larger sizes, arbitrary alphas
  rng = ctx.rng
  known = [k for k in names if k in FAMILY]
  for _ in ctx.loop(1000, 40000):
    k = rng.choice(known)
    fam = FAMILY[k]
    if fam == "blackman":
      alpha = rng.choice([rng.uniform(0, .25), rng.uniform(0, .25), 0.0, .25])
    elif fam == "cos":
      alpha = rng.choice([rng.uniform(0, 4), rng.uniform(0, 1),
                          rng.randint(0, 4), float(rng.randint(0, 4))])
    else:
      alpha = None
    mode = "default" if alpha is None else rng.choice(["pos", "kw"])
    if rng.random() < .25 and (fam in COLA2 or fam in COLA4):
      divs = [d for d, fams in ((2, COLA2), (4, COLA4)) if fam in fams]
      div = rng.choice(divs)
      yield ("cola", k, div * rng.randint(1, 1024 // div), div, mode, alpha)
    else:
      yield ("win", k, rng.randint(maxsize + 1, 1536), mode, alpha)


# --------------------------------------------------------------- monitor ----
def is_real(v):
  return isinstance(v, (int, float)) and not isinstance(v, bool)


def call(func, size, mode, alpha):
  if mode == "default":
    return func(size)
  if mode == "pos":
    return func(size, alpha)
  return func(size, alpha=alpha)


def lookup(sd, k):
  """(by item, by attribute); a missing one is the exception instance."""
  try:
    item = sd[k]
  except KeyError as exc:
    item = exc
  try:
    attr = getattr(sd, k)
  except AttributeError as exc:
    attr = exc
  return item, attr


def missing(x):
  return isinstance(x, (KeyError, AttributeError))


def run_dicts(ctx, case):
  want = [("window.symm", window, "symm", wsymm),
          ("wsymm.periodic", wsymm, "periodic", window),
          ("window.periodic", window, "periodic", window),
          ("wsymm.symm", wsymm, "symm", wsymm)]
  for text, obj, attr, target in want:
    ctx.count("crossref:dict")
    got = getattr(obj, attr, None)
    if got is not target:
      ctx.violation("crossref/dict-level", case, link=text,
                    got=repr(got)[:200],
                    want="the %s StrategyDict" % target.__name__)
  return True


def run_name(ctx, case):
  k = case[1]
  ctx.count("names_checked")
  fam = FAMILY.get(k)
  ctx.count("name:documented" if fam else "name:undocumented")
  if fam and k not in PRIMARY:
    ctx.count("name:alias")
  found = {}
  for sd, other in ((window, wsymm), (wsymm, window)):
    me = sd.__name__
    item, attr = lookup(sd, k)
    if missing(item) or missing(attr):
      o_item, o_attr = lookup(other, k)
      if missing(o_item) and missing(o_attr):
        # in neither dictionary: only a documented strategy name is required
        if k in PRIMARY:
          ctx.violation("%s/missing-strategy" % me, case, name=k)
        continue
      # the other dictionary has this name: the statement quantifies over
      # all strategies *and aliases* of both
      sibling = [a for a in other.key2keys(k)
                 if a != k and not missing(lookup(sd, a)[0])] \
                if not missing(o_item) else []
      kind = "missing-alias" if sibling else "missing-strategy"
      if missing(item) and missing(attr):
        ctx.violation("%s/%s" % (me, kind), case, name=k,
                      item_access=repr(item), attribute_access=repr(attr),
                      other_dict_keys=other.key2keys(k)
                      if not missing(o_item) else None,
                      same_strategy_reachable_as=sibling)
      else:
        ctx.violation("%s/item-attribute-mismatch" % me, case, name=k,
                      item_access=repr(item)[:200],
                      attribute_access=repr(attr)[:200])
      continue
    ctx.count("access:item+attr")
    if item is not attr:
      ctx.violation("%s/item-attribute-mismatch" % me, case, name=k,
                    item_access=repr(item)[:200],
                    attribute_access=repr(attr)[:200])
    found[me] = item
    if fam:
      # an alias names the strategy of its documented family
      ctx.count("family_binding_checked")
      prim = [p for p in PRIMARY if FAMILY[p] == fam][0]
      p_item, _ = lookup(sd, prim)
      if not missing(p_item) and p_item is not item:
        ctx.violation("alias/wrong-strategy", case, dict=me, name=k,
                      bound_to=getattr(item, "__name__", repr(item)),
                      documented_family=prim)
  pw, ps = found.get("window"), found.get("wsymm")
  links = []
  if pw is not None:
    links += [("window.%s.periodic" % k, pw, "periodic", pw, "window." + k)]
    if ps is not None:
      links += [("window.%s.symm" % k, pw, "symm", ps, "wsymm." + k)]
  if ps is not None:
    links += [("wsymm.%s.symm" % k, ps, "symm", ps, "wsymm." + k)]
    if pw is not None:
      links += [("wsymm.%s.periodic" % k, ps, "periodic", pw, "window." + k)]
  if pw is not None and ps is None:
    # partner only reachable through the attribute: it must at least point back
    sy = getattr(pw, "symm", None)
    if sy is not None:
      links += [("window.%s.symm.periodic" % k, sy, "periodic", pw,
                 "window." + k),
                ("window.%s.symm.symm" % k, sy, "symm", sy,
                 "window.%s.symm" % k)]
    else:
      ctx.violation("crossref/strategy-level", case, link="window.%s.symm" % k,
                    got="no such attribute")
  if ps is not None and pw is None:
    pe = getattr(ps, "periodic", None)
    if pe is not None:
      links += [("wsymm.%s.periodic.symm" % k, pe, "symm", ps, "wsymm." + k),
                ("wsymm.%s.periodic.periodic" % k, pe, "periodic", pe,
                 "wsymm.%s.periodic" % k)]
    else:
      ctx.violation("crossref/strategy-level", case,
                    link="wsymm.%s.periodic" % k, got="no such attribute")
  for text, obj, attr, target, target_text in links:
    ctx.count("crossref:strategy")
    got = getattr(obj, attr, None)
    if got is not target:
      ctx.violation("crossref/strategy-level", case, link=text,
                    got=repr(got)[:200], want=target_text)
  return True


def strategies(ctx, k):
  """(periodic, symmetric) strategies named k; a name one dictionary lacks is
  reported by the ("name", k) case, here the partner attribute is followed so
  that the numeric contracts of the name are still monitored."""
  try:
    fw = window[k]
  except KeyError:
    fw = None
  try:
    fs = wsymm[k]
  except KeyError:
    fs = None
  if fs is None and fw is not None:
    fs = getattr(fw, "symm", None)
    ctx.count("wsymm_name_absent:followed_window.X.symm")
  elif fw is None and fs is not None:
    fw = getattr(fs, "periodic", None)
    ctx.count("window_name_absent:followed_wsymm.X.periodic")
  return fw, fs


def check_samples(ctx, case, what, data, state):
  """Samples are real numbers in [0,1] within TOL.  Returns the indices that
  are not real numbers."""
  bad = [(i, v) for i, v in enumerate(data) if not is_real(v)]
  if bad:
    state["bad"] = True
    fam = FAMILY.get(case[1], "undocumented")
    ctx.violation("sample/not-real:%s" % fam, case, which=what,
                  index=bad[0][0], value=repr(bad[0][1]),
                  type=type(bad[0][1]).__name__, how_many=len(bad),
                  size_of_list=len(data))
  skip = set(i for i, _ in bad)
  worst = None
  for i, v in enumerate(data):
    if i in skip:
      continue
    if not (-TOL <= v <= 1 + TOL):
      worst = (i, v)
      break
    ctx.err("range[0,1]", max(-v, v - 1, 0.0), TOL)
  if worst:
    state["bad"] = True
    ctx.violation("sample/out-of-[0,1]", case, which=what, index=worst[0],
                  value=worst[1])
  ctx.count("range_checked", len(data) - len(skip))
  return skip


def run_win(ctx, case):
  _, k, size, mode, alpha = case
  fam = FAMILY.get(k)
  fw, fs = strategies(ctx, k)
  if fw is None or fs is None:
    ctx.count("win_skipped:no_strategy_pair")
    return False
  state = {"bad": False}
  p = call(fw, size, mode, alpha)
  s = call(fs, size, mode, alpha)
  s1 = call(fs, size + 1, mode, alpha)
  ctx.count("family:%s" % (fam or "undocumented"))
  ctx.count("name:%s" % k)
  ctx.count("mode:%s" % mode)
  ctx.count("size:1" if size == 1 else "size:2" if size == 2 else
            "size:3..128" if size <= 128 else "size:>128")

  # length
  ctx.count("len_checked")
  for what, data, n in (("window", p, size), ("wsymm", s, size),
                        ("wsymm(size+1)", s1, size + 1)):
    if len(data) != n:
      ctx.violation("len/%s" % ("periodic" if what == "window"
                                else "symmetric"), case, which=what,
                    got=len(data), want=n)
      return True
  p, s, s1 = list(p), list(s), list(s1)

  # range
  skip_p = check_samples(ctx, case, "window.%s(%d)" % (k, size), p, state)
  skip_s = check_samples(ctx, case, "wsymm.%s(%d)" % (k, size), s, state)

  # periodic == prefix of the symmetric of size + 1, exactly
  ctx.count("prefix_exact_checked")
  if p != s1[:size]:
    idx = [i for i in range(size) if p[i] != s1[i]]
    ctx.violation("prefix/not-exact", case, first_index=idx[0],
                  window_value=repr(p[idx[0]]), wsymm_value=repr(s1[idx[0]]),
                  differing=len(idx))
    state["bad"] = True

  # wsymm of size 1
  if size == 1:
    ctx.count("size1_checked")
    if s != [1.0]:
      ctx.violation("wsymm/size1", case, got=repr(s), want="[1.0]")
      state["bad"] = True

  # closed form (and its tolerance band) for both
  forms = None
  if fam:
    a = DEFAULT_ALPHA.get(fam) if mode == "default" else alpha
    forms = {"p": closed_form(fam, size, False, a),
             "s": closed_form(fam, size, True, a)}
    for tag, data, skip, what in (("p", p, skip_p, "window"),
                                  ("s", s, skip_s, "wsymm")):
      ctx.count("closed_form_checked", size - len(skip))
      for i, v in enumerate(data):
        if i in skip:
          continue
        mid, lo, hi = forms[tag][i]
        band = max(hi - mid, mid - lo)
        if band > 10 * TOL:
          # cos, 0 < alpha < 1, next to a zero of the sine (see closed_form)
          ctx.count("cos_ill_conditioned_sample")
          if abs(v - mid) > TOL:
            ctx.count("cos_ill_conditioned_sample:deviation>1e-12_accepted")
          ctx.err("closed_form:cos(ill-conditioned,0<alpha<1)", abs(v - mid),
                  band)
        else:
          ctx.err("closed_form:%s" % fam, abs(v - mid), band)
        if not (lo <= v <= hi):
          ctx.violation("closed-form/%s:%s" % (
                          fam, "periodic" if tag == "p" else "symmetric"),
                        case, which="%s.%s" % (what, k), index=i, got=v,
                        documented=mid, accepted=[lo, hi])
          state["bad"] = True
          break

  # symmetry of wsymm
  ctx.count("symmetry_checked")
  if size >= 2:
    ctx.count("symmetry_checked:size>=2")
  for i in range(size // 2):
    j = size - 1 - i
    if i in skip_s or j in skip_s:
      continue
    tol = TOL
    if fam == "cos":
      # same conditioning argument as in closed_form
      tol = forms["s"][i][2] - forms["s"][i][1]
      ctx.err("symmetry:cos" if tol <= 20 * TOL else
              "symmetry:cos(ill-conditioned,0<alpha<1)", abs(s[i] - s[j]), tol)
    else:
      ctx.err("symmetry", abs(s[i] - s[j]), tol)
    if not abs(s[i] - s[j]) <= tol:
      ctx.violation("wsymm/asymmetric", case, index=i, mirror=j, left=s[i],
                    right=s[j], tol=tol)
      state["bad"] = True
      break
  return True


def run_cola(ctx, case):
  _, k, size, div, mode, alpha = case
  fam = FAMILY.get(k)
  fw, _ = strategies(ctx, k)
  if fw is None:
    ctx.count("cola_skipped:no_strategy")
    return False
  w = list(call(fw, size, mode, alpha))
  if len(w) != size or not all(is_real(v) for v in w):
    ctx.violation("cola/not-a-real-window", case, got_len=len(w), want=size)
    return True
  hop = size // div
  sums = [math.fsum(w[r + j * hop] for j in range(div)) for r in range(hop)]
  spread = max(sums) - min(sums)
  ctx.count("cola:hop=size/%d" % div)
  ctx.count("cola:%s/%d" % (fam, div))
  if hop >= 2:
    ctx.count("cola:hop>=2")
  ctx.err("cola:hop=size/%d" % div, spread, TOL)
  if not spread <= TOL:
    r = sums.index(max(sums))
    ctx.violation("cola/%s:hop=size/%d" % (fam, div), case, hop=hop,
                  min_sum=min(sums), max_sum=max(sums), at=r)
  return hop >= 2


def run_case(ctx, case):
  kind = case[0]
  if kind == "dicts":
    return run_dicts(ctx, case)
  if kind == "name":
    return run_name(ctx, case)
  if kind == "win":
    return run_win(ctx, case)
  if kind == "cola":
    return run_cola(ctx, case)
  raise ValueError(kind)


def finish(ctx):
  ctx.need("crossref:dict", 4)
  ctx.need("names_checked", len(FAMILY))
  ctx.need("name:alias", 4)
  ctx.need("access:item+attr", 2 * len(PRIMARY))
  ctx.need("family_binding_checked", len(FAMILY))
  ctx.need("crossref:strategy", 4 * len(PRIMARY))
  for fam in PRIMARY:
    ctx.need("family:%s" % fam, 128)
  for k in FAMILY:
    ctx.need("name:%s" % k, 128)
  for mode in ("default", "pos", "kw"):
    ctx.need("mode:%s" % mode, 128)
  ctx.need("size:1", len(FAMILY))
  ctx.need("size:2", len(FAMILY))
  ctx.need("size:3..128", 126 * len(FAMILY))
  ctx.need("size:>128", 50)
  ctx.need("size1_checked", len(FAMILY))
  ctx.need("len_checked", 128 * len(FAMILY))
  ctx.need("range_checked", 10000)
  ctx.need("prefix_exact_checked", 128 * len(FAMILY))
  ctx.need("closed_form_checked", 10000)
  ctx.need("symmetry_checked:size>=2", 127 * len(FAMILY))
  ctx.need("cola:hop=size/2", 64 * 4)
  ctx.need("cola:hop=size/4", 32 * 3)
  ctx.need("cola:hop>=2", 100)
  for fam in COLA2:
    ctx.need("cola:%s/2" % fam, 64)
  for fam in COLA4:
    ctx.need("cola:%s/4" % fam, 32)


# extension family (second round of seeded changes), see props/c14_x.py
from props import c14_x as _x, ext as _ext
_ext.install(globals(), _x)
