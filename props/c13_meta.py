META = {
  "rule":
    "cases are (kind, strategy, parameters): kind lp = lowpass/highpass "
    "strategy + cut-off; reson = resonator strategy + (freq, bandwidth); comb "
    "= strategy + delay 1..12 + alpha (dyadic / +-1 / 0 / default) or tau "
    "(float, int, inf, default); gamma = gammatone strategy + (centre, "
    "bandwidth[, phase, eta 1..5 for sampled]); stream = the same design "
    "functions with Stream parameters of length 3..6. Every strategy is "
    "enumerated at the range end points 1e-3 and pi-1e-3, pi/2 and a few "
    "fixed values on every run; the rest is random (uniform and log-uniform "
    "towards both ends of [1e-3, pi-1e-3], bandwidth log-uniform/uniform in "
    "[1e-3, 1]). Every case is non-trivial (a filter is built and judged); "
    "distinct = distinct case descriptions (hash of repr)",
  "assumptions": [
    "math.exp / cos / sqrt / cmath.exp of CPython are accurate to a few ulp "
    "(they are the oracle's only transcendental functions)",
    "'pole radius exp(-bandwidth/2)' is judged as denominator coefficient "
    "a2 == exp(-bandwidth) (product of the pole pair); for resonator.z_exp "
    "within about bandwidth/2 of DC or Nyquist the two poles are real and "
    "their individual moduli are not judged",
    "resonant frequency of the freq_* resonators: cos w0 = (1+R^2)/(2R) cos "
    "freq (2 poles; judged only where |.| <= 1) and cos w0 = 2R/(1+R^2) cos "
    "freq (poles + zeros at +-1), derived from the transfer functions in "
    "the docstrings with R = exp(-bandwidth/2)",
    "gammatone.sampled is judged on centre frequencies in [0.02, pi-0.02] "
    "with tolerance 1e-3 (conditioning of its differentiated numerator), eta "
    "1..5 and five phases; gammatone peak position and section count are not "
    "part of the statement and are not judged",
    "stream-valued parameters are audiolazy Stream objects (the documented "
    "form), not lists; comb delays are constant ints",
    "monotone magnitude is judged on the 64-point grid k*pi/63 with a "
    "rounding slack of 1e-12; the resonator peak on the 257-point grid "
    "k*pi/256",
  ],
  "level_text":
    "Runtime monitoring of the real design functions: each returned filter's "
    "coefficients are read through numdict/dendict and judged by an "
    "independent oracle - own complex evaluation of the response (never "
    "freq_response) for unit gain at DC/Nyquist/resonance/centre, half power "
    "at the cut-off, monotone magnitude (64-point grid) and resonator peak "
    "(257-point grid) with tolerance 1e-6 (observed <= 2e-10; gammatone.sampled "
    "1e-3, observed <= 1e-8); pole positions decided exactly by a Schur-Cohn / "
    "Jury test on the Fractions of the float coefficients; comb filters are "
    "executed on exact symbolic Lin samples so the recursion is compared for "
    "all inputs at once; coefficient streams are compared sample by sample "
    "with the constant design. The parameter space is continuous: sampled "
    "(with all range end points and pi/2 in every run), not exhaustive.",
  "technique": "runtime monitor: coefficient read-out + independent "
               "response/pole oracle, exact Jury test, symbolic Lin samples "
               "through comb filters, random + end-point parameters",
  "shards": {"quick": 4, "thorough": 16},
  "soft_s": {"quick": 30, "thorough": 300},
}
