"""C03 - a Stream behaves as a lazy sequence under any history of its methods.

Random and exhaustively enumerated operation histories over a pool of live
streams are applied, step by step, both to real Stream objects and to an
immutable list model; every returned container / raised exception / yielded
element is compared.
"""
import itertools
import math
import warnings
from collections import deque
from fractions import Fraction

from audiolazy import Stream, thub, StreamTeeHub
from audiolazy import lazy_itertools as lit

ID = "C03"
inf = float("inf")
HUGE = [2 ** 63 - 1, 2 ** 63, 2 ** 64 + 5, 10 ** 30, 1e19, 1e300, float(2 ** 63),
        10 ** 400, -10 ** 400]      # (integers no float holds)
nan = float("nan")

MAPS = {"inc": lambda v: v + 1, "dbl": lambda v: v * 2, "neg": lambda v: -v,
        "sq": lambda v: v * v,
        # type-agnostic ones, used when items are not numbers
        "wrap": lambda v: (v,), "ident": lambda v: v,
        "isnone": lambda v: v is None}
FILTS = {"odd": lambda v: v % 2 == 1, "even": lambda v: v % 2 == 0,
         "pos": lambda v: v > 0, "n3": lambda v: v % 3 != 0,
         "notnone": lambda v: v is not None, "truthy": lambda v: bool(v),
         "all": lambda v: True}
NUM_MAPS, ANY_MAPS = ["inc", "dbl", "neg", "sq"], ["wrap", "ident", "isnone"]
NUM_FILTS, ANY_FILTS = ["odd", "even", "pos", "n3"], ["notnone", "truthy", "all"]
HETERO = [None, None, 0, False, "", "a", (1,), 2.5, (), 0.0, "None", True]
CTORS = {"list": list, "tuple": tuple, "deque": deque, "set": set}
class _Plain(object):
  """A non-iterable instance."""


class _IterableInstances(object):
  """The *class* is not iterable although its instances are."""
  def __iter__(self):
    return iter(())


# non-iterable objects: numbers, None, class objects (incl. classes whose
# instances are iterable), functions, a plain instance
SCALARS = [5, 0, 2.5, None, Fraction(1, 3), 1j, True,
           list, tuple, dict, str, Stream, deque, _IterableInstances, int,
           len, _Plain(), Ellipsis, Fraction]
PEEK_LEN = 24   # how much of an endless stream is compared at the end


# ----------------------------------------------------------------------------
# Immutable lazy-sequence model
# ----------------------------------------------------------------------------
class Seq(object):
  __slots__ = ("pre", "per")

  def __init__(self, pre=(), per=None):
    self.pre = tuple(pre)
    self.per = tuple(per) if per else None

  @property
  def finite(self):
    return self.per is None

  def first(self, n):
    out = list(self.pre[:n])
    if self.per is not None:
      i = 0
      while len(out) < n:
        out.append(self.per[i % len(self.per)])
        i += 1
    return out

  def drop(self, n):
    if n <= 0:
      return self
    if n == inf:
      return Seq()
    if n <= len(self.pre):
      return Seq(self.pre[n:], self.per)
    if self.per is None:
      return Seq()
    r = (n - len(self.pre)) % len(self.per)
    return Seq(self.per[r:], self.per)

  def map(self, f):
    return Seq([f(v) for v in self.pre],
               [f(v) for v in self.per] if self.per else None)

  def filter(self, p):
    return Seq([v for v in self.pre if p(v)],
               [v for v in self.per if p(v)] if self.per else None)

  def limit(self, n):
    if n == inf:
      return self
    return Seq(self.first(max(n, 0)))

  def append(self, other):
    if self.per is not None:
      return self
    return Seq(self.pre + other.pre, other.per)

  def key(self):
    return (self.pre, self.per)


def count_take(n):
  """Number of items take(n)/peek(n) asks for (n is a number, not None/+inf)."""
  if isinstance(n, float):
    if math.isnan(n) or n <= 0:
      return 0
    return int(math.floor(n + 0.5))   # nearest, halves away from zero
  return max(n, 0)


def count_round(n):
  """skip/limit counts: nearest integer (exact .5 fractions not generated)."""
  if isinstance(n, float) and math.isinf(n):
    return n if n > 0 else 0        # +inf: everything; -inf: nothing
  if isinstance(n, float):
    return max(int(math.floor(n + 0.5)), 0)
  return max(n, 0)


class Model(object):
  """handles: list of dicts {kind: stream|hub|dead, seq, uses}"""
  def __init__(self, init):
    self.h = []
    for spec in init:
      if spec[0] == "fin":
        self.h.append({"kind": "stream", "seq": Seq(spec[1])})
      else:
        self.h.append({"kind": "stream", "seq": Seq((), spec[1])})

  def live(self, kind="stream"):
    return [i for i, x in enumerate(self.h) if x["kind"] == kind]

  def new(self, seq):
    self.h.append({"kind": "stream", "seq": seq})

  def other_seq(self, what):
    if what[0] == "list":
      return Seq(what[1])
    if what[0] == "scalars":
      return Seq((), what[1])
    if what[0] == "h":
      o = self.h[what[1]]
      o["kind"] = "dead"
      return o["seq"]
    raise ValueError(what)

  def takelike(self, seq, n, ctor):
    """-> (observation, number consumed)"""
    if n is None:
      got = seq.first(1)
      if not got:
        return ("exc", "StopIteration"), 0
      return ("item", got[0]), 1
    if isinstance(n, float) and n == inf:
      assert seq.finite
      return ("box", ctor, list(seq.pre)), len(seq.pre)
    k = count_take(n)
    got = seq.first(k)
    return ("box", ctor, got), len(got)

  def apply(self, op):
    name = op[0]
    if name == "thub_scalar":
      return ("same-object",)
    if name == "thub_list":
      self.h.append({"kind": "hub", "seq": Seq(op[1]), "uses": op[2]})
      return ("hub",)
    x = self.h[op[1]]
    seq = x["seq"]
    if name == "take":
      obs, used = self.takelike(seq, op[2], op[3])
      x["seq"] = seq.drop(used)
      return obs
    if name == "peek":
      obs, used = self.takelike(seq, op[2], op[3])
      return obs
    if name == "skip":
      x["seq"] = seq.drop(count_round(op[2]))
      return ("self",)
    if name == "limit":
      x["seq"] = seq.limit(count_round(op[2]))
      return ("self",)
    if name == "append":
      x["seq"] = seq.append(self.other_seq(op[2]))
      return ("self",)
    if name == "map":
      x["seq"] = seq.map(MAPS[op[2]])
      return ("self",)
    if name == "filter":
      x["seq"] = seq.filter(FILTS[op[2]])
      return ("self",)
    if name == "copy":
      self.new(seq)
      return ("stream",)
    if name == "tee":
      x["kind"] = "dead"
      for _ in range(op[2]):
        self.new(seq)
      return ("streams", op[2])
    if name == "thub":
      x["kind"] = "dead"
      self.h.append({"kind": "hub", "seq": seq, "uses": op[2]})
      return ("hub",)
    if name in ("next", "for"):
      got = seq.first(op[2])
      x["seq"] = seq.drop(len(got))
      return ("items", got)
    # ---- hub operations
    if name == "hub_peek":
      if x["uses"] == 0:
        return ("exc", "IndexError")
      return self.takelike(seq, op[2], op[3])[0]
    if name == "hub_copy":
      if x["uses"] == 0:
        return ("exc", "IndexError")
      self.new(seq)
      return ("stream",)
    if name in ("hub_iter", "hub_op", "hub_m", "hub_tee"):
      if x["uses"] == 0:
        return ("exc", "IndexError")
      x["uses"] -= 1
      if name == "hub_tee":       # tee-ing a hub is one use of it
        for _ in range(op[2]):
          self.new(seq)
        return ("streams", op[2])
      if name == "hub_iter":
        self.new(seq)
      elif name == "hub_op":
        self.new(seq.map(lambda v, a=op[3]: HUB_OPS[op[2]](v, a)))
      else:
        m, arg = op[2], op[3]
        if m == "limit":
          self.new(seq.limit(count_round(arg)))
        elif m == "skip":
          self.new(seq.drop(count_round(arg)))
        elif m == "map":
          self.new(seq.map(MAPS[arg]))
        elif m == "filter":
          self.new(seq.filter(FILTS[arg]))
        elif m == "append":
          self.new(seq.append(self.other_seq(arg)))
      return ("stream",)
    raise ValueError(op)


HUB_OPS = {"add": lambda v, a: v + a, "rsub": lambda v, a: a - v,
           "mul": lambda v, a: v * a}


# ----------------------------------------------------------------------------
# The same operations on the real objects
# ----------------------------------------------------------------------------
class Real(object):
  def __init__(self, init):
    self.h = []
    for spec in init:
      if spec[0] == "fin":
        self.h.append(Stream(iter(list(spec[1]))))
      elif any(hasattr(v, "__iter__") for v in spec[1]):
        # strings / tuples are iterables: Stream("a", "b") would chain them
        self.h.append(Stream(itertools.cycle(list(spec[1]))))
      elif len(spec[1]) == 1:
        self.h.append(Stream(spec[1][0]))
      else:
        self.h.append(Stream(*spec[1]))

  def other(self, what):
    if what[0] == "list":
      return (list(what[1]),)
    if what[0] == "scalars":
      return tuple(what[1])
    return (self.h[what[1]],)

  @staticmethod
  def box(ctor, res):
    want = CTORS[ctor]
    if type(res) is not want:
      return ("wrong-container", type(res).__name__)
    return ("box", ctor, sorted(res, key=repr) if ctor == "set" else list(res))

  def takelike(self, meth, n, ctor):
    try:
      if n is None:
        return ("item", meth())
      if ctor == "list":
        res = meth(n)
      else:
        res = meth(n, constructor=CTORS[ctor])
    except StopIteration:
      return ("exc", "StopIteration")
    return self.box(ctor, res)

  def apply(self, op):
    name = op[0]
    if name == "thub_scalar":
      obj = SCALARS[op[1]]
      return ("same-object",) if thub(obj, op[2]) is obj else ("different",)
    if name == "thub_list":
      hub = thub(list(op[1]), op[2])
      self.h.append(hub)
      return ("hub",) if isinstance(hub, StreamTeeHub) else ("nothub",)
    s = self.h[op[1]]
    if name == "take":
      return self.takelike(s.take, op[2], op[3])
    if name in ("peek", "hub_peek"):
      try:
        return self.takelike(s.peek, op[2], op[3])
      except IndexError:
        return ("exc", "IndexError")
    if name in ("skip", "limit", "map", "filter", "append"):
      if name == "skip":
        r = s.skip(op[2])
      elif name == "limit":
        r = s.limit(op[2])
      elif name == "map":
        r = s.map(MAPS[op[2]])
      elif name == "filter":
        r = s.filter(FILTS[op[2]])
      else:
        r = s.append(*self.other(op[2]))
      return ("self",) if r is s else ("not-self",)
    if name == "copy":
      c = s.copy()
      self.h.append(c)
      return ("stream",) if type(c) is Stream else ("notstream", repr(type(c)))
    if name == "tee":
      cs = lit.tee(s, op[2])
      self.h.extend(cs)
      ok = isinstance(cs, tuple) and all(type(c) is Stream for c in cs)
      return ("streams", len(cs)) if ok else ("notstreams", repr(cs))
    if name == "thub":
      hub = thub(s, op[2])
      self.h.append(hub)
      return ("hub",) if isinstance(hub, StreamTeeHub) else ("nothub",)
    if name == "next":
      return ("items", list(itertools.islice(iter(s), op[2])))
    if name == "for":
      out = []
      if op[2] > 0:
        for el in s:
          out.append(el)
          if len(out) >= op[2]:
            break
      return ("items", out)
    try:
      if name == "hub_tee":
        cs = lit.tee(s, op[2])
        self.h.extend(cs)
        ok = isinstance(cs, tuple) and all(type(c) is Stream for c in cs)
        return ("streams", len(cs)) if ok else ("notstreams", repr(cs))
      if name == "hub_copy":
        c = s.copy()
      elif name == "hub_iter":
        c = Stream(s)
      elif name == "hub_op":
        c = {"add": lambda: s + op[3], "rsub": lambda: op[3] - s,
             "mul": lambda: s * op[3]}[op[2]]()
      elif name == "hub_m":
        m, arg = op[2], op[3]
        if m == "limit":
          c = s.limit(arg)
        elif m == "skip":
          c = s.skip(arg)
        elif m == "map":
          c = s.map(MAPS[arg])
        elif m == "filter":
          c = s.filter(FILTS[arg])
        else:
          c = s.append(*self.other(arg))
      else:
        raise ValueError(op)
    except IndexError:
      return ("exc", "IndexError")
    self.h.append(c)
    return ("stream",) if type(c) is Stream else ("notstream", repr(type(c)))


def norm(obs):
  if obs[0] == "box" and obs[1] == "set":
    return ("box", "set", sorted(set(obs[2]), key=repr))
  return obs


# ----------------------------------------------------------------------------
# History generation (simulates the model to know which handles are live)
# ----------------------------------------------------------------------------
def rand_count(rng, seq, for_take):
  remaining = len(seq.pre) if seq.finite else 6
  choices = [-2, 0, 1, remaining, remaining + 1, remaining + 3,
             rng.randint(0, remaining + 2), rng.randint(0, remaining + 2)]
  n = rng.choice(choices)
  r = rng.random()
  if r < 0.25:
    n = float(n) + rng.choice([0.3, -0.3, 0.0, 0.4])
  elif r < 0.33 and for_take:
    n = float(max(n, 0)) + 0.5          # exact halves: take/peek only
  elif r < 0.45 and for_take:
    n = rng.choice([None, None, -inf_(), nan] + ([inf] if seq.finite else []))
  elif r < 0.31 and not for_take:
    n = rng.choice([inf, -inf_()])      # skip / limit: all or nothing
  elif r < 0.50 and seq.finite:
    # finite counts no machine integer holds: still "beyond the remaining
    # length" (only for finite sequences - nothing could skip that far)
    n = rng.choice(HUGE)
  return n


def inf_():
  return inf


def period_ok(seq, pid):
  return seq.finite or any(FILTS[pid](v) for v in seq.per)


def rand_op(rng, model):
  op = rand_op_any(rng, model)
  if not getattr(model, "hetero", False):
    return op
  # items are arbitrary objects: no arithmetic on them
  if op[0] in ("map", "filter") or (op[0] == "hub_m" and op[2] in ("map",
                                                                   "filter")):
    which = op[2] if op[0] != "hub_m" else op[3]
    isfilter = op[0] == "filter" or (op[0] == "hub_m" and op[2] == "filter")
    new = rng.choice(ANY_FILTS if isfilter else ANY_MAPS)
    seq = model.h[op[1]]["seq"]
    if isfilter and not period_ok(seq, new):
      new = "all"
    return (op[0], op[1], new) if op[0] != "hub_m" else (op[0], op[1], op[2],
                                                         new)
  if op[0] == "hub_op":
    return ("hub_iter", op[1])
  if op[0] == "append" and op[2][0] in ("list", "scalars"):
    return ("append", op[1], ("list", [rng.choice(HETERO) for _ in op[2][1]]))
  if op[0] == "hub_m" and op[2] == "append":
    return (op[0], op[1], op[2], ("list", [rng.choice(HETERO)
                                           for _ in op[3][1]]))
  if op[0] == "thub_list":
    return ("thub_list", [rng.choice(HETERO) for _ in op[1]], op[2])
  return op


def rand_op_any(rng, model):
  streams = model.live("stream")
  hubs = model.live("hub")
  r = rng.random()
  if r < 0.03:
    return ("thub_scalar", rng.randrange(len(SCALARS)), rng.randint(0, 3))
  if r < 0.05 and len(model.h) < 9:
    return ("thub_list", [rng.randint(-9, 9) for _ in range(rng.randint(0, 5))],
            rng.randint(0, 3))
  if hubs and (r < 0.30 or not streams):
    h = rng.choice(hubs)
    seq = model.h[h]["seq"]
    k = rng.random()
    if k < 0.25:
      return ("hub_iter", h)
    if k < 0.32:
      return ("hub_tee", h, rng.randint(1, 3))
    if k < 0.45:
      return ("hub_peek", h, rand_count(rng, seq, True),
              rng.choice(list(CTORS)))
    if k < 0.55:
      return ("hub_copy", h)
    if k < 0.7:
      return ("hub_op", h, rng.choice(list(HUB_OPS)), rng.randint(-3, 3))
    m = rng.choice(["limit", "skip", "map", "filter", "append"])
    if m in ("limit", "skip"):
      return ("hub_m", h, m, rand_count(rng, seq, False))
    if m == "map":
      return ("hub_m", h, m, rng.choice(ANY_MAPS if getattr(model, 'hetero', False) else NUM_MAPS))
    if m == "filter":
      pid = rng.choice(ANY_FILTS if getattr(model, 'hetero', False) else NUM_FILTS)
      if not period_ok(seq, pid):
        return ("hub_iter", h)
      return ("hub_m", h, m, pid)
    return ("hub_m", h, m, ("list", [rng.randint(-9, 9)
                                     for _ in range(rng.randint(0, 3))]))
  if not streams:
    return ("thub_list", [1, 2], 1)
  h = rng.choice(streams)
  seq = model.h[h]["seq"]
  k = rng.random()
  room = len(model.h) < 9
  if k < 0.22:
    return ("take", h, rand_count(rng, seq, True), rng.choice(list(CTORS)))
  if k < 0.36:
    return ("peek", h, rand_count(rng, seq, True), rng.choice(list(CTORS)))
  if k < 0.44:
    return ("skip", h, rand_count(rng, seq, False))
  if k < 0.52:
    return ("limit", h, rand_count(rng, seq, False))
  if k < 0.60:
    j = rng.random()
    if j < 0.5:
      return ("append", h, ("list", [rng.randint(-9, 9)
                                     for _ in range(rng.randint(0, 4))]))
    if j < 0.7:
      return ("append", h, ("scalars", [rng.randint(-9, 9)
                                        for _ in range(rng.randint(1, 3))]))
    others = [o for o in streams if o != h]
    if others:
      return ("append", h, ("h", rng.choice(others)))
    return ("append", h, ("list", []))
  if k < 0.66:
    return ("map", h, rng.choice(ANY_MAPS if getattr(model, 'hetero', False) else NUM_MAPS))
  if k < 0.72:
    pid = rng.choice(ANY_FILTS if getattr(model, 'hetero', False) else NUM_FILTS)
    if period_ok(seq, pid):
      return ("filter", h, pid)
    return ("map", h, "inc")
  if k < 0.80 and room:
    return ("copy", h)
  if k < 0.84 and room:
    return ("tee", h, rng.randint(0, 3))
  if k < 0.89 and room:
    return ("thub", h, rng.randint(0, 3))
  if k < 0.95:
    return ("next", h, rng.randint(0, 4))
  return ("for", h, rng.randint(0, 4))


def rand_init(rng, hetero=False):
  item = (lambda: rng.choice(HETERO)) if hetero else (lambda: rng.randint(-9, 9))
  init = []
  for _ in range(rng.randint(1, 3)):
    if rng.random() < 0.65:
      init.append(("fin", [item()
                           for _ in range(rng.choice([0, 1, 2, 3, 5, 8, 12]))]))
    else:
      init.append(("per", [item() for _ in range(rng.randint(1, 4))]))
  return init


SMALL_INIT = [("fin", [1, 2, 3]), ("per", [7, 8])]


def small_ops(model):
  """Reduced alphabet for the exhaustive sub-space."""
  ops = []
  for h in model.live("stream"):
    seq = model.h[h]["seq"]
    for n in [None, 0, 2, 5, 1.5]:
      ops.append(("take", h, n, "list"))
    if seq.finite:
      ops.append(("take", h, inf, "tuple"))
    ops.append(("peek", h, 2, "list"))
    ops.append(("peek", h, None, "list"))
    ops.append(("skip", h, 1))
    ops.append(("skip", h, 4))
    ops.append(("limit", h, 2))
    ops.append(("append", h, ("list", [9])))
    ops.append(("map", h, "inc"))
    if period_ok(seq, "odd"):
      ops.append(("filter", h, "odd"))
    ops.append(("copy", h))
    ops.append(("thub", h, 1))
    ops.append(("next", h, 1))
  for h in model.live("hub"):
    ops.append(("hub_iter", h))
    ops.append(("hub_peek", h, 2, "list"))
    ops.append(("hub_copy", h))
  return ops


def replay_model(init, ops):
  m = Model(init)
  for op in ops:
    m.apply(op)
  return m


def enum_histories(depth, ctx):
  """All histories of length 1..depth over the reduced alphabet (DFS),
  partitioned over the shards by their length-2 prefix."""
  def rec(prefix):
    m = replay_model(SMALL_INIT, prefix)
    for op in small_ops(m):
      hist = prefix + [op]
      yield hist
      if len(hist) < depth:
        for h in rec(hist):
          yield h
  i = 0
  for op1 in small_ops(replay_model(SMALL_INIT, [])):
    if ctx.mine(i):
      yield [op1]
    i += 1
    if depth < 2:
      continue
    for op2 in small_ops(replay_model(SMALL_INIT, [op1])):
      if ctx.mine(i):
        yield [op1, op2]
        if depth > 2:
          for h in rec([op1, op2]):
            yield h
      i += 1


def cases(ctx):
  depth = ctx.pick(3, 4)
  for hist in enum_histories(depth, ctx):
    yield ("hist", SMALL_INIT, hist)
  ctx.flag("exhaustive_subspace",
           "all histories of length <= %d over pool %r with the reduced "
           "alphabet of small_ops()" % (depth, SMALL_INIT))
  rng = ctx.rng
  for _ in ctx.loop(24000, 1600000):
    hetero = rng.random() < 0.25
    init = rand_init(rng, hetero)
    m = Model(init)
    m.hetero = hetero
    ops = []
    for _ in range(rng.randint(1, 14)):
      op = rand_op(rng, m)
      m.apply(op)
      ops.append(op)
    yield ("hist", init, ops)


class _WarnCounter(object):
  def __init__(self, ctx):
    self.ctx = ctx

  def __call__(self, message, category, *a, **k):
    self.ctx.count("warning:" + category.__name__)


def setup(ctx):
  warnings.simplefilter("always")
  warnings.showwarning = _WarnCounter(ctx)


def classify_exc(exc):
  if isinstance(exc, RuntimeError) and "StopIteration" in str(exc):
    return "pep479-RuntimeError"
  return type(exc).__name__


def run_case(ctx, case):
  _, init, ops = case
  model = Model(init)
  real = Real(init)
  compared = 0
  for step, op in enumerate(ops):
    want = norm(model.apply(op))
    try:
      got = norm(real.apply(op))
    except Exception as exc:  # noqa - the oracle never expects another exception
      kind = classify_exc(exc)
      ctx.violation("%s/%s" % (op[0], kind), case, step=step, op=op,
                    want=want, exc=repr(exc))
      return True
    ctx.count("op:" + op[0])
    if want[0] == "exc":
      ctx.count("expected-exc:" + want[1])
    if op[0] in ("take", "peek", "hub_peek") and want[0] == "box":
      n = op[2]
      asked = None if (isinstance(n, float) and n == inf) else count_take(n)
      if asked is not None and len(want[2]) < asked:
        ctx.count("short-take-or-peek")
      if isinstance(n, float) and n * 2 % 2 == 1:
        ctx.count("half-count")
    if op[0] in ("take", "peek", "hub_peek", "skip", "limit") and \
       isinstance(op[2], (int, float)) and 2 ** 62 < op[2] < inf:
      ctx.count("count-beyond-machine-integers:" + op[0])
    compared += 1
    if got != want:
      ctx.violation("%s/wrong-result" % op[0], case, step=step, op=op,
                    want=want, got=got)
      return True
  # final observation of every live stream (and of the hubs' remaining uses)
  for i, x in enumerate(model.h):
    if x["kind"] == "hub":
      seq = x["seq"]
      for use in range(x["uses"] + 1):
        try:
          it = iter(real.h[i])
        except IndexError:
          if use == x["uses"]:
            ctx.count("hub-exhausted-IndexError")
            continue
          ctx.violation("thub/too-few-uses", case, hub=i, use=use,
                        uses=x["uses"])
          return True
        if use == x["uses"]:
          ctx.violation("thub/too-many-uses", case, hub=i, uses=x["uses"])
          return True
        n = len(seq.pre) + 3 if seq.finite else PEEK_LEN
        try:
          got = list(itertools.islice(it, n))
        except Exception as exc:  # noqa
          ctx.violation("thub-use/%s" % classify_exc(exc), case, hub=i,
                        exc=repr(exc))
          return True
        compared += 1
        if got != seq.first(n):
          ctx.violation("thub-use/wrong-items", case, hub=i, use=use, got=got,
                        want=seq.first(n))
          return True
    elif x["kind"] == "stream":
      seq = x["seq"]
      n = len(seq.pre) + 3 if seq.finite else PEEK_LEN
      try:
        got = list(itertools.islice(iter(real.h[i]), n))
      except Exception as exc:  # noqa
        ctx.violation("final-iteration/%s" % classify_exc(exc), case,
                      handle=i, want=seq.first(n), exc=repr(exc))
        return True
      compared += 1
      ctx.count("final-stream-compared")
      if got != seq.first(n):
        ctx.violation("final-iteration/wrong-items", case, handle=i, got=got,
                      want=seq.first(n))
        return True
  ctx.count("comparisons", compared)
  live = sum(1 for x in model.h if x["kind"] != "dead")
  if live >= 2:
    ctx.count("histories-with->=2-live-views")
  return compared > 0


def finish(ctx):
  if not ctx.quick and ctx.shard == 0:
    # extra workload: the repository's own test-suite under passive monitors
    # (invariants at hooks on the real classes; vlib/passive.py)
    from vlib.passive_run import run_suite
    if run_suite(ctx, "stream"):
      ctx.need("passive:stream:take_vs_peek", 500)
      ctx.need("passive:stream:peek_twice", 500)
  for op in ["take", "peek", "skip", "limit", "append", "map", "filter", "copy",
             "tee", "thub", "next", "for", "hub_iter", "hub_peek", "hub_copy",
             "hub_tee",
             "hub_op", "hub_m", "thub_scalar", "thub_list"]:
    ctx.need("op:" + op, 20)
  for op in ["take", "peek", "skip", "limit"]:
    ctx.need("count-beyond-machine-integers:" + op, 20)
  ctx.need("expected-exc:StopIteration", 5)
  ctx.need("expected-exc:IndexError", 5)
  ctx.need("hub-exhausted-IndexError", 20)
  ctx.need("histories-with->=2-live-views", 100)
  ctx.need("final-stream-compared", 100)
