"""C04 - a constant-coefficient filter computes its difference equation.

Exact linear shadow samples (vlib.inst.Lin) are fed through the real,
exec-generated filter code; each output comes back as an exact linear form in
the input symbols x0.., the memory symbols m1.. and the zero symbol Z, and is
compared with the recursion of the statement.  Equality of forms is the
difference equation for every sample value at once."""
import collections
import functools
import itertools
from fractions import Fraction

from audiolazy import ZFilter, LinearFilter, z, Stream

from vlib.inst import Lin, frac, lin_close
from props.filt_common import fracdict, recursion, syms

ID = "C04"

E_COEFFS = [0, 0, 1, -1, 1, -1, 2, -3, 5, 0.5, -0.25, 1.5, -1.0, 1.0, 4, -2,
            0.125, -7]
T_COEFFS = [Fraction(1, 3), Fraction(-2, 3), Fraction(5, 7), Fraction(-1, 6),
            Fraction(3, 2), Fraction(-1, 2), Fraction(2), 0.1, -0.3]
GAINS_E = [1, -1, 1, -1, 2, -2, 4, 0.5, -0.5, -4, 8, 1.0, -1.0]


def rcoeffs(rng, cls, n, lead_nonzero=False):
  pool = E_COEFFS if cls == "E" else E_COEFFS + T_COEFFS
  out = [rng.choice(pool) for _ in range(n)]
  if lead_nonzero and out and out[0] == 0:
    out[0] = rng.choice([1, -1, 2])
  return out


CPLX = [1j, -1j, 1, -1, 1 + 1j, 2 - 1j, 0.6 + 0.8j, -0.8 + 0.6j, 0.5j, 3, -2j,
        0, 0, (3 + 4j) / 5, -1 + 0j, 1 + 0j, 2.5, -0.5 - 0.5j]


def rcplx(rng, n):
  return [rng.choice(CPLX) for _ in range(n)]


def cases(ctx):
  rng = ctx.rng
  for _ in ctx.loop(2500, 150000):
    # complex coefficients / samples: numeric oracle in complex arithmetic
    b = rcplx(rng, rng.randint(1, 5))
    a = [rng.choice([c for c in CPLX if c != 0])] + rcplx(rng, rng.randint(0, 4))
    n = rng.randint(1, 9)
    x = [complex(rng.randint(-3, 3), rng.randint(-3, 3)) for _ in range(n)]
    mem = None if rng.random() < 0.4 else \
        [complex(rng.randint(-2, 2), rng.randint(-2, 2)) for _ in a[1:]]
    yield ("cplx", rng.choice(["zlist", "zdict", "llist", "zexpr"]), b, a, x,
           mem, rng.choice([0, 0.0, 0j, 1 + 1j]))
  for k in ctx.loop(40, 640):
    yield ("threads", rng.getrandbits(32), ctx.pick(4, 6), ctx.pick(30, 60))
  for _ in ctx.loop(9000, 600000):
    r = rng.random()
    cls = "E" if rng.random() < 0.8 else "T"
    if r < 0.06:
      # non-causal: some negative delay after normalisation -> ValueError
      num = {rng.randint(-3, -1): rng.choice([1, 2, -1])}
      if rng.random() < 0.5:
        num[rng.randint(0, 2)] = rng.choice([1, -2])
      den = {0: rng.choice([1, -1, 2])}
      if rng.random() < 0.5:
        den[rng.randint(1, 3)] = rng.choice([1, -1, 3])
      yield ("noncausal", rng.choice(["zdict", "ldict", "zexpr"]), num, den,
             rng.randint(0, 4))
      continue
    if r < 0.12:
      # all-zero filter
      yield ("allzero", rng.choice(["zlist", "zdict", "zempty", "zexpr0"]),
             rng.choice(GAINS_E), rng.randint(0, 6),
             rng.choice(["Z", 0, 0.0, Fraction(1, 3), Fraction(0), 7, -2.5]),
             rng.randint(0, 3))
      continue
    form = rng.choice(["zlist", "zlist", "zdict", "llist", "ldict", "zexpr"])
    if form in ("zdict", "ldict") and rng.random() < 0.5:
      # sparse delays up to 12, possibly a denominator not starting at 0
      shift = rng.choice([0, 0, 1, 2])
      num = {shift + rng.randint(0, 12): c
             for c in rcoeffs(rng, cls, rng.randint(0, 3))}
      den = {shift: rng.choice(GAINS_E)}
      for c in rcoeffs(rng, cls, rng.randint(0, 3)):
        den[shift + rng.randint(1, 12)] = c
      b, a = num, den
    else:
      b = rcoeffs(rng, cls, rng.randint(0, 7))
      a = [rng.choice(GAINS_E)] + rcoeffs(rng, cls, rng.randint(0, 6))
      if rng.random() < 0.08 and b and b[0] == 0 and form in ("zlist", "llist"):
        a = [0] + a            # constructor must normalise the denominator
    if cls == "T" and rng.random() < 0.3:
      # Fraction-valued leading denominator coefficient
      g = rng.choice([Fraction(1, 2), Fraction(-3, 2), Fraction(2, 3),
                      Fraction(5, 4), Fraction(-1, 3)])
      if isinstance(a, dict):
        a[min(a)] = g
      else:
        a[0 if a[0] != 0 else 1] = g
    n = rng.choice([0, 1, 2, 3, 5, 8, 10])
    mem = rng.choice([("none", 0), ("list", 0), ("list", 2), ("tuple", 0),
                      ("gen", 1), ("callable", 0), ("callable", 1),
                      ("endless", 0), ("stream", 0), ("stream", 1),
                      ("estream", 0), ("deque", 0), ("iter", 1),
                      ("partial", 0)])
    zero = rng.choice(["Z", "Z", 0, 0.0, Fraction(0), Fraction(2, 3), 5])
    samples = rng.choice(["sym", "sym", "sym", "int", "frac", "bigint"])
    yield ("filt", form, b, a, n, mem, zero, samples)


def as_dict(c):
  if isinstance(c, dict):
    return dict(c)
  return dict(enumerate(c))


def build(form, b, a):
  if form == "zlist":
    return ZFilter(list(b), list(a))
  if form == "llist":
    return LinearFilter(list(b), list(a))
  if form == "zdict":
    return ZFilter(as_dict(b), as_dict(a))
  if form == "ldict":
    return LinearFilter(as_dict(b), as_dict(a))
  if form == "zexpr":
    num = sum((c * z ** -k for k, c in as_dict(b).items() if c != 0),
              ZFilter([0]))
    den = sum((c * z ** -k for k, c in as_dict(a).items() if c != 0),
              ZFilter([0]))
    return num / den
  raise ValueError(form)


def zero_value(zspec):
  return Lin.sym("Z") if zspec == "Z" else zspec


def exact_class(*dicts):
  """True when every coefficient is an int, a Fraction or a dyadic float: the
  generated source then computes exactly on exact (symbolic) samples.
  (Fractions used to be written into that source as "p/q", a float division:
  finding F30.)"""
  for d in dicts:
    for v in d.values():
      if isinstance(v, float) and Fraction(v).denominator > 4096:
        return False
  return True


def error_growth(den, n):
  """amp[i] = max(1, |h[0]| + .. + |h[i]|), h the impulse response of 1 / den
  (den: {delay: coefficient}), computed in exact rationals."""
  d = {k: frac(v) for k, v in den.items() if v != 0}
  if not d:
    return [1.0] * n
  p = min(d)
  d = {k - p: v for k, v in d.items()}
  h, amp, acc_sum = [], [], Fraction(0)
  for i in range(n):
    acc = Fraction(1 if i == 0 else 0)
    for k, a in d.items():
      if k and i - k >= 0:
        acc -= a * h[i - k]
    h.append(acc / d[0])
    acc_sum += abs(h[-1])
    amp.append(float(max(1, acc_sum)))
  return amp


def numeric_recursion(b, a, x, mem, zero):
  ys = []
  for n in range(len(x)):
    acc = 0
    for k, bk in enumerate(b):
      acc = acc + bk * (x[n - k] if n - k >= 0 else zero)
    for k in range(1, len(a)):
      if n - k >= 0:
        yv = ys[n - k]
      else:
        yv = mem[k - n - 1] if mem is not None else zero
      acc = acc - a[k] * yv
    ys.append(acc / a[0])
  return ys


def run_cplx(ctx, case):
  _, form, b, a, x, mem, zero = case
  filt = build(form, b, a)
  want = numeric_recursion(b, a, x, mem, zero)
  if all(c == 0 for c in b) and all(c == 0 for c in a[1:]):
    want = [zero] * len(x)       # the all-zero filter yields the zero value
  got = list(itertools.islice(iter(filt(list(x), memory=mem, zero=zero)),
                              len(x) + 3))
  ctx.count("complex-coefficient-filters")
  if any(isinstance(c, complex) and abs(c) == 1 and c not in (1, -1)
         for c in list(b) + list(a)):
    ctx.count("complex-unit-modulus-coefficient")
  if len(got) != len(want):
    ctx.violation("wrong-output-length", case, got=len(got), want=len(want))
    return True
  for i, (g, w) in enumerate(zip(got, want)):
    tol = 1e-9 * (1 + abs(w))
    err = abs(complex(g) - complex(w))
    ctx.err("complex-coefficients", err, tol)
    if err > tol:
      ctx.violation("complex-coefficients/wrong-output", case, index=i,
                    got=repr(g), want=repr(w))
      return True
  return True


def run_threads(ctx, case):
  """Several threads compile and run *different* filters at the same time
  (real pre-emption, tiny switch interval): every call must still compute its
  own difference equation."""
  import random
  import sys
  import threading
  _, seed, nthreads, ncalls = case
  problems = []
  old = sys.getswitchinterval()
  sys.setswitchinterval(1e-6)

  def worker(tid):
    rng = random.Random("%s:%s" % (seed, tid))
    for j in range(ncalls):
      nb, na = rng.randint(1, 4), rng.randint(0, 3)
      b = [rng.randint(-5, 5) for _ in range(nb)]
      a = [rng.choice([1, -1, 2])] + [rng.randint(-3, 3) for _ in range(na)]
      x = [rng.randint(-4, 4) for _ in range(6)]
      mem = [rng.randint(-3, 3) for _ in range(na)]
      try:
        got = list(ZFilter(list(b), list(a))(list(x), memory=list(mem),
                                             zero=0))
      except Exception as exc:  # noqa
        problems.append((tid, j, b, a, repr(exc)))
        return
      want = numeric_recursion([Fraction(v) for v in b],
                               [Fraction(v) for v in a], x, mem, 0)
      if [Fraction(g) for g in got] != want:
        problems.append((tid, j, b, a, got, [str(w) for w in want]))
        return
  threads = [threading.Thread(target=worker, args=(t,)) for t in
             range(nthreads)]
  try:
    for t in threads:
      t.start()
    for t in threads:
      t.join(120)
  finally:
    sys.setswitchinterval(old)
  ctx.count("concurrent-filter-calls", nthreads * ncalls)
  if any(t.is_alive() for t in threads):
    ctx.count("harness_errors")
    return True
  if problems:
    ctx.violation("concurrent-calls/another-filter's-equation", case,
                  problems=problems[:3])
  return True


def run_case(ctx, case):
  kind = case[0]
  if kind == "cplx":
    return run_cplx(ctx, case)
  if kind == "threads":
    return run_threads(ctx, case)
  if kind == "noncausal":
    _, form, num, den, n = case
    try:
      filt = build(form, num, den)
      res = filt(syms("x", n), zero=0)
    except ValueError:
      ctx.count("noncausal-refused")
      return True
    ctx.violation("noncausal-filter-ran", case, got=repr(res))
    return True

  if kind == "allzero":
    _, form, gain, n, zspec, memx = case
    zero = zero_value(zspec)
    if form == "zlist":
      filt = ZFilter([0, 0.0, 0], [gain])
    elif form == "zdict":
      filt = ZFilter({0: 0, 3: 0}, {0: gain})
    elif form == "zempty":
      filt = ZFilter([], [gain])
    else:
      filt = (z ** -1 - z ** -1) / gain
    x = syms("x", n)
    ctx.count("allzero-filter")
    try:
      got = list(itertools.islice(iter(filt(x, zero=zero)), n + 3))
    except Exception as exc:  # noqa
      if n > 0:
        ctx.violation("all-zero-filter/zero-formatted-into-source", case,
                      exc=repr(exc))
      return True
    if len(got) != n:
      ctx.violation("all-zero-filter/wrong-length", case, got=got, n=n)
      return True
    for g in got:
      if not (g == zero):
        plain = isinstance(zspec, (int, float)) and not isinstance(zspec, bool)
        key = "all-zero-filter/wrong-value" if plain \
              else "all-zero-filter/zero-formatted-into-source"
        ctx.violation(key, case, got=got, want=repr(zero))
        return True
    return n > 0

  _, form, b, a, n, (mkind, mextra), zspec, samples = case
  numd, dend = as_dict(b), as_dict(a)
  cnum, cden = fracdict(numd), fracdict(dend)
  if not cden:
    return False
  p = min(cden)
  cnum = {k - p: v for k, v in cnum.items()}
  cden = {k - p: v for k, v in cden.items()}
  raw_den = {k - p: v for k, v in dend.items() if v != 0}
  raw_num = {k - p: v for k, v in numd.items() if v != 0}
  causal = all(k >= 0 for k in cnum)
  filt = build(form, b, a)
  zero = zero_value(zspec)
  if samples == "sym":
    x = syms("x", n)
  elif samples == "int":
    x = [(-1) ** i * (i + 2) for i in range(n)]
  elif samples == "bigint" and all(
      isinstance(v, int) and not isinstance(v, bool)
      for v in list(raw_num.values()) + list(raw_den.values())) and \
      raw_den.get(0) in (1, -1) and not isinstance(zspec, float):
    # beyond 2**53: any detour through a float shows ("every sample value");
    # only where Python's own arithmetic is exact (integer coefficients, no
    # true division), elsewhere huge samples are merely ill-conditioned
    x = [(-1) ** i * (2 ** 60 + 7 * i + 1) for i in range(n)]
  elif samples == "bigint":
    x = [(-1) ** i * (i + 2) for i in range(n)]
  else:
    x = [Fraction((-1) ** i * (2 * i + 1), i + 2) for i in range(n)]
  lm = max(cden)
  memvals = [Lin.sym("m%d" % (i + 1)) for i in range(lm + mextra)]
  called = []
  if mkind == "none":
    memory, memmodel = None, None
  elif mkind == "list":
    memory, memmodel = list(memvals), memvals
  elif mkind == "tuple":
    memory, memmodel = tuple(memvals), memvals
  elif mkind == "gen":
    memory, memmodel = (m for m in memvals), memvals
  elif mkind == "endless":
    memory = (Lin.sym("m%d" % (i + 1)) for i in itertools.count())
    memmodel = [Lin.sym("m%d" % (i + 1)) for i in range(lm)]
  elif mkind == "stream":      # a Stream is iterable *and* callable
    memory, memmodel = Stream(list(memvals)), memvals
  elif mkind == "estream":
    memory = Stream(Lin.sym("m%d" % (i + 1)) for i in itertools.count())
    memmodel = [Lin.sym("m%d" % (i + 1)) for i in range(lm)]
  elif mkind == "deque":
    memory, memmodel = collections.deque(memvals), memvals
  elif mkind == "iter":
    memory, memmodel = iter(list(memvals)), memvals
  elif mkind == "partial":     # a callable that is not a plain function
    def _mem(vals, size):
      called.append(size)
      return tuple(vals)
    memory, memmodel = functools.partial(_mem, memvals), memvals
  else:
    def memory(size, _vals=memvals):
      called.append(size)
      return list(_vals)
    memmodel = memvals
  ctx.count("form:" + form)
  ctx.count("memory:" + mkind)
  ctx.count("zero:" + type(zero).__name__)
  if not causal:
    try:
      filt(x, memory=memory, zero=zero)
    except ValueError:
      ctx.count("noncausal-refused")
      return True
    ctx.violation("noncausal-filter-ran", case)
    return True

  # branch accounting (which special cases of the code generator are reached)
  g = raw_den[0]
  ctx.count("gain:" + ("1" if g == 1 else "-1" if g == -1 else "other"))
  for k, v in raw_num.items():
    ctx.count("num-coeff:" + ("1" if v == 1 else "-1" if v == -1 else "other"))
  for k, v in raw_den.items():
    if k:
      ctx.count("den-coeff:" + ("1" if v == 1 else "-1" if v == -1 else "other"))
  if raw_num and max(raw_num) + 1 > len(raw_num):
    ctx.count("missing-middle-terms")
  if (raw_num and max(raw_num) >= 8) or max(raw_den) >= 8:
    ctx.count("sparse-high-delay")
  if p:
    ctx.count("denominator-normalised")

  want = recursion(cnum, cden, x, memmodel, zero)
  res = filt(x, memory=memory, zero=zero)
  if not isinstance(res, Stream):
    ctx.violation("result-not-a-Stream", case, got=type(res).__name__)
    return True
  allzero = not cnum and set(cden) == {0}
  try:
    got = list(itertools.islice(iter(res), n + 3))
  except NameError as exc:
    if allzero:   # the all-zero filter reached through the general generator
      ctx.violation("all-zero-filter/zero-formatted-into-source", case,
                    exc=repr(exc))
      return True
    raise
  if allzero:
    ctx.count("allzero-filter")
    want = [Lin.lift(zero)] * n
  ctx.count("outputs-compared", len(got))
  frac_gain = isinstance(g, Fraction) and g.denominator != 1
  if len(got) != len(want):
    ctx.violation("wrong-output-length", case, got=len(got), want=len(want))
    return True
  exact = exact_class(raw_num, raw_den)
  if isinstance(zspec, Fraction) and any(
      isinstance(v, float) for v in list(raw_num.values()) +
      list(raw_den.values())):
    exact = False    # Python's float * Fraction is a (rounded) float
  coeffs_all = list(raw_num.values()) + list(raw_den.values())
  if zspec != "Z" and any(isinstance(v, float) for v in coeffs_all) and any(
      isinstance(v, Fraction) for v in coeffs_all):
    # a numeric zero value meets both a float and a Fraction coefficient:
    # Python combines the two products (or divides by a Fraction gain) in
    # floats
    exact = False
  numeric_recursion_start = (zspec != "Z" and mkind == "none" and
                             len(raw_den) > 1)
  if samples != "sym" or numeric_recursion_start:
    # numeric samples go through Python's own arithmetic: exact only with
    # integer coefficients, a gain of +-1 (no true division) and no float zero.
    # The same holds for symbolic samples when the recursion starts from a
    # NUMERIC zero value (no memory given): until an input sample enters - never
    # with an all-zero numerator - the fed-back outputs are plain numbers whose
    # mantissas grow with every step (thorough seed 33)
    coeffs = list(raw_num.values()) + list(raw_den.values())
    exact = (all(isinstance(v, int) and not isinstance(v, bool)
                 for v in coeffs) and g in (1, -1)
             and not isinstance(zspec, float))
  ctx.count("class:" + ("E" if exact else "T"))
  amp = None if exact else error_growth(raw_den, len(want))
  if samples == "bigint" and exact and n:
    ctx.count("big-integer-samples-compared-exactly")
  for i, (gv, wv) in enumerate(zip(got, want)):
    try:
      gl = Lin.lift(gv)
    except TypeError:
      ctx.violation("wrong-output", case, index=i, got=repr(gv), want=repr(wv))
      return True
    if exact:
      ok = gl == wv
    else:
      # the float recursion amplifies its own rounding errors by at most the
      # running sum |h[0]| + .. + |h[i]| of the impulse response of 1 / den
      # (thorough seed 91: an unstable denominator, 1e-8 off after 8 samples);
      # where that bound leaves less than four digits nothing is judged
      tol = 1e-9 * amp[i]
      if tol > 1e-4:
        ctx.count("class-T:ill-conditioned-tail-not-judged")
        break
      ok, worst = lin_close(gl, wv, tol)
      ctx.err("toleranced-forms", worst, tol)
    if not ok:
      if frac_gain:   # (expr)/p/q instead of (expr)/(p/q): off by q*q exactly
        frac_gain = lin_close(gl * (g.denominator ** 2), wv, 1e-9)[0]
      key = "fraction-a0/unparenthesised-division" if frac_gain \
            else "all-zero-filter/zero-formatted-into-source" if allzero \
            else "wrong-output"
      ctx.violation(key, case, index=i, got=repr(gv), want=repr(wv))
      return True
  if mkind in ("callable", "partial"):
    ctx.count("callable-memory")
    if called != [lm]:
      ctx.violation("callable-memory/not-asked-once-for-needed-size", case,
                    calls=called, needed=lm)
      return True
  return n > 0


def finish(ctx):
  for k in ["gain:1", "gain:-1", "gain:other", "num-coeff:1", "num-coeff:-1",
            "num-coeff:other", "den-coeff:1", "den-coeff:-1", "den-coeff:other",
            "missing-middle-terms", "sparse-high-delay",
            "denominator-normalised", "noncausal-refused", "allzero-filter",
            "callable-memory", "class:E", "class:T"]:
    ctx.need(k, 20)
  for f in ["zlist", "zdict", "llist", "ldict", "zexpr"]:
    ctx.need("form:" + f, 50)
  for m in ["none", "list", "tuple", "gen", "callable", "endless", "stream",
            "estream", "deque", "iter", "partial"]:
    ctx.need("memory:" + m, 50)
  ctx.need("zero:Lin", 200)
  ctx.need("big-integer-samples-compared-exactly", 20)
  ctx.need("outputs-compared", 5000)
  ctx.need("complex-unit-modulus-coefficient", 100)
  ctx.need("concurrent-filter-calls", 200)
