META = {
  "rule":
    "two kinds of case. stab = (coefficient type, construction variant, gain, "
    "real poles, conjugate pole pairs, numerator): the denominator is "
    "gain * prod(1 - p z^-1) over CHOSEN rational poles (real, and re +- im j "
    "with rational re/im, inside / exactly on / outside the unit circle), so "
    "the truth 'every |p|^2 < 1' is known by construction; every 1 and "
    "unordered 2 real poles from n/4 (|n|<=8) and every pair a/5 +- b/5 j "
    "(|a|<=6, 1<=b<=6), each with gains 1,-1,2,-3,1/2, are enumerated "
    "completely each run (preceded by the documented witness 1/(2 - z^-1)), "
    "plus random sets of 1..4 poles/pairs (order <= 8; 12% mirrored sets "
    "P u -P, i.e. polynomials in z^-2) "
    "with gains from {1,-1,2,-3,1/2,5,-1/3,3/4,-7/5,10,1/10,-2} or an integer "
    "clearing gain, as Fraction / float / int coefficients, built from "
    "coefficient lists or from z expressions. rt = (profile, r0, k_1..k_p, "
    "lag type, extra lags): rational reflection vectors of order 1..8 with a "
    "non-zero last entry (orders 1..3 over {0,+-1/4,+-1/2,+-3/4} enumerated "
    "completely); r is synthesised by the exact inverse Levinson recursion. A "
    "case is non-trivial when a verdict or a coefficient sequence was "
    "compared; distinct = distinct case descriptions (hash of repr)",
  "assumptions": [
    "Schur-Cohn: a monic polynomial has all roots strictly inside the unit "
    "circle iff every step-down reflection coefficient has modulus < 1 (used "
    "only as a self-check of the oracle and to decide whether a float verdict "
    "is well-posed; the truth itself comes from the chosen poles)",
    "stability verdicts are judged in exact arithmetic (Fraction coefficients, "
    "no intermediate reflection coefficient exactly zero before the deciding "
    "stage); where the library's own float-first design turns the step-down "
    "into floats (int / float coefficients, or Poly.zero == 0.0 entering at an "
    "exactly-zero intermediate coefficient) a verdict is judged only if every "
    "pole has ||p|^2 - 1| >= 1/100 and every reflection coefficient up to the "
    "deciding stage is at least max(1e-6, 1e-10 * amplification) away from "
    "+-1; other such cases are counted as unjudged",
    "levinson_durbin computes in floats even for Fraction lags (z ** -m "
    "injects 0.0), so the Levinson round trip is compared with the tolerance "
    "1e-10 * prod max(1, 1/|1-|k_m||) for |k| <= 9/10 (amplification <= 1e4) "
    "and 1e-9 * the same product for vectors containing |k| >= 5/4 (order <= "
    "4, amplification <= 1e3): >= 3000 x the worst error seen on the unchanged "
    "tree and >= 1000 x below the effect of a dropped (1-k^2) factor with the "
    "smallest non-zero |k| = 1/8",
    "reflection vectors with an intermediate |k_m| = 1 are only given to "
    "parcor directly (exact step-up filter), not to levinson_durbin, whose "
    "own ParCorError at E_m = 0 the statement does not cover",
    "numerators never share a root with the chosen poles, so 'the poles of f' "
    "are exactly the chosen ones (plus z = 0 for a pure delay)"],
  "level_text":
    "Runtime monitoring of the real parcor / parcor_stable / levinson_durbin "
    "code on inputs whose answer is known by construction. Stability: the "
    "pole set is chosen, the denominator is its exact rational product times "
    "a non-zero gain, and the boolean returned by parcor_stable is compared "
    "with 'all |p|^2 < 1' decided in exact rationals; with Fraction "
    "coefficients the library's arithmetic stays exact, so poles exactly on "
    "the circle are decided exactly. Step-down: every value yielded by "
    "parcor on exact step-up filters is compared with == against the "
    "generating reflection coefficients (last first), the step-up from the "
    "yielded values must rebuild the filter, and ParCorError is accepted only "
    "directly after a yielded |k| == 1. Levinson round trip: lags from the "
    "exact inverse recursion, coefficients / error / yielded k's compared "
    "within a calibrated tolerance. Small pole and reflection grids are "
    "exhaustive on every run, larger ones sampled; sampling gives evidence, "
    "not proof, beyond the enumerated grids.",
  "soft_s": {"quick": 25, "thorough": 270},
  "technique": "runtime monitor: chosen-pole construction oracle + exact "
               "rational step-up / inverse-Levinson oracle, exhaustive small "
               "grids + random cases",
}

# EXTENSION families added after the seeded-change rounds
META["rule"] += (" Added after the seeded-change rounds: " '(c11_x) denominators of order 100..104 built by exact step-up with one exactly-zero low-stage reflection coefficient and any gain' ".")
