"""Worker process: runs one shard of one property's workload.

usage: python -m vlib.shard PROP TIER SEED SHARD NSHARDS OUTFILE SOFT_S [REPLAY]
"""
import faulthandler
import importlib
import json
import os
import signal
import sys
import threading
import warnings


def main(argv):
  prop, tier, seed, shard, nshards, outfile, soft_s = argv[:7]
  replay = argv[7] if len(argv) > 7 else None
  seed, shard, nshards, soft_s = int(seed), int(shard), int(nshards), float(soft_s)
  faulthandler.enable()
  warnings.simplefilter("ignore", SyntaxWarning)

  from vlib.ctx import Ctx, case_eval
  ctx = Ctx(prop, tier, seed, shard, nshards, soft_s=soft_s,
            replay=bool(replay))
  ctx.partial_path = outfile + ".partial"

  # process-level monitors: exceptions Python would only print
  def unraisable(info):
    ctx.count("unraisable:%s" % type(info.exc_value).__name__)
    if len(ctx.notes) < 5:
      ctx.notes.append({"unraisable": repr(info.exc_value),
                        "object": repr(info.object)[:200]})
  sys.unraisablehook = unraisable
  ctx.thread_exceptions = []
  def thread_exc(args):
    ctx.count("thread_exception:%s" % args.exc_type.__name__)
    ctx.thread_exceptions.append((args.exc_type.__name__, repr(args.exc_value),
                                  getattr(args.thread, "name", "?")))
  threading.excepthook = thread_exc

  repo = os.path.realpath(os.environ.get("VERIF_REPO", "/repo"))
  import audiolazy
  path = os.path.realpath(audiolazy.__file__)
  ctx.flag("audiolazy_path", path)
  ctx.flag("python", sys.version.split()[0])
  if not path.startswith(repo + os.sep):
    ctx.notes.append({"fatal": "audiolazy imported from %s, not under %s"
                      % (path, repo)})
    ctx.count("harness_errors")
    with open(outfile, "w") as f:
      json.dump(ctx.result(), f)
    return 0

  mod = importlib.import_module("props." + prop.lower())
  if hasattr(mod, "setup"):
    mod.setup(ctx)

  # A single case that burns CASE_CPU_S seconds of CPU (a library loop that
  # never ends on an endless source, ...) is abandoned so that the rest of the
  # shard still runs; it is an inconclusive note, never a verdict.  Not for
  # checks that run library code on several threads (the signal arrives in
  # the main thread only).
  case_cpu_s = float(getattr(mod, "CASE_CPU_S", 60))
  use_timer = case_cpu_s > 0 and hasattr(signal, "setitimer")

  class CaseTimeout(BaseException):
    pass

  def on_timer(signum, frame):
    raise CaseTimeout()
  if use_timer:
    signal.signal(signal.SIGVTALRM, on_timer)

  def one(case):
    try:
      if use_timer:
        signal.setitimer(signal.ITIMER_VIRTUAL, case_cpu_s)
      try:
        nontrivial = mod.run_case(ctx, case)
      finally:
        if use_timer:
          signal.setitimer(signal.ITIMER_VIRTUAL, 0)
    except CaseTimeout:
      ctx.count("case-abandoned-after-cpu-budget")
      ctx.count("harness_errors")
      if len(ctx.notes) < 5:
        ctx.notes.append({"harness_error": "case used more than %g s of CPU "
                          "and was abandoned" % case_cpu_s,
                          "case_repr": repr(case)[:1500]})
      ctx.dump_partial()
      nontrivial = False
    except Exception as exc:  # noqa
      ctx.crash(case, exc)
      nontrivial = False
    ctx.case_done(case, nontrivial is not False)

  if replay:
    with open(replay) as f:
      wit = json.load(f)
    one(case_eval(wit["case_repr"]))
  else:
    for case in mod.cases(ctx):
      one(case)
      if ctx.counters["case-abandoned-after-cpu-budget"] >= 3:
        # the run is inconclusive anyway (unless a violation was witnessed):
        # do not burn the budget of every further spinning case
        ctx.notes.append({"harness_error": "three cases abandoned: the rest "
                          "of this shard's workload was skipped"})
        break
    if hasattr(mod, "finish"):
      mod.finish(ctx)

  res = ctx.result()
  with open(outfile + ".hashes", "wb") as f:
    f.write(b"".join(sorted(ctx.hashes)))
  with open(outfile, "w") as f:
    json.dump(res, f)
  return 0


if __name__ == "__main__":
  sys.exit(main(sys.argv[1:]))
