#!/usr/bin/env python3
"""For every `fix:` commit of /repo: revert just that commit on a scratch copy
and run the check of the property it was found by - the violation must come
back (exit 1), i.e. the `fixed` entries of known_findings.json suppress nothing.

usage: tools/fix_revert_check.py [--jobs N]
"""
import json
import os
import shutil
import subprocess
import sys
import tempfile

HERE = os.path.dirname(os.path.dirname(os.path.abspath(__file__)))


def sh(cmd, **kw):
  r = subprocess.run(cmd, capture_output=True, text=True, **kw)
  return r.returncode, r.stdout + r.stderr


def main():
  kf = json.load(open(os.path.join(HERE, "known_findings.json")))["findings"]
  by_commit = {}
  for f in kf:
    by_commit.setdefault(f["commit"], []).append(f)
  rc, log = sh(["git", "-C", "/repo", "log", "--format=%h %s"])
  fixes = [l.split(" ", 1) for l in log.splitlines() if " fix:" in " " + l]
  bad = 0
  for commit, subject in fixes:
    entries = [e for c, es in by_commit.items() for e in es
               if commit.startswith(c) or c.startswith(commit)]
    if not entries:
      print("%s NO-ENTRY in known_findings.json: %s" % (commit, subject))
      bad += 1
      continue
    tmp = tempfile.mkdtemp(prefix="verif-revert-")
    try:
      shutil.copytree("/repo/audiolazy", os.path.join(tmp, "audiolazy"),
                      ignore=shutil.ignore_patterns("__pycache__"))
      rc, diff = sh(["git", "-C", "/repo", "show", "-R", "--format=", commit,
                     "--", "audiolazy"])
      p = subprocess.run(["patch", "-p1", "-s", "--no-backup-if-mismatch"],
                         input=diff, text=True, cwd=tmp, capture_output=True)
      if p.returncode:
        print("%s REVERT-DOES-NOT-APPLY (later commits touch the same lines): "
              "%s" % (commit, subject))
        continue
      for prop in sorted({e["property"] for e in entries}):
        env = dict(os.environ, VERIF_REPO=tmp, VERIF_SEED="0")
        rc, out = sh([os.path.join(HERE, "check"), prop, "--no-evidence"],
                     env=env)
        keys = [l.strip()[4:].split(" ")[0] for l in out.splitlines()
                if l.strip().startswith("key=")]
        want = {e["key"] for e in entries if e["property"] == prop}
        hit = sorted(k for k in keys if any(
          k == w or k.split("/")[0] == w.split("/")[0] for w in want))
        ok = rc == 1
        bad += not ok
        print("%s %s revert -> exit %d %s  keys=%s  (%s)" % (
          commit, prop, rc, "VIOLATION-RETURNS" if ok else "** NOT REPORTED **",
          (hit or keys)[:3], subject[:60]), flush=True)
    finally:
      shutil.rmtree(tmp, ignore_errors=True)
  print("fix commits whose revert is not reported:", bad)
  return 1 if bad else 0


if __name__ == "__main__":
  sys.exit(main())
