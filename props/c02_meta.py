META = {
  "rule":
    "cases: every entry of a catalogue of ~210 stage constructors (all 35 "
    "Stream operator methods with a scalar / Stream / generator operand, "
    "Stream methods, copies / tee / thub uses, lazy_itertools wrappers, FIR / "
    "IIR / time-varying / cascade / parallel filters, blocks, zero_pad, "
    "chunks, sample-wise analysis tools, Streamix, ControlStream, "
    "stream-argument synthesis, resample, overlap-add, STFT wrapper, "
    "broadcasting functions) x number of outputs K in {1,2,3,5,kmax} x "
    "source variant (endless probe / probe that raises past need(K) / finite "
    "probe holding exactly need(K) items) - enumerated completely every run - "
    "plus random chains of 2..4 composable stages with an optional "
    "blockenizer tail. Non-trivial = construction observed and at least one "
    "output requested; distinct = distinct case descriptions",
  "assumptions": [
    "itertools.product / permutations / combinations* are not stream stages "
    "(they read their whole pool by definition) and are excluded",
    "a filter's `memory` iterable is not the source and is only recorded",
    "pull counts are judged after each successful output, never at the end of "
    "a stream (where zip legitimately pulls one more item from the longer "
    "operand)",
    "'exactly' is asserted for sample-wise stages and blockenizers; "
    "look-ahead stages (resample, overlap-add, STFT, stream-argument "
    "oscillators) are judged against the statement's upper bound"],
  "level_text":
    "Runtime monitoring with pull-counting probes as sources: constructing a "
    "stage must pull nothing, and after each of the first K outputs every "
    "source must show exactly (sample-wise stages, blockenizers) or at most "
    "(documented look-ahead) the number of pulls the statement allows; "
    "capped probes raise on any extra pull so an eager stage fails instead of "
    "hanging. The whole catalogue is run on every check.",
  "technique": "runtime monitor: pull-counting / over-read-raising source "
               "probes under a catalogue of stage constructors and chains",
}

# EXTENSION families added after the seeded-change rounds
META["rule"] += (" Added after the seeded-change rounds: " 'stages with an intrinsic end (limit, islice with stop) driven to their end; design filters with stream-valued parameters as second sources; heavy-decimation resample entries judged against the exact last-neighbour bound; fractional mixer deltas' ".")
