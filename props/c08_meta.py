META = {
  "rule":
    "cases are (variant, items, size, hop, padval) for blocks / Stream.blocks / "
    "zero_pad: every (len 0..40, size 1..9, hop 1..12) triple enumerated "
    "completely each run plus random larger triples with heterogeneous items "
    "and periodic streams; a case is non-trivial when at least one block (or "
    "padded item) was yielded and compared; distinct = distinct case "
    "descriptions (hash of repr)",
  "assumptions": [
    "the consumer snapshots each yielded deque before advancing (the deque "
    "object is reused by design)"],
  "level_text":
    "Runtime monitoring of the real blocks / Stream.blocks / zero_pad "
    "generators: every yielded block is snapshotted and compared with list "
    "slicing. The (len 0..40, size 1..9, hop 1..12) space is enumerated "
    "completely on every run; larger sizes/hops, heterogeneous items and "
    "periodic streams are sampled. Exhaustive on the small space, sampled "
    "beyond it - the right level for a pure index-bookkeeping function.",
  "technique": "runtime monitor: output snapshots vs list-slicing oracle, "
               "exhaustive small space + random cases",
}

# EXTENSION families added after the seeded-change rounds
META["rule"] += (" Added after the seeded-change rounds: " 'inputs given as deque, as a Sequence supporting integer indexes only, as a block yielded by blocks itself; Stream.blocks called all-positionally' ".")
