"""Hand-maintained MANIFEST fields."""
SOURCE_COMMITS = []      # env-guarded hook commits in /repo (none needed)
NOT_APPLICABLE = {}      # property id -> reason, for properties not claimed
