"""C17 - audio playback delivers every sample once, in order, and always shuts
down.  Real AudioIO / AudioThread code on real threads under the controlled
random scheduler of vlib/sched.py, with a fake PyAudio backend that records
every device call."""
import itertools
import random
import struct
import sys
import threading
import time
import warnings

import audiolazy
from audiolazy import lazy_io

from vlib import sched as S

ID = "C17"
MAX_STEPS = 6000
# library lines one thread may run between two yield points (see Harness)
LINE_BUDGET = 20000
MAX_STEPS_LINE = 40000


def setup(ctx):
  S.install_fake_backend()
  warnings.simplefilter("ignore", DeprecationWarning)
  # AudioIO.__del__ calls close() from the garbage collector at arbitrary
  # points; scenarios close explicitly, so it is disabled for reproducibility
  lazy_io.AudioIO.__del__ = lambda self: None
  ctx.seen_interleavings = set()


def sample(k):
  return ((k * 7) % 33 - 16) / 8.0      # dyadic: exact as float32


def endless(offset):
  k = offset
  while True:
    yield sample(k)
    k += 1


def fmt_of(spec):
  """Device sample format of a player spec: kind "finite-h" plays 16 bit
  integers (dfmt="h"), "finite-i" / "finite-b" 32 / 8 bit ones; the plain
  kinds play the default 32 bit floats."""
  return spec[0].split("-")[1] if "-" in spec[0] else "f"


def isample(k, fmt):
  """Distinct integer samples that fit the format."""
  return (k * 7 + 1) % 120 - 60 if fmt == "b" else (k * 37 + 11) % 30000 - 15000


def play_kwargs(spec):
  kw = {"chunk_size": spec[2], "channels": spec[3]}
  if fmt_of(spec) != "f":
    kw["dfmt"] = fmt_of(spec)
  return kw


def expected_bytes(spec, nchunks):
  """First nchunks chunks the device must receive for a player spec."""
  kind, length, cs, ch = spec
  per = cs * ch
  fmt = fmt_of(spec)
  out = []
  for c in range(nchunks):
    vals = []
    for j in range(per):
      idx = c * per + j
      if kind == "endless" or idx < length:
        vals.append(sample(idx + 3 * cs) if fmt == "f" else
                    isample(idx + 3 * cs, fmt))
      else:
        vals.append(0.0 if fmt == "f" else 0)
    out.append(struct.pack("%d%s" % (per, fmt), *vals))
  return out


def total_chunks(spec):
  kind, length, cs, ch = spec
  if kind == "endless":
    return None
  per = cs * ch
  return (length + per - 1) // per


def make_iterable(spec):
  kind, length, cs, ch = spec
  if kind == "endless":
    return endless(3 * cs)
  fmt = fmt_of(spec)
  vals = [sample(i + 3 * cs) if fmt == "f" else isample(i + 3 * cs, fmt)
          for i in range(length)]
  return vals if length % 2 else iter(vals)


# ----------------------------------------------------------------------------
def rspec(rng):
  cs = rng.randint(1, 8)
  ch = rng.choice([1, 1, 2])
  if rng.random() < 0.3:
    return ("endless", 0, cs, ch)
  kind = "finite" if rng.random() < 0.8 else \
         rng.choice(["finite-h", "finite-i", "finite-b"])
  return (kind, rng.randint(0, 3 * cs * ch + rng.randint(0, cs)), cs, ch)


def rhistory(rng, nplayers, wait):
  """Control history + the additions that make `wait=True` terminate."""
  specs = [rspec(rng) for _ in range(nplayers)]
  paused = [False] * nplayers
  stopped = [False] * nplayers
  hist = []
  for _ in range(rng.randint(0, 10)):
    r = rng.random()
    n = len(specs)
    if r < 0.25:
      hist.append(("idle", rng.randint(1, 10)))
    elif r < 0.48:
      i = rng.randrange(n)
      hist.append(("pause", i))
      paused[i] = True
    elif r < 0.68:
      i = rng.randrange(n)
      hist.append(("resume", i))
      paused[i] = False
    elif r < 0.88:
      i = rng.randrange(n)
      hist.append(("stop", i))
      stopped[i] = True
    elif n < 3:
      specs.append(rspec(rng))
      paused.append(False)
      stopped.append(False)
      hist.append(("play", len(specs) - 1))
  if wait:
    # "wait for all audio" only has a terminating meaning when nothing is left
    # paused and every endless stream has been told to stop
    for i, spec in enumerate(specs):
      if paused[i] and not stopped[i]:
        hist.append(("resume", i))
      if spec[0] == "endless" and not stopped[i]:
        hist.append(("stop", i))
  return specs, hist


def cases(ctx):
  rng = ctx.rng
  line = False
  for _ in ctx.loop(3200, 640000):
    wait = rng.random() < 0.45
    nplayers = rng.randint(1, 3)
    specs, hist = rhistory(rng, nplayers, wait)
    initial = nplayers
    yield ("scn", specs, initial, hist, wait,
           rng.choice(["close", "close", "with", "close2"]),
           rng.getrandbits(32), rng.choice([0.0, 0.0, 0.5, 0.8, 0.95]), False)
  for _ in ctx.loop(400, 60000):
    specA, specB = rspec(rng), ("finite", rng.randint(1, 30), rng.randint(1, 6),
                                1)
    yield ("two", specA, specB, rng.choice(["A-first", "B-first"]),
           rng.randint(0, 12), rng.getrandbits(32), rng.choice([0.0, 0.5, 0.9]))
  for _ in ctx.loop(400, 60000):
    wait = rng.random() < 0.4
    specs = [("finite", rng.randint(0, 20), rng.randint(1, 6), 1)
             for _ in range(rng.randint(0, 2))]
    yield ("conc", specs, ("finite", rng.randint(0, 16), rng.randint(1, 5), 1),
           wait, rng.randint(0, 8), rng.getrandbits(32),
           rng.choice([0.0, 0.5, 0.9]))
  for _ in ctx.loop(400, 60000):
    wait = rng.random() < 0.4
    specs = [("finite", rng.randint(0, 20), rng.randint(1, 6), 1)
             for _ in range(rng.randint(0, 2))]
    # (chunk size, samples read before the close, stop() called before it)
    recs = [(rng.randint(1, 6), rng.choice([0, 0, 1, 3, 6, 7, 13]),
             rng.random() < 0.25) for _ in range(rng.randint(1, 3))]
    yield ("rec", specs, recs, wait, rng.randint(0, 8), rng.getrandbits(32),
           rng.choice([0.0, 0.5, 0.9]))
  for _ in ctx.loop(240, 24000):
    wait = rng.random() < 0.45
    nplayers = rng.randint(1, 3)
    specs, hist = rhistory(rng, nplayers, wait)
    yield ("free", specs, nplayers, hist, wait,
           rng.choice(["close", "with", "close2"]), rng.getrandbits(32))
  if True:
    for _ in ctx.loop(160, 48000):
      wait = rng.random() < 0.45
      nplayers = rng.randint(1, 3)
      specs, hist = rhistory(rng, nplayers, wait)
      yield ("scn", specs, nplayers, hist, wait,
             rng.choice(["close", "with"]), rng.getrandbits(32),
             rng.choice([0.0, 0.5, 0.9]), True)


def play_history(specs, initial, hist, wait, style, handles, stopped, flow,
                 idle):
  """The main-thread side of a scenario (same code under the controlled
  scheduler and in free-running mode)."""
  aio = lazy_io.AudioIO(wait)

  def start(i):
    kind, length, cs, ch = specs[i]
    th = aio.play(make_iterable(specs[i]), **play_kwargs(specs[i]))
    handles.append(th)
  if style == "with":
    aio.__enter__()
  for i in range(initial):
    start(i)
  for op in hist:
    if op[0] == "idle":
      for _ in range(op[1]):
        idle()
    elif op[0] == "pause":
      handles[op[1]].pause()
    elif op[0] == "resume":
      handles[op[1]].play()
    elif op[0] == "stop":
      handles[op[1]].stop()
      stopped.add(op[1])
    elif op[0] == "play":
      start(op[1])
  if style == "with":
    aio.__exit__(None, None, None)
  else:
    aio.close()
  flow["close_returned"] = True
  flow["terminated_at_close"] = [pa.terminated for pa in
                                 S.FakePyAudio.instances]
  if style == "close2":
    aio.close()
  try:
    aio.play([0.0, 0.5], chunk_size=2)
    flow["play_after_close"] = "accepted"
  except RuntimeError:
    flow["play_after_close"] = "raised"


def run_free(ctx, case):
  """Secondary workload: the same scenarios with real pre-emption (no
  scheduler): tiny switch interval and random micro-sleeps inside the fake
  device.  A stuck run can only be seen as a wall-clock watchdog timeout and
  is therefore inconclusive, never a violation."""
  _, specs, initial, hist, wait, style, sseed = case
  if not ctx.replay and (ctx.counters.get("violations_total") or
                         ctx.counters.get("free-run-watchdog-timeouts")):
    # the controlled scheduler already has a witness (or a free run already
    # hung): do not spend the budget waiting for wall-clock watchdogs
    ctx.count("free-running-skipped")
    return False
  rng = random.Random(sseed)
  delays = [0, 0, 0, 1e-5, 5e-5, 2e-4]
  S.FakePyAudio.instances[:] = []
  S.FREE_DELAY = lambda: time.sleep(rng.choice(delays))
  old_interval = sys.getswitchinterval()
  sys.setswitchinterval(1e-5)
  handles, stopped = [], set()
  flow = {"close_returned": False, "play_after_close": None, "drained": True}
  errors = []

  def body():
    try:
      play_history(specs, initial, hist, wait, style, handles, stopped, flow,
                   lambda: time.sleep(rng.choice(delays)))
    except BaseException as exc:  # noqa
      errors.append(exc)
  worker = threading.Thread(target=body, daemon=True)
  try:
    worker.start()
    worker.join(30.0)
    alive = worker.is_alive()
    if not alive:
      for th in handles:
        threading.Thread.join(th, 10.0)
        alive = alive or th.is_alive()
  finally:
    sys.setswitchinterval(old_interval)
    S.FREE_DELAY = None
  ctx.count("free-running-scenarios")
  if alive:
    ctx.count("free-run-watchdog-timeouts")
    ctx.count("harness_errors")
    ctx.notes.append({"harness_error": "free-running scenario exceeded the "
                      "wall-clock watchdog (inconclusive)",
                      "case_repr": repr(case)[:1500]})
    return True
  if errors:
    raise errors[0]
  if getattr(ctx, "thread_exceptions", None):
    errs = list(ctx.thread_exceptions)
    del ctx.thread_exceptions[:]
    ctx.violation("player-thread-exception", case, errors=errs)
    return True
  return judge(ctx, case, specs, stopped, wait, flow)


def run_special(ctx, case):
  """Two extra scenario families under the controlled scheduler:
  ("two", specA, specB, order, idle, sseed, stick): two managers alive at the
      same time - closing one must not touch the other's players;
  ("conc", specs, new_spec, wait, idle, sseed, stick): a second control thread
      calls AudioIO.play while the main thread closes the manager - the call
      either raises or its player is shut down by that close."""
  kind = case[0]
  sseed, stick = case[-2], case[-1]
  rng = random.Random(sseed)

  def chooser(enabled, cur):
    if stick and cur in enabled and rng.random() < stick:
      return cur
    return enabled[rng.randrange(len(enabled))]

  S.FakePyAudio.instances[:] = []
  flows = []
  outcome = {}
  h = S.Harness(lazy_io, chooser, MAX_STEPS, False,
                line_budget=LINE_BUDGET)
  with h:
    sch = h.sched
    if kind == "two":
      _, specA, specB, order, idle = case[:5]
      aioA, aioB = lazy_io.AudioIO(False), lazy_io.AudioIO(True)
      for aio, spec in ((aioA, specA), (aioB, specB)):
        aio.play(make_iterable(spec), **play_kwargs(spec))
      for _ in range(idle):
        sch.switch("idle")
      for aio in ((aioA, aioB) if order == "A-first" else (aioB, aioA)):
        aio.close()
        flows.append((aio, aio._pa.terminated))
    elif kind == "rec":
      _, specs, recs, wait, idle = case[:5]
      aio = lazy_io.AudioIO(wait)
      for spec in specs:
        aio.play(make_iterable(spec), **play_kwargs(spec))
      streams = [aio.record(chunk_size=cs) for cs, _, _ in recs]
      recorded = []
      for st, (cs, nread, stop_first) in zip(streams, recs):
        recorded.append(st.take(nread) if nread else [])
        if stop_first:
          st.stop()
      for _ in range(idle):
        sch.switch("idle")
      try:
        aio.close()
        outcome["close"] = "returned"
      except Exception as exc:  # noqa
        outcome["close"] = "%s: %s" % (type(exc).__name__, exc)
      flows.append((aio, aio._pa.terminated))
      outcome["recorded"] = recorded
      if outcome["close"] != "returned":
        # harness hygiene only: finish the recording generators here, not in
        # the garbage collector during some later scenario
        for st in streams:
          try:
            st.stop()
            st.take(1000)
          except Exception:  # noqa
            pass
    else:
      _, specs, new_spec, wait, idle = case[:5]
      aio = lazy_io.AudioIO(wait)
      for spec in specs:
        aio.play(make_iterable(spec), **play_kwargs(spec))

      def second_control_thread():
        try:
          aio.play(make_iterable(new_spec), **play_kwargs(new_spec))
          outcome["play"] = "accepted"
        except RuntimeError:
          outcome["play"] = "raised"
      st2 = h.spawn("control2", second_control_thread)
      for _ in range(idle):
        sch.switch("idle")
      aio.close()
      flows.append((aio, aio._pa.terminated))
      sch.switch("join control2", pred=lambda: st2.status == "done",
                 blocked_on="join control2")
    drained = False
    sch.switch("drain", pred=lambda: sch.all_others_done(h.main),
               blocked_on="drain: players retire")
    drained = True
  sch = h.sched
  ctx.count("scenarios")
  ctx.count("special:" + kind)
  ctx.count("steps", sch.steps)
  sig = hash(tuple(sch.choices))
  if sig not in ctx.seen_interleavings:
    ctx.seen_interleavings.add(sig)
    ctx.count("distinct-interleavings")
  if h.os_threads_stuck:
    ctx.count("harness_errors")
    return True
  if sch.aborted in ("deadlock", "step-bound", "spin-without-yield-point"):
    ctx.violation("%s/%s-scenario" % (sch.aborted, kind), case,
                  threads=getattr(sch, "abort_state", None),
                  spinning_at=getattr(h, "spin_at", None),
                  tail=getattr(sch, "tail", [])[-40:])
    return True
  if h.thread_errors:
    ctx.violation("player-thread-exception", case, errors=h.thread_errors)
    return True
  if not drained:
    ctx.violation("player-alive-after-close", case)
    return True
  if kind == "two":
    pas = S.FakePyAudio.instances
    if len(pas) != 2:
      ctx.violation("backend/instances", case, n=len(pas))
      return True
    for (aio, term), spec, wait in zip(
        sorted(flows, key=lambda f: pas.index(f[0]._pa)),
        (case[1], case[2]), (False, True)):
      flow = {"terminated_at_close": [term], "play_after_close": "raised"}
      judge(ctx, case, [spec], set(), wait and spec[0] != "endless", flow,
            pa=aio._pa)
    return True
  if kind == "rec":
    aio, term = flows[0]
    nrec = len(case[2])
    ctx.count("recordings-open-at-close:%d" % nrec)
    if any(r[1] == 0 for r in case[2]):
      ctx.count("recording-never-read")
    if outcome.get("close") != "returned":
      ctx.violation("close-raises-with-open-recordings", case,
                    error=outcome.get("close"), recordings=nrec)
      return True
    flow = {"terminated_at_close": [term], "play_after_close": "raised"}
    specs = list(case[1])
    judge(ctx, case, specs, set(range(len(specs))) if not case[3] else set(),
          case[3], flow, pa=aio._pa, inputs=nrec)
    pa = aio._pa
    for j, (got, (cs, nread, _)) in enumerate(zip(outcome["recorded"],
                                                  case[2])):
      dev = pa.all_streams[len(specs) + j]
      want = [S.rec_sample(dev.index, i) for i in range(nread)]
      ctx.count("recorded-samples-compared", len(want))
      if list(got) != want:
        ctx.violation("recording/lost-duplicated-or-reordered", case,
                      recording=j, got=list(got), want=want)
        return True
    return True
  aio, term = flows[0]
  specs_all = list(case[1])
  if outcome.get("play") == "accepted":
    ctx.count("concurrent-play:accepted")
    specs_all.append(case[2])
  else:
    ctx.count("concurrent-play:" + str(outcome.get("play")))
  flow = {"terminated_at_close": [term], "play_after_close": "raised"}
  # nobody was stopped by the history, but close(wait=False) stops them all
  judge(ctx, case, specs_all, set(range(len(specs_all))) if not case[3]
        else set(i for i, sp in enumerate(specs_all) if sp[0] == "endless"),
        case[3], flow, pa=aio._pa)
  return True


# ----------------------------------------------------------------------------
def run_case(ctx, case):
  if case[0] == "free":
    return run_free(ctx, case)
  if case[0] in ("two", "conc", "rec"):
    return run_special(ctx, case)
  _, specs, initial, hist, wait, style, sseed, stick, line = case
  rng = random.Random(sseed)

  def chooser(enabled, cur):
    if stick and cur in enabled and rng.random() < stick:
      return cur
    return enabled[rng.randrange(len(enabled))]

  S.FakePyAudio.instances[:] = []
  handles = []
  stopped = set()
  flow = {"close_returned": False, "play_after_close": None, "drained": False}
  h = S.Harness(lazy_io, chooser, MAX_STEPS_LINE if line else MAX_STEPS, line,
                line_budget=None if line else LINE_BUDGET)
  with h:
    sch = h.sched
    play_history(specs, initial, hist, wait, style, handles, stopped, flow,
                 lambda: sch.switch("idle"))
    # stimulus-free drain: players already unregistered retire on their own.
    # The main thread blocks until they have (a random chooser that "sticks"
    # to the main thread would otherwise starve them: that was a false alarm
    # of an earlier version); players that cannot finish show up as an exact
    # deadlock or as the step bound, both reported below.
    sch.switch("drain", pred=lambda: sch.all_others_done(h.main),
               blocked_on="drain: players retire")
    flow["drained"] = True
  sch = h.sched

  # ---- evidence ---------------------------------------------------------------
  ctx.count("scenarios")
  ctx.count("steps", sch.steps)
  ctx.count("context-switches", sch.switches)
  ctx.count("players:%d" % len(specs))
  ctx.count("wait:%s" % wait)
  ctx.count("style:" + style)
  if line:
    ctx.count("line-level-scenarios")
  for op in hist:
    ctx.count("op:" + op[0])
  sig = hash(tuple(sch.choices))
  if sig not in ctx.seen_interleavings:
    ctx.seen_interleavings.add(sig)
    ctx.count("distinct-interleavings")

  # ---- scheduler verdicts -------------------------------------------------------
  if h.os_threads_stuck:
    ctx.count("harness_errors")
    ctx.notes.append({"harness_error": "OS threads did not unwind", "case":
                      repr(case)[:500]})
    return True
  if sch.aborted in ("deadlock", "step-bound", "spin-without-yield-point"):
    halting_alive = []
    for (thread, st) in h.player_threads:
      if st.status != "done" or st.unwinding:
        if getattr(thread, "halting", False):
          halting_alive.append(st.name)
    where = "close" if not flow["close_returned"] else "after-close"
    if halting_alive and not flow["close_returned"]:
      key = "stopped-player-never-terminates"
    else:
      key = "%s/%s" % (sch.aborted, where)
    ctx.violation(key, case, reason=sch.aborted, steps=sch.steps,
                  threads=getattr(sch, "abort_state", None),
                  tail=getattr(sch, "tail", [])[-40:],
                  halting_alive=halting_alive)
    return True
  if h.thread_errors:
    ctx.violation("player-thread-exception", case, errors=h.thread_errors)
    return True
  if not flow["drained"]:
    ctx.violation("player-alive-after-close", case,
                  threads=[(t.tid, t.name, t.status, t.blocked_on)
                           for t in sch.order])
    return True

  return judge(ctx, case, specs, stopped, wait, flow)


def judge(ctx, case, specs, stopped, wait, flow, pa=None, inputs=0):
  # ---- device log verdicts -----------------------------------------------------
  if pa is None:
    pas = S.FakePyAudio.instances
    if len(pas) != 1:
      ctx.violation("backend/instances", case, n=len(pas))
      return True
    pa = pas[0]
  if flow["terminated_at_close"] != [1] or pa.terminated != 1:
    ctx.violation("backend/terminate-count", case, at_close=
                  flow["terminated_at_close"], final=pa.terminated)
    return True
  if flow["play_after_close"] != "raised":
    ctx.violation("play-after-close-accepted", case)
    return True
  if pa._streams or len(pa.all_streams) != len(specs) + inputs:
    ctx.violation("backend/streams-left-open", case, open=len(pa._streams),
                  opened=len(pa.all_streams), players=len(specs),
                  recordings=inputs)
    return True
  for dev in pa.all_streams[len(specs):]:        # input (recording) streams
    if dev.closed != 1:
      ctx.violation("input-stream/close-count", case, closed=dev.closed)
      return True
    if dev.calls_after_close:
      ctx.violation("input-stream/call-after-close-or-terminate", case,
                    calls=dev.calls_after_close)
      return True
    ctx.count("input-streams-checked")
  for i, dev in enumerate(pa.all_streams[:len(specs)]):
    spec = specs[i]
    kind, length, cs, ch = spec
    if dev.closed != 1:
      ctx.violation("device-stream/close-count", case, player=i,
                    closed=dev.closed)
      return True
    if dev.calls_after_close:
      ctx.violation("device-stream/call-after-close-or-terminate", case,
                    player=i, calls=dev.calls_after_close)
      return True
    writes = [e for e in dev.log if e[0] == "write"]
    ctx.count("chunks-received", len(writes))
    want = expected_bytes(spec, len(writes))
    total = total_chunks(spec)
    if total is not None and len(writes) > total:
      ctx.violation("device-stream/extra-chunks", case, player=i,
                    got=len(writes), total=total)
      return True
    for c, (w, exp) in enumerate(zip(writes, want)):
      fmt = fmt_of(spec)
      if w[2] != cs or len(w[1]) != cs * ch * struct.calcsize(fmt):
        ctx.violation("device-stream/chunk-size", case, player=i, chunk=c,
                      nframes=w[2], nbytes=len(w[1]), chunk_size=cs)
        return True
      if w[1] != exp:
        ctx.violation("device-stream/lost-duplicated-or-reordered", case,
                      player=i, chunk=c, got=list(struct.unpack(
                        "%d%s" % (cs * ch, fmt), w[1])),
                      want=list(struct.unpack("%d%s" % (cs * ch, fmt), exp)))
        return True
    must_complete = wait and i not in stopped and total is not None
    if must_complete:
      ctx.count("complete-delivery-required")
      if len(writes) != total:
        ctx.violation("device-stream/incomplete-although-waited", case,
                      player=i, got=len(writes), total=total)
        return True
      if total and length % (cs * ch):
        ctx.count("padded-last-chunk-checked")
        if fmt_of(spec) != "f":
          ctx.count("padded-last-chunk-checked:integer-format")
    elif total is not None and len(writes) == total:
      ctx.count("complete-delivery-observed")
    else:
      ctx.count("prefix-delivery-observed")
  return True


def finish(ctx):
  ctx.need("scenarios", 500)
  ctx.need("padded-last-chunk-checked:integer-format", 20)
  ctx.need("free-running-scenarios", 100)
  ctx.need("special:two", 100)
  ctx.need("special:conc", 100)
  ctx.need("special:rec", 100)
  ctx.need("recording-never-read", 30)
  ctx.need("input-streams-checked", 100)
  for n in (1, 2, 3):
    ctx.need("recordings-open-at-close:%d" % n, 20)
  ctx.need("concurrent-play:accepted", 10)
  ctx.need("concurrent-play:raised", 10)
  ctx.need("distinct-interleavings", 400)
  ctx.need("chunks-received", 2000)
  for op in ["idle", "pause", "resume", "stop", "play"]:
    ctx.need("op:" + op, 100)
  ctx.need("complete-delivery-required", 100)
  ctx.need("padded-last-chunk-checked", 30)
  ctx.need("prefix-delivery-observed", 50)
  for k in ["wait:True", "wait:False", "style:with", "style:close",
            "style:close2", "players:1", "players:2", "players:3"]:
    ctx.need(k, 50)
  ctx.need("line-level-scenarios", 100)
CASE_CPU_S = 0     # library code runs on several threads: no per-case signal
