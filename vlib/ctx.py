"""Per-shard monitoring context: counters, case accounting, violation records.

A property module (props/cNN.py) exposes

    ID      = "C07"
    META    = {...}                      # see vlib/main.py
    cases(ctx)        -> iterator of cases (plain Python data, repr/eval-able)
    run_case(ctx, c)  -> None/True (non-trivial) or False (trivial case)

``run_case`` executes the real library code, observes it, compares with its
oracle and reports through ``ctx.violation(key, case, **detail)`` where ``key``
is a *mechanism* signature (never a case hash).
"""
import collections
import hashlib
import math
import json
import os
import random
import time
import traceback
from fractions import Fraction

inf = float("inf")
nan = float("nan")

EVAL_NS = {"Fraction": Fraction, "inf": inf, "nan": nan,
           "__builtins__": {"True": True, "False": False, "None": None,
                            "frozenset": frozenset, "set": set,
                            "complex": complex, "range": range,
                            "bytes": bytes}}


def case_repr(case):
  return repr(case)


def case_eval(text):
  return eval(text, dict(EVAL_NS))


def jsonable(obj, depth=0):
  """Best-effort conversion of witness details to JSON-able data."""
  if obj is None or isinstance(obj, (bool, int, str)):
    return obj
  if isinstance(obj, float):
    if math.isnan(obj) or math.isinf(obj):
      return repr(obj)
    return obj
  if isinstance(obj, Fraction):
    return str(obj)
  if isinstance(obj, complex):
    return repr(obj)
  if isinstance(obj, bytes):
    return "0x" + obj.hex()
  if depth > 12:
    return repr(obj)
  if isinstance(obj, dict):
    return {str(k) if not isinstance(k, str) else k: jsonable(v, depth + 1)
            for k, v in obj.items()}
  if isinstance(obj, (list, tuple, collections.deque)):
    return [jsonable(v, depth + 1) for v in obj]
  if isinstance(obj, (set, frozenset)):
    return sorted((jsonable(v, depth + 1) for v in obj), key=repr)
  return repr(obj)


class SoftStop(Exception):
  pass


class Ctx(object):
  MAX_VIOLATIONS_PER_KEY = 3
  MAX_SAMPLES = 4

  def __init__(self, prop, tier, seed, shard=0, nshards=1, soft_s=None,
               replay=False):
    self.prop = prop
    self.tier = tier
    self.seed = seed
    self.shard = shard
    self.nshards = nshards
    self.replay = replay
    self.rng = random.Random("%s:%s:%s" % (prop, seed, shard))
    self.counters = collections.Counter()
    self.needs = {}            # counter key -> minimum over all shards
    self.maxerr = {}           # name -> [max err, tol, max ratio]
    self.hashes = set()
    self.evaluations = 0
    self.samples = []
    self.violations = []       # dicts
    self.vio_per_key = collections.Counter()
    self.flags = {}
    self.t0 = time.time()
    self.cpu0 = time.process_time()
    self.soft_s = soft_s
    self.truncated = False
    self.notes = []

  # -- tiers / budgets -----------------------------------------------------
  @property
  def quick(self):
    return self.tier == "quick"

  def pick(self, quick, thorough):
    return quick if self.quick else thorough

  def mine(self, i):
    """Static partition of an enumerated space over the shards."""
    return i % self.nshards == self.shard

  def share(self, quick, thorough):
    total = self.pick(quick, thorough)
    return (total + self.nshards - 1) // self.nshards

  def out_of_time(self):
    # The soft budget is CPU time of this shard, so that what a run covers does
    # not depend on how loaded the machine is; wall-clock time is only a
    # generous backstop (sleeping / blocked workloads).
    if self.soft_s is None:
      return False
    return (time.process_time() - self.cpu0 > self.soft_s or
            time.time() - self.t0 > 4 * self.soft_s)

  def loop(self, quick, thorough, min_frac=0.0):
    """Indices 0..share-1 of this shard's part of a random-case budget.

    Stops early (recording it) when the soft wall-clock limit is exceeded -
    that only shrinks coverage, it is never a verdict."""
    n = self.share(quick, thorough)
    floor = max(16, n // 8)   # always run a minimum, whatever the clock says
    for i in range(n):
      if i >= floor and (i & 15) == 0 and self.out_of_time():
        self.truncated = True
        self.counters["budget_truncated_by_time"] += 1
        return
      yield i

  # -- bookkeeping ----------------------------------------------------------
  def count(self, key, n=1):
    self.counters[key] += n

  def need(self, key, minimum=1):
    self.needs[key] = max(self.needs.get(key, 0), minimum)

  def flag(self, key, value):
    self.flags[key] = value

  def err(self, name, err, tol):
    """Record an observed error against its tolerance (evidence only)."""
    cur = self.maxerr.get(name)
    ratio = (err / tol) if tol else (0.0 if not err else inf)
    if cur is None or ratio > cur[2]:
      self.maxerr[name] = [float(err), float(tol), float(ratio)]

  def case_done(self, case, nontrivial=True):
    self.evaluations += 1
    if nontrivial:
      h = hashlib.blake2b(case_repr(case).encode("utf-8", "replace"),
                          digest_size=8).digest()
      self.hashes.add(h)
      if len(self.samples) < self.MAX_SAMPLES and \
         (self.evaluations in (2, 40, 700, 9000, 50000) or self.replay):
        self.samples.append(case_repr(case)[:1500])

  def sample(self, obj):
    if len(self.samples) < self.MAX_SAMPLES + 2:
      self.samples.append(jsonable(obj))

  def violation(self, key, case, **detail):
    self.counters["violations_total"] += 1
    self.counters["violation:" + key] += 1
    self.vio_per_key[key] += 1
    if self.vio_per_key[key] <= self.MAX_VIOLATIONS_PER_KEY:
      self.violations.append({
        "property": self.prop, "key": key,
        "case_repr": case_repr(case),
        "detail": jsonable(detail),
        "seed": self.seed, "tier": self.tier, "shard": self.shard,
      })
    if self.vio_per_key[key] == 1:
      self.dump_partial()

  partial_path = None

  def dump_partial(self):
    """Witnesses recorded so far survive a later hang of this shard (the
    driver reads this file when the watchdog had to kill the process)."""
    if not self.partial_path:
      return
    try:
      tmp = self.partial_path + ".tmp"
      with open(tmp, "w") as f:
        json.dump(self.result(), f)
      os.replace(tmp, self.partial_path)
    except Exception:  # noqa
      pass

  def crash(self, case, exc):
    """An exception escaped run_case.  With an audiolazy frame in the
    traceback it is behaviour of the library (violation); otherwise it is a
    harness fault (inconclusive)."""
    tb = traceback.extract_tb(exc.__traceback__)
    root = os.path.realpath(os.environ.get("VERIF_REPO", "/repo")) + os.sep
    lib = [f for f in tb if f.filename == "<string>" or
           os.path.realpath(f.filename).startswith(root)]
    text = "".join(traceback.format_exception(type(exc), exc,
                                               exc.__traceback__))[-3000:]
    if lib:
      where = lib[-1]
      key = "unexpected-exception/%s@%s" % (type(exc).__name__, where.name)
      self.violation(key, case, traceback=text)
    else:
      self.counters["harness_errors"] += 1
      if len(self.notes) < 5:
        self.notes.append({"harness_error": text,
                           "case_repr": case_repr(case)[:2000]})

  def result(self):
    return {
      "shard": self.shard, "evaluations": self.evaluations,
      "counters": dict(self.counters), "needs": self.needs,
      "maxerr": self.maxerr, "samples": self.samples,
      "violations": self.violations, "flags": self.flags,
      "truncated": self.truncated, "notes": self.notes,
      "wall_s": time.time() - self.t0,
    }
