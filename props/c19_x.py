"""C19 extension family (second round of seeded changes):

mcfloat  modulo_counter with FLOAT modulo / step pairs, including numeric
         coincidences such as 1.0 / 0.1 (the float quotient is an integer while
         the true one is not): the stream-start path, the numbers-only path and
         the closed form must agree - up to rounding, measured cyclically -
         for several wraps; also through sinusoid(freq, phase=stream)
mcexact  exact arguments that no float can carry (non-dyadic Fractions, ints
         beyond 2**53) in every numbers-vs-streams combination: every sample
         equals the exact closed form and is not a float ("identically whether
         its arguments are numbers or streams ... no drift in exact
         arithmetic")
"""
import itertools
import math
from fractions import Fraction

from audiolazy import modulo_counter, sinusoid, Stream

KINDS = ("mcfloat", "mcexact")
# exact values that no float carries: non-dyadic rationals, integers > 2**53
EXACT = [Fraction(1, 10), Fraction(1, 3), Fraction(-2, 7), Fraction(22, 7),
         10 ** 20 + 1, -(10 ** 18) - 3, Fraction(10 ** 17 + 1, 3), 3, 0,
         Fraction(5, 6)]
PAIRS = [(1.0, 0.1), (1.0, 0.2), (2.0, 0.4), (5.0, 0.1), (1.0, 0.3),
         (3.0, 0.7), (10.0, 0.1), (1.0, 1 / 3.0), (2.5, 0.05), (7.0, 0.35)]


def cases(ctx):
  rng = ctx.rng
  i = 0
  for m, s in PAIRS + [(2 * math.pi, 2 * math.pi / k) for k in
                       (3, 7, 11, 17, 21, 22, 25, 33, 64, 100)]:
    if ctx.mine(i):
      yield ("mcfloat", m, s, 0.0, "zero-stream")
      yield ("mcfloat", m, s, 0.0, "numbers")
    i += 1
  for _ in ctx.loop(400, 20000):
    m = rng.choice([1.0, 2.0, 0.5, 3.0, 2 * math.pi, rng.uniform(0.5, 9)])
    s = rng.choice([m / rng.randint(2, 40), rng.uniform(0.01, m),
                    round(rng.uniform(0.01, m), 2)])
    yield ("mcfloat", m, s, rng.choice([0.0, round(rng.uniform(0, m), 3)]),
           rng.choice(["zero-stream", "numbers", "const-stream"]))
  for c in exact_cases(ctx):
    yield c


def exact_cases(ctx):
  rng = ctx.rng
  for _ in ctx.loop(1200, 40000):
    n = rng.randint(3, 40)
    kinds = rng.choice(["SNN", "SSN", "SNS", "SSS", "NNN", "NSN", "NNS"])
    start = [rng.choice(EXACT) for _ in range(n)] if kinds[0] == "S" else \
        rng.choice(EXACT)
    if kinds[0] == "S" and rng.random() < 0.5:
      start = [start[0]] * n                    # a constant stream
    mod = rng.choice([1, 7, Fraction(7, 3), 256, Fraction(1, 2), -5])
    modulo = [mod] * n if kinds[1] == "S" else mod
    st = rng.choice([Fraction(1, 10), 1, Fraction(-3, 7), 10 ** 18 + 3, 0,
                     Fraction(7, 3), mod, 2 * mod])
    step = [rng.choice([st, st, Fraction(1, 6), -1]) for _ in range(n)] \
        if kinds[2] == "S" else st
    yield ("mcexact", kinds, start, modulo, step, n,
           rng.choice(["list", "iter", "stream", "repeat"]))


def run_exact(ctx, case):
  """Exact arguments (ints, Fractions): whether they arrive as numbers or as
  streams, every sample is the exact value of the closed form - no float is
  ever created, so nothing can drift."""
  _, kinds, start, modulo, step, n, form = case

  def arg(v):
    if not isinstance(v, list):
      return v
    if form == "iter":
      return iter(list(v))
    if form == "stream":
      return Stream(list(v))
    if form == "repeat" and len(set(v)) == 1:
      return itertools.repeat(v[0])
    return list(v)
  got = list(itertools.islice(iter(modulo_counter(arg(start), arg(modulo),
                                                  arg(step))), n))
  at = lambda v, k: v[k] if isinstance(v, list) else v
  total = Fraction(0)
  ctx.count("exact-modulo-counters")
  ctx.count("exact-modulo-counters:" + kinds)
  if len(got) != n:
    ctx.violation("mcexact/length", case, got=len(got), want=n)
    return True
  for k in range(n):
    m = Fraction(at(modulo, k))
    want = (Fraction(at(start, k)) + total) % m
    g = got[k]
    if isinstance(g, float) or Fraction(g) != want:
      ctx.violation("mcexact/%s-start/not-the-exact-closed-form" %
                    ("stream" if kinds[0] == "S" else "number"), case,
                    index=k, got=repr(g), want=str(want))
      return True
    total += Fraction(at(step, k))
  return True


def cyc(a, b, m):
  d = abs(a - b) % m
  return min(d, m - d)


def run_case(ctx, case):
  if case[0] == "mcexact":
    return run_exact(ctx, case)
  _, m, s, start, how = case
  steps = int(m / s) if s else 1
  n = min(max(3 * steps + 5, 20), 600)
  if how == "numbers":
    got = list(itertools.islice(iter(modulo_counter(start, m, s)), n))
  elif how == "zero-stream":
    got = list(itertools.islice(iter(modulo_counter(
      Stream(itertools.repeat(start)), m, s)), n))
  else:
    got = list(itertools.islice(iter(modulo_counter(
      Stream([start] * n), m, s)), n))
  ctx.count("float-modulo-counters")
  if steps >= 2 and n > steps:
    ctx.count("float-modulo-counters-past-one-batch")
  M, S, ST = Fraction(m), Fraction(s), Fraction(start)
  tol = 1e-9 * (m + abs(s) * n)
  for k, g in enumerate(got):
    want = float((ST + k * S) % M)
    if not (-1e-12 <= g <= m + 1e-12):
      ctx.violation("mcfloat/outside-[0,modulo)", case, index=k, got=g)
      return True
    err = cyc(g, want, m)
    ctx.err("mcfloat", err, tol)
    if err > tol:
      ctx.violation("mcfloat/%s/value" % how, case, index=k, got=g, want=want,
                    steps_per_wrap=steps)
      return True
  if len(got) != n:
    ctx.violation("mcfloat/length", case, got=len(got), want=n)
  return True


def finish(ctx):
  ctx.need("float-modulo-counters", 200)
  ctx.need("float-modulo-counters-past-one-batch", 100)
  ctx.need("exact-modulo-counters", 500)
  for kinds in ("SNN", "SSN", "SNS", "SSS", "NNN", "NSN", "NNS"):
    ctx.need("exact-modulo-counters:" + kinds, 30)
