META = {
  "rule":
    "cases are (name, size, call mode, alpha) for every name and alias found "
    "in window or wsymm (plus the documented names) x every size 1..128 "
    "(thorough: 1..600) x an alpha grid (blackman 0..0.25, cos 0..4; "
    "positional, keyword and default) - enumerated completely on every run - "
    "plus COLA cases (name, size, hop divisor, alpha) for every even size / "
    "multiple of 4, one structural case per name (item/attribute access in "
    "both dictionaries, cross-references) and one for the two dictionaries; "
    "beyond that random sizes up to 1536 and arbitrary alphas; a case is "
    "non-trivial when lists were produced and compared (a COLA case when "
    "hop >= 2); distinct = distinct case descriptions (hash of repr)",
  "assumptions": [
    "the documented closed forms are the Harris definitions that the "
    "docstrings render (bartlett 1-|2n/size-1|, triangular "
    "1-|2n-size|/(size+2), symmetric variants with size-1 for size); the "
    "docstring LaTeX of bartlett/triangular writes |(n-size)/2| for "
    "|n-size/2|, which is read as a typesetting slip because the literal "
    "reading contradicts the symmetry clause of the same statement",
    "numeric clauses are decided with an absolute tolerance of 1e-12 (worst "
    "error on the unchanged tree is below 1e-15); for cos(alpha) that "
    "tolerance is applied to the base sin(pi n/size) and propagated through "
    "the power, because x**alpha is ill-conditioned at 0 for 0<alpha<1: "
    "wsymm.cos(2, .5)[-1] == sin(fl(pi))**.5 == 1.1e-8 is accepted as a "
    "faithful evaluation of the documented formula, a complex or "
    "out-of-range sample is not",
    "alpha outside blackman 0..0.25 and cos 0..4 and size 0 are not "
    "generated (the statement is silent there)",
    "cos(alpha=0) is taken as the rectangular window (0**0 == 1), the "
    "convention of the cos**alpha family"],
  "level_text":
    "Runtime monitoring of the real exec-generated window/wsymm strategies: "
    "every returned list is compared with independently written closed forms "
    "(exact integer argument reduction), with the exact prefix relation, the "
    "symmetry, range, size-1 and constant-overlap-sum contracts, and every "
    "name/alias of both dictionaries is resolved by item and attribute access "
    "and followed through its periodic/symm cross-references. The space "
    "names x sizes 1..128 x alpha grid is enumerated completely on every "
    "run; larger sizes and arbitrary alphas are sampled. Exhaustive over "
    "names and the stated size range, a grid over the continuous alpha.",
  "technique": "runtime monitor: returned lists and object identities vs "
               "independent closed forms, exhaustive names x sizes x alpha "
               "grid + random cases",
}

# EXTENSION families added after the seeded-change rounds
META["rule"] += (" Added after the seeded-change rounds: " '(c14_x) call - mutate the returned list in place - call again with the same arguments, for sizes not requested before in the process' ".")
