META = {
  "rule":
    "a case is (construction form, numerator b, denominator a, input length "
    "0..10, memory kind, zero value, sample class): forms ZFilter/LinearFilter "
    "from lists and dicts (sparse delays up to 12, denominators not starting "
    "at delay 0) and z-expressions; coefficients from {0, +-1, 2, -3, dyadic "
    "floats} (exact class) and Fractions (toleranced class, 1e-12 on each "
    "form coefficient); samples are symbolic (Lin x_i), ints or Fractions; "
    "exactness classes follow Python's own arithmetic: symbolic samples are "
    "always exact (Lin works in Fractions) unless a Fraction coefficient is "
    "formatted as a/b or a float coefficient meets a Fraction zero; numeric "
    "samples are compared exactly only with integer coefficients, gain +-1 and "
    "no float zero, otherwise within 1e-9 relative per form coefficient; "
    "memory none / list / tuple / generator / endless generator / callable, "
    "zero symbolic Z or numeric; plus non-causal filters (must raise "
    "ValueError), the all-zero filter, complex coefficients (incl. "
    "unit-modulus ones) against a numeric oracle, and several threads "
    "compiling and running different filters at once. Non-trivial = at least one output "
    "form compared; distinct = distinct case descriptions",
  "assumptions": [
    "memories shorter than the filter order are not generated (statement: "
    "memories of sufficient length)",
    "complex coefficients / samples are checked numerically (1e-9 relative), "
    "not with the real-valued Lin shadow values",
    "Lin arithmetic (exact Fractions) is trusted; floats met in the generated "
    "source are converted exactly"],
  "level_text":
    "Runtime monitoring of the real exec-generated filter generators with "
    "exact linear shadow samples: every output is an exact linear form over "
    "input, memory and zero symbols and must equal the difference-equation "
    "recursion - so each explored (filter, length, memory) combination is "
    "decided for every sample value at once. Coefficient patterns are sampled "
    "to reach each special-cased branch of the code generator (counted and "
    "required in the evidence).",
  "technique": "runtime monitor with exact linear shadow values (symbolic "
               "samples through the real generated code) vs recursion oracle",
}
