#!/usr/bin/env python3
"""Confirm and evaluate independently seeded property-breaking changes.

usage: tools/seed_eval.py import <worktree> <PROP>   # e.g. /tmp/seed/c08 C08
       tools/seed_eval.py run [ID ...] [--tier quick] [--all-checks]

`import` takes the deliverables of a sub-agent (<worktree>/SEED/patch<k>.diff,
demo<k>.py, notes<k>.md), confirms in that scratch worktree that the patched
tree still passes the repository's baseline tests, that the demo fails with the
patch and passes without it, runs the property's check against the patched
tree, and stores everything under seeded/<prop>-<k>/ with a meta.json.
`run` re-applies stored patches to a scratch copy of /repo and runs checks.
Nothing is ever applied to /repo itself.
"""
import argparse
import glob
import json
import os
import shutil
import subprocess
import sys
import tempfile

RECORD = ""
SEED = 0
BASELINE_CHECK = os.path.join(os.path.dirname(os.path.abspath(__file__)),
                              "baseline_check.py")
HERE = os.path.dirname(os.path.dirname(os.path.abspath(__file__)))
PY = "/venv/bin/python"


def sh(cmd, cwd=None, env=None, timeout=3600):
  r = subprocess.run(cmd, cwd=cwd, env=env, capture_output=True, text=True,
                     timeout=timeout)
  return r.returncode, r.stdout + r.stderr


def run_check(prop, tree, tier="quick", seed=0):
  env = dict(os.environ, VERIF_REPO=tree, VERIF_SEED=str(seed))
  rc, out = sh([os.path.join(HERE, "check"), prop, "--tier", tier,
                "--no-evidence"], env=env)
  keys = [l.strip() for l in out.splitlines() if l.strip().startswith("key=")]
  return rc, keys


def run_demo(demo, tree):
  env = dict(os.environ, PYTHONPATH=tree, PYTHONDONTWRITEBYTECODE="1")
  try:
    rc, out = sh([PY, "-W", "ignore", demo], env=env, timeout=600)
  except subprocess.TimeoutExpired:
    return 124, "timeout"
  return rc, out[-600:]


def do_import(wt, prop, tag=""):
  wt = os.path.abspath(wt)
  for patch in sorted(glob.glob(os.path.join(wt, "SEED", "patch*.diff"))):
    k = os.path.basename(patch)[5:-5]
    demo = os.path.join(wt, "SEED", "demo%s.py" % k)
    notes = os.path.join(wt, "SEED", "notes%s.md" % k)
    sid = "%s-%s%s" % (prop.lower(), tag, k)
    print("==", sid)
    sh(["git", "checkout", "--", "."], cwd=wt)
    rc_clean, out_clean = run_demo(demo, wt)
    rc, out = sh(["git", "apply", patch], cwd=wt)
    if rc:
      print("  patch does not apply:", out[-300:])
      continue
    try:
      rc_imp, _ = sh([PY, "-W", "ignore", "-c", "import audiolazy"],
                     env=dict(os.environ, PYTHONPATH=wt))
      rc_base, out_base = sh(["python3", BASELINE_CHECK, wt])
      rc_demo, out_demo = run_demo(demo, wt)
      rc_chk, keys = run_check(prop, wt)
      diff = open(patch).read()
    finally:
      sh(["git", "checkout", "--", "."], cwd=wt)
    confirmed = (rc_imp == 0 and rc_base == 0 and rc_demo not in (0, 124)
                 and rc_clean == 0)
    print("  import ok=%s baseline=%s demo(patched)=%s demo(clean)=%s -> "
          "confirmed=%s" % (rc_imp == 0, out_base.strip().splitlines()[-1][:60],
                            rc_demo, rc_clean, confirmed))
    print("  check %s: exit %s %s" % (prop, rc_chk, "; ".join(keys)[:300]))
    if not confirmed:
      print("  NOT KEPT")
      continue
    dst = os.path.join(HERE, "seeded", sid)
    os.makedirs(dst, exist_ok=True)
    shutil.copy(patch, os.path.join(dst, "patch.diff"))
    shutil.copy(demo, os.path.join(dst, "demo.py"))
    if os.path.exists(notes):
      shutil.copy(notes, os.path.join(dst, "notes.md"))
    meta = {
      "id": sid, "property": prop,
      "origin": "fresh sub-agent given only the property text and a scratch "
                "git worktree of /repo (nothing from /verif)",
      "needs_to_manifest": first_para(notes),
      "files_touched": sorted({l[6:] for l in diff.splitlines()
                               if l.startswith("+++ b/")}),
      "confirmed": {
        "imports": rc_imp == 0,
        "baseline": out_base.strip().splitlines()[-1],
        "demo_exit_with_patch": rc_demo,
        "demo_exit_without_patch": rc_clean,
        "demo_output_with_patch": out_demo.strip()[-400:],
      },
      "ran": [{"cmd": "VERIF_REPO=<patched tree> ./check %s --tier quick"
                      % prop, "exit": rc_chk, "keys": keys}],
      "caught": rc_chk == 1,
    }
    with open(os.path.join(dst, "meta.json"), "w") as f:
      json.dump(meta, f, indent=1)
      f.write("\n")


def do_import_refactor(wt, prop, tag=""):
  """Behaviour-preserving refactorings (sub-agent deliverables): confirm the
  baseline, run the property's check (and, with --all-checks, every check)
  against the refactored tree and expect SILENCE; store under refactors/."""
  wt = os.path.abspath(wt)
  for patch in sorted(glob.glob(os.path.join(wt, "SEED", "patch*.diff"))):
    k = os.path.basename(patch)[5:-5]
    notes = os.path.join(wt, "SEED", "notes%s.md" % k)
    rid = "%s-ref%s%s" % (prop.lower(), tag, k)
    print("==", rid)
    sh(["git", "checkout", "--", "."], cwd=wt)
    rc, out = sh(["git", "apply", patch], cwd=wt)
    if rc:
      print("  patch does not apply:", out[-300:])
      continue
    try:
      rc_imp, _ = sh([PY, "-W", "ignore", "-c", "import audiolazy"],
                     env=dict(os.environ, PYTHONPATH=wt))
      rc_base, out_base = sh(["python3", BASELINE_CHECK, wt])
      props = ALL_PROPS if ALLCHECKS else [prop]
      ran = []
      for p in props:
        rc_chk, keys = run_check(p, wt)
        ran.append({"cmd": "VERIF_REPO=<refactored tree> ./check %s" % p,
                    "exit": rc_chk, "keys": keys})
        print("  check %s: exit %s %s" % (p, rc_chk, "; ".join(keys)[:300]))
    finally:
      sh(["git", "checkout", "--", "."], cwd=wt)
    ok = rc_imp == 0 and rc_base == 0
    print("  import ok=%s baseline=%s" % (rc_imp == 0,
                                          out_base.strip().splitlines()[-1][:70]))
    if not ok:
      print("  NOT KEPT (baseline broken)")
      continue
    dst = os.path.join(HERE, "refactors", rid)
    os.makedirs(dst, exist_ok=True)
    shutil.copy(patch, os.path.join(dst, "patch.diff"))
    if os.path.exists(notes):
      shutil.copy(notes, os.path.join(dst, "notes.md"))
    meta = {"id": rid, "property": prop, "kind": "behaviour-preserving "
            "refactoring written by a fresh sub-agent (property text + scratch "
            "worktree only); the checks must stay silent on it",
            "baseline": out_base.strip().splitlines()[-1], "ran": ran,
            "silent": all(r["exit"] == 0 for r in ran)}
    with open(os.path.join(dst, "meta.json"), "w") as f:
      json.dump(meta, f, indent=1)
      f.write("\n")


ALL_PROPS = ["C%02d" % i for i in range(1, 21)]
ALLCHECKS = False


def first_para(path):
  if not os.path.exists(path):
    return ""
  txt = open(path).read()
  i = txt.lower().find("manifest")
  return " ".join(txt.split())[:700]


def do_run(ids, tier, all_checks, props_extra):
  rows = []
  for d in sorted(glob.glob(os.path.join(HERE, "seeded", "*"))):
    if not os.path.isdir(d):
      continue
    sid = os.path.basename(d)
    if ids and sid not in ids:
      continue
    meta = json.load(open(os.path.join(d, "meta.json")))
    tmp = tempfile.mkdtemp(prefix="verif-seed-")
    try:
      shutil.copytree("/repo/audiolazy", os.path.join(tmp, "audiolazy"),
                      ignore=shutil.ignore_patterns("__pycache__"))
      rc, out = sh(["patch", "-p1", "-s", "--no-backup-if-mismatch", "-i",
                    os.path.join(d, "patch.diff")],
                   cwd=tmp)
      fuzzy = ""
      if rc:
        # the context of a hunk was rewritten by a later fix: commit: the
        # change itself may still fit (removed lines present): fuzz 3
        shutil.rmtree(os.path.join(tmp, "audiolazy"))
        shutil.copytree("/repo/audiolazy", os.path.join(tmp, "audiolazy"),
                        ignore=shutil.ignore_patterns("__pycache__"))
        rc, out = sh(["patch", "-p1", "-s", "-F3", "--no-backup-if-mismatch",
                      "-i", os.path.join(d, "patch.diff")], cwd=tmp)
        fuzzy = " (applied to HEAD with fuzz 3)"
        if rc:
          shutil.rmtree(os.path.join(tmp, "audiolazy"))
          shutil.copytree("/repo/audiolazy", os.path.join(tmp, "audiolazy"),
                          ignore=shutil.ignore_patterns("__pycache__"))
      if rc:
        # a later fix: commit rewrote the lines: run it differentially on the
        # newest commit it applies to (caught = it adds a key to what that
        # older tree reports by itself)
        res = rerun_on_older_base(os.path.join(d), meta["property"], tier,
                                  seeded=True)
        rows.append((sid, meta["property"], res.split()[0], res))
        print("%-8s %-4s %s" % (sid, meta["property"], res), flush=True)
        continue
      props = [meta["property"]] + list(props_extra)
      if all_checks:
        props = ["C%02d" % i for i in range(1, 21)]
      for p in props:
        rc, keys = run_check(p, tmp, tier, SEED)
        rows.append((sid, p, {0: "silent", 1: "caught"}.get(rc, "rc=%d" % rc),
                     "; ".join(keys)[:200] + fuzzy))
        print("%-8s %-4s %-7s %s" % rows[-1], flush=True)
        if RECORD and p == meta["property"]:
          was = meta.get("caught")
          meta["ran"].append({"cmd": "VERIF_REPO=<patched tree> ./check %s "
                              "--tier %s (re-run after strengthening)"
                              % (p, tier), "exit": rc, "keys": keys})
          meta["caught"] = rc == 1
          if not was and rc == 1:
            meta["caught_only_after_strengthening"] = RECORD
          with open(os.path.join(d, "meta.json"), "w") as f:
            json.dump(meta, f, indent=1)
            f.write("\n")
    finally:
      shutil.rmtree(tmp, ignore_errors=True)
  return rows


BASE_KEYS = {}


def export_tree(commit, dest):
  os.makedirs(dest)
  ar = subprocess.run(["git", "-C", "/repo", "archive", commit, "audiolazy"],
                      capture_output=True, check=True)
  subprocess.run(["tar", "-x", "-C", dest], input=ar.stdout, check=True)


def key_names(keys):
  return sorted(set(k.split()[0] for k in keys))


def observed(keys):
  out = {}
  for k in keys:
    name = k.split()[0]
    for tok in k.split():
      if tok.startswith("observed="):
        out[name] = int(tok[9:])
  return out


def rerun_on_older_base(d, prop, tier, seeded=False):
  commits = subprocess.run(["git", "-C", "/repo", "log", "--format=%h",
                            "HEAD"], capture_output=True,
                           text=True).stdout.split()
  for commit in commits[1:]:
    tmp = tempfile.mkdtemp(prefix="verif-refbase-")
    try:
      export_tree(commit, os.path.join(tmp, "t"))
      rc, _ = sh(["patch", "-p1", "-s", "--dry-run"] +
                 ([] if seeded else ["-F0"]) + ["-i",
                  os.path.join(d, "patch.diff")], cwd=os.path.join(tmp, "t"))
      if rc:
        continue
      if (commit, prop) not in BASE_KEYS:
        BASE_KEYS[(commit, prop)] = run_check(prop, os.path.join(tmp, "t"),
                                              tier, SEED)
      brc, bkeys = BASE_KEYS[(commit, prop)]
      sh(["patch", "-p1", "-s", "--no-backup-if-mismatch", "-i",
          os.path.join(d, "patch.diff")], cwd=os.path.join(tmp, "t"))
      rc, keys = run_check(prop, os.path.join(tmp, "t"), tier, SEED)
      # a key is "<operation>/<mechanism>": a refactoring may move where the
      # base tree's own defect surfaces (another operation), never what it is
      # (and "...@function" names the frame an unexpected exception came from)
      mname = lambda k: k.split("/", 1)[-1].split("@")[0]
      mech = set(mname(k) for k in key_names(bkeys))
      extra = [k for k in key_names(keys) if k not in key_names(bkeys) and
               mname(k) not in mech]
      if seeded:
        # (by full key name: the seeded change is the only difference between
        # the two trees, so a key the base tree does not report is its doing)
        new = [k for k in key_names(keys) if k not in key_names(bkeys)]
        # ... or it reports under a key of the base tree far more often (the
        # base's own defect and the seeded one share a key, e.g. wrong-output)
        bcount, count = observed(bkeys), observed(keys)
        new += ["%s (%d times, base alone %d)" % (k, n, bcount[k])
                for k, n in sorted(count.items())
                if k in bcount and n > 2 * bcount[k] + 20]
        if rc == 1 and new:
          return "caught  on-base=%s new keys: %s" % (commit,
                                                      "; ".join(new)[:200])
        return "silent-on-base=%s rc=%d (base alone: %s)" % (
          commit, rc, ", ".join(key_names(bkeys))[:150] or "nothing")
      if extra and sum(observed(keys).values()) == \
         sum(observed(bkeys).values()):
        # the very same number of violating cases: the base tree's own defect
        # shows under another symptom in the refactored code (e.g. a stream
        # read twice now shows as a wrong sample first), nothing was added
        return "silent  on-base=%s (same %d violating cases as that tree " \
               "alone, %s classified differently)" % (
                 commit, sum(observed(keys).values()), "; ".join(extra)[:120])
      if rc in (0, 1) and brc in (0, 1) and not extra:
        return "silent  on-base=%s (that tree alone reports: %s)" % (
          commit, ", ".join(key_names(bkeys)) or "nothing")
      return "ALARM on-base=%s rc=%d/%d extra keys: %s" % (
        commit, rc, brc, "; ".join(extra)[:200])
    finally:
      shutil.rmtree(tmp, ignore_errors=True)
  return "PATCH-APPLIES-TO-NO-COMMIT"


def do_run_refactors(ids, tier):
  """Re-apply the stored behaviour-preserving refactorings to scratch copies
  of /repo and run their property's check: every one must stay silent."""
  bad = 0
  for d in sorted(glob.glob(os.path.join(HERE, "refactors", "*"))):
    if not os.path.isdir(d):
      continue
    rid = os.path.basename(d)
    if ids and rid not in ids:
      continue
    meta = json.load(open(os.path.join(d, "meta.json")))
    tmp = tempfile.mkdtemp(prefix="verif-ref-")
    try:
      shutil.copytree("/repo/audiolazy", os.path.join(tmp, "audiolazy"),
                      ignore=shutil.ignore_patterns("__pycache__"))
      # (no fuzz: a hunk that only fits approximately was written against
      # other code - e.g. it would put back lines a later fix: commit changed)
      rc, out = sh(["patch", "-p1", "-s", "-F0", "--no-backup-if-mismatch",
                    "-i", os.path.join(d, "patch.diff")], cwd=tmp)
      if rc:
        # later fix: commits rewrote the lines the patch touches: re-run it on
        # the newest commit it still applies to, differentially - it is silent
        # when it adds no key to what that (older, still defective) tree
        # reports by itself
        res = rerun_on_older_base(d, meta["property"], tier)
        print("%-10s %-4s %s" % (rid, meta["property"], res), flush=True)
        bad += not res.startswith("silent")
        continue
      rc, keys = run_check(meta["property"], tmp, tier, SEED)
      print("%-10s %-4s %-7s %s" % (rid, meta["property"],
                                    {0: "silent", 1: "ALARM"}.get(rc, "rc=%d" % rc),
                                    "; ".join(keys)[:200]), flush=True)
      bad += rc != 0
    finally:
      shutil.rmtree(tmp, ignore_errors=True)
  print("refactorings that were not silent:", bad)


def main():
  ap = argparse.ArgumentParser()
  ap.add_argument("cmd", choices=["import", "run", "import-refactor",
                                  "run-refactors"])
  ap.add_argument("args", nargs="*")
  ap.add_argument("--tier", default="quick")
  ap.add_argument("--all-checks", action="store_true")
  ap.add_argument("--also", nargs="*", default=[])
  ap.add_argument("--tag", default="", help="import: id prefix, e.g. r2-")
  ap.add_argument("--seed", type=int, default=0, help="run: VERIF_SEED")
  ap.add_argument("--record", default="",
                  help="note stored in meta.json (what was strengthened)")
  a = ap.parse_args()
  global RECORD, SEED
  RECORD = a.record
  SEED = a.seed
  global ALLCHECKS
  ALLCHECKS = a.all_checks
  if a.cmd == "run-refactors":
    do_run_refactors(a.args, a.tier)
  elif a.cmd == "import-refactor":
    do_import_refactor(a.args[0], a.args[1].upper(), a.tag)
  elif a.cmd == "import":
    do_import(a.args[0], a.args[1].upper(), a.tag)
  else:
    do_run(a.args, a.tier, a.all_checks, a.also)


if __name__ == "__main__":
  main()
