"""C16 extension family (bug hunt on the unchanged tree):

mutzero   a MUTABLE zero value (a small vector class with an in-place `+=`,
          like a numpy array used for multi-channel mixing): every output is
          "the zero value plus the items due", the zero object itself is never
          changed and never handed out, also while idle with keep
"""
from audiolazy import Streamix

KINDS = ("mutzero",)


class Vec(object):
  """Element-wise vector whose += works in place (as numpy arrays do)."""
  def __init__(self, vals):
    self.v = list(vals)

  def __add__(self, other):
    return Vec(a + b for a, b in zip(self.v, other.v))
  __radd__ = __add__

  def __iadd__(self, other):
    self.v = [a + b for a, b in zip(self.v, other.v)]
    return self

  def __eq__(self, other):
    return isinstance(other, Vec) and self.v == other.v

  def __ne__(self, other):
    return not self == other
  __hash__ = None

  def __repr__(self):
    return "Vec(%r)" % (self.v,)


def cases(ctx):
  rng = ctx.rng
  for _ in ctx.loop(1500, 60000):
    events = [(rng.randint(0, 4), [[rng.randint(-3, 3), rng.randint(-3, 3)]
                                   for _ in range(rng.randint(0, 5))])
              for _ in range(rng.randint(0, 4))]
    yield ("mutzero", rng.random() < 0.5, rng.choice([[0, 0], [1, -2], [5, 5]]),
           events, rng.randint(0, 6), rng.choice(["pos", "kw"]))


def run_case(ctx, case):
  _, keep, zvals, events, tail, form = case
  zero = Vec(zvals)
  smix = Streamix(keep, zero) if form == "pos" else Streamix(keep=keep,
                                                             zero=zero)
  t, sched = 0, []
  for delta, items in events:
    t += delta
    smix.add(delta, [Vec(x) for x in items])
    sched.append((t, items))
  end = max([s + len(it_) for s, it_ in sched] or [0])
  n = end + tail if keep else end
  want = []
  for k in range(n):
    acc = list(zvals)
    for s, items in sched:
      if s <= k < s + len(items):
        acc = [a + b for a, b in zip(acc, items[k - s])]
    want.append(acc)
  got = smix.take(n)
  ctx.count("mutable-zero-mixers")
  if keep:
    ctx.count("mutable-zero-mixers:keep")
  if len(got) != n or any(not isinstance(g, Vec) or g.v != w
                          for g, w in zip(got, want)):
    ctx.violation("mutzero/sample-sum", case,
                  got=[getattr(g, "v", g) for g in got][:12], want=want[:12])
    return True
  if zero.v != list(zvals):
    ctx.violation("mutzero/the-zero-object-was-modified", case, now=zero.v)
    return True
  if len(set(id(g) for g in got)) != len(got) and any(
      a is b and a.v != list(zvals) for i, a in enumerate(got)
      for b in got[i + 1:]):
    ctx.violation("mutzero/one-object-handed-out-for-different-samples", case)
    return True
  if not keep and smix.take(2) != []:
    ctx.violation("mutzero/continues-past-end", case)
  return n > 0


def finish(ctx):
  ctx.need("mutable-zero-mixers", 500)
  ctx.need("mutable-zero-mixers:keep", 100)
