"""Runs the repository's own test-suite with the passive monitors of
vlib/passive.py plugged in and feeds their verdicts into a check context."""
import json
import os
import subprocess
import sys
import tempfile

HERE = os.path.dirname(os.path.dirname(os.path.abspath(__file__)))


def run_suite(ctx, which):
  """which: "blocks", "mkd", "poly", "stream" or "filt".  Only the monitor's verdicts are used; the
  suite's own pass/fail results are ignored."""
  repo = os.path.realpath(os.environ.get("VERIF_REPO", "/repo"))
  fd, out = tempfile.mkstemp(prefix="verif-passive-", suffix=".json")
  os.close(fd)
  env = dict(os.environ)
  env["PYTHONPATH"] = repo + os.pathsep + HERE
  env["VERIF_PASSIVE_OUT"] = out
  env["PYTHONDONTWRITEBYTECODE"] = "1"
  cmd = [sys.executable, "-m", "pytest", "-q", "-p", "vlib.passive", "-p",
         "no:cacheprovider", "--no-cov", "--timeout=900",
         os.path.join(repo, "audiolazy")]
  try:
    r = subprocess.run(cmd, cwd=repo, env=env, capture_output=True, text=True,
                       timeout=1500)
    with open(out) as f:
      state = json.load(f)
  except Exception as exc:  # noqa - the extra workload is optional
    ctx.count("passive:suite-run-failed")
    ctx.notes.append({"passive": repr(exc)[:300]})
    return False
  finally:
    try:
      os.unlink(out)
    except OSError:
      pass
  st = state[which]
  for k, v in st.items():
    if isinstance(v, int):
      ctx.count("passive:%s:%s" % (which, k), v)
  for v in st["violations"]:
    ctx.violation("passive/%s-monitor-under-test-suite" % which,
                  ("passive", which), **v)
  return True
