"""Property-breaking edits (expect "caught") and benign refactors (expect
"silent") used by selftest/run.py.  Each entry:
(props, name, file under audiolazy/, old text (must occur exactly once), new
text, expectation)."""

MUTANTS = [
  # ---- C08 ------------------------------------------------------------------
  (["C08"], "blocks-pad-test-ge", "lazy_misc.py",
   "  if idx > max(size-hop, 0):", "  if idx >= max(size-hop, 0):", "caught"),
  (["C08"], "blocks-reinit-off-by-one", "lazy_misc.py",
   "  reinit_idx = size - hop\n", "  reinit_idx = size - hop + (hop == 3)\n",
   "caught"),
  (["C08"], "blocks-hop-gt-size-skip", "lazy_misc.py",
   "          idx = size-hop\n", "          idx = size-hop+1\n", "caught"),
  (["C08"], "zero_pad-right-left-swapped", "lazy_misc.py",
   "  for unused in xrange(right):", "  for unused in xrange(left):",
   "caught"),
  (["C08"], "benign-blocks-pad-loop", "lazy_misc.py",
   "    for _ in xrange(idx,size):\n      res.append(padval)",
   "    res.extend([padval] * (size - idx))", "silent"),

  # ---- C03 ------------------------------------------------------------------
  (["C03"], "peek-consumes", "lazy_stream.py",
   "    return self.copy().take(n=n, constructor=constructor)",
   "    return self.take(n=n, constructor=constructor) if n == 3 else "
   "self.copy().take(n=n, constructor=constructor)", "caught"),
  (["C03"], "copy-shares-state", "lazy_stream.py",
   "    a, b = it.tee(self._data) # 2 generators, not thread-safe\n"
   "    self._data = a\n    return Stream(b)",
   "    a, b = it.tee(self._data) # 2 generators, not thread-safe\n"
   "    return Stream(b)", "caught"),
  (["C03"], "take-float-truncates", "lazy_stream.py",
   "      n = rint(n) if n > 0 else 0 # So this works with -inf and nan",
   "      n = int(n) if n > 0 else 0 # So this works with -inf and nan",
   "caught"),
  (["C03"], "hub-copy-consumes", "lazy_stream.py",
   "      a, b = it.tee(self._iters[0])\n      self._iters[0] = a\n"
   "      return Stream(b)",
   "      return Stream(self._iters.pop())", "caught"),
  (["C03"], "hub-one-more-use", "lazy_stream.py",
   "    self._iters = list(it.tee(iter_self, n))",
   "    self._iters = list(it.tee(iter_self, n + (n == 2)))", "caught"),
  (["C03"], "thub-wraps-scalars", "lazy_stream.py",
   "  return StreamTeeHub(data, n) if isinstance(data, Iterable) else data",
   "  return StreamTeeHub(data, n) if isinstance(data, Iterable) else "
   "(data if data is not None else 0)", "caught"),
  (["C03"], "skip-off-by-one-when-large", "lazy_stream.py",
   "        for _ in xrange(int(round(n))):\n          next(data)",
   "        for _ in xrange(int(round(n)) - (n > 6)):\n          next(data)",
   "caught"),
  (["C03"], "append-on-copy", "lazy_stream.py",
   "    self._data = it.chain(self._data, Stream(*other)._data)\n    return self",
   "    self._data = it.chain(self._data, Stream(*other)._data)\n"
   "    return Stream(self._data)", "caught"),
  (["C03"], "tee-shares", "lazy_itertools.py",
   "    return tuple(Stream(cp) for cp in it.tee(data, n))",
   "    return tuple(Stream(cp) for cp in it.tee(data, n)) if n != 2 else "
   "(Stream(iter(data)),) * 2", "caught"),
  (["C03"], "benign-take-islice-list", "lazy_stream.py",
   "    return constructor(it.islice(self._data, max(n, 0)))",
   "    return constructor(list(it.islice(self._data, max(n, 0))))", "silent"),
]
