"""C06 - time-varying coefficients are sampled once per output sample.

Filters whose coefficients are Streams (fed by pull-counting probes) are run on
exact symbolic samples; output n must be the difference equation with each
coefficient stream's n-th value, the output must END when the input or any
coefficient stream ends, and every coefficient source must have been pulled
exactly k times after k outputs - also after filter arithmetic reused it."""
import itertools
from fractions import Fraction

import audiolazy
from audiolazy import ZFilter, z, Stream, thub

from vlib.inst import Lin, Probe, frac
from props.filt_common import (recursion, syms, coef_at, pmul, padd, pneg,
                               pscale, pclean)

ID = "C06"
GAIN_VALUES = [1, -1, 2, -2, 4, 0.5, -0.5, -4]
COEF_VALUES = [0, 1, -1, 2, -3, 3, 5, -2, 1, -1]


def rcoef(rng, allow_stream=True, gain=False):
  pool = GAIN_VALUES if gain else COEF_VALUES
  r = rng.random()
  if not allow_stream or r < 0.35:
    v = rng.choice(pool)
    if not gain and v == 0:
      v = 2
    return v
  n = rng.choice([1, 2, 3, 4, 6, 9, 12])
  vals = [rng.choice(pool) for _ in range(n)]
  if not gain and all(v == 0 for v in vals):
    vals[0] = 1
  if r < 0.42:
    # constant finite streams built directly on itertools.repeat / its wrapper
    v = rng.choice([x for x in pool if x != 0])
    return (rng.choice(["rep", "lrep"]), [v] * rng.choice([1, 2, 3, 5, 8, 12]))
  if r < 0.55:
    return ("per", vals[:rng.randint(1, min(4, len(vals)))])
  if r < 0.62:
    return ("per", [rng.choice([v for v in pool if v != 0])])  # constant stream
  return ("fin", vals)


def rfir(rng, maxorder=3):
  if maxorder > 6:       # sparse, wide: delays with one and two digits
    n = rng.randint(1, 4)
  else:
    n = rng.randint(1, maxorder + 1)
  return {k: rcoef(rng) for k in sorted(rng.sample(range(0, maxorder + 1), n))}


def riir_den(rng, maxorder=3):
  den = {0: rcoef(rng, gain=True)}
  n = rng.randint(1, 3) if maxorder > 6 else rng.randint(1, maxorder)
  for k in sorted(rng.sample(range(1, maxorder + 1), n)):
    den[k] = rcoef(rng)
  return den


def cases(ctx):
  rng = ctx.rng
  for _ in ctx.loop(15000, 400000):
    wide = 14 if rng.random() < 0.3 else 3
    den = riir_den(rng, wide) if rng.random() < 0.6 else \
        {0: rcoef(rng, gain=True)}
    # (a zero numerator over a bare gain never needs the gain: not generated)
    num = rfir(rng, wide) if (rng.random() < 0.95 or len(den) == 1) else {}
    yield ("tv", num, den, rng.choice([0, 1, 2, 4, 7, 10, 14]),
           rng.choice(["dict", "dict", "expr"]),
           rng.choice([0, 0, "Z"]) if num else 0,
           rng.choice(["none", "none", "list"]))
  for _ in ctx.loop(9000, 300000):
    op = rng.choice(["add", "sub", "mul", "scal", "rscal", "neg", "distrib",
                     "square", "addself", "sadd", "ssub", "rsadd", "rssub",
                     "pow2", "pow3", "pow4", "stmul", "rstmul", "stadd",
                     "rstadd", "stdiv", "addiir", "subiir", "muliir"])
    f_den = riir_den(rng, 2) if rng.random() < 0.4 else {0: 1}
    yield ("tvalg", op, (rfir(rng, 2), f_den), rfir(rng, 2), rfir(rng, 2),
           rng.choice([2, -3, 4, -1, 0.5]), rng.choice([1, 3, 6, 9, 13]))


# ----------------------------------------------------------------------------
class Sources(object):
  """Real coefficient Streams over pull-counting probes, built from specs."""
  def __init__(self, hubs=False):
    self.probes = []
    self.hubs = hubs      # wrap some finite streams in a single-use tee hub
    self.hub_count = 0

  def make(self, spec):
    if not isinstance(spec, tuple):
      return spec
    kind, vals = spec
    if kind == "rep":
      return Stream(itertools.repeat(vals[0], len(vals)))
    if kind == "lrep":
      return audiolazy.lazy_itertools.repeat(vals[0], len(vals))
    if kind == "per":
      p = Probe(endless=lambda i, v=tuple(vals): v[i % len(v)],
                name="coef%d" % len(self.probes))
    else:
      p = Probe(list(vals), name="coef%d" % len(self.probes))
    self.probes.append(p)
    if self.hubs and kind == "fin" and len(vals) % 3 == 0:
      # a stream that may be used exactly once (StreamTeeHub is a subclass of
      # Stream): still one coefficient stream, read once per sample
      self.hub_count += 1
      return thub(Stream(p), 1)
    return Stream(p)


def build(src, num, den, form):
  rnum = {k: src.make(c) for k, c in num.items()}
  rden = {k: src.make(c) for k, c in den.items()}
  if form == "dict":
    return ZFilter(rnum, rden)
  n = sum((c * z ** -k for k, c in rnum.items()), ZFilter([0]))
  d = sum((c * z ** -k for k, c in rden.items()), ZFilter([0]))
  return n / d


def finite_len(*dicts):
  lens = [len(c[1]) for d in dicts for c in d.values()
          if isinstance(c, tuple) and c[0] in ("fin", "rep", "lrep")]
  return min(lens) if lens else None


def observe(ctx, case, res, x, probes, want):
  """Pull outputs one by one, checking values and pull counts.
  -> True when everything matched."""
  it = iter(res)
  for k in range(len(x) + 2):
    try:
      y = next(it)
    except StopIteration:
      if k != len(want):
        ctx.violation("wrong-length/ended-early", case, outputs=k,
                      want=len(want))
        return False
      if len(want) == len(x):
        ctx.count("ended-with-input")
        # the input ended: no coefficient needed to be read for a sample that
        # does not exist (one read per OUTPUT sample)
        for p in probes:
          if p.pulls != k:
            ctx.violation("coefficient-stream/read-after-the-input-ended",
                          case, probe=p.name, pulls=p.pulls, outputs=k)
            return False
      else:
        ctx.count("ended-with-coefficient-stream")
      return True
    except RuntimeError as exc:
      if "StopIteration" in str(exc) and k == len(want) and k < len(x):
        ctx.violation("coefficient-stream-end/RuntimeError-instead-of-ending",
                      case, outputs=k, exc=repr(exc))
        return False
      raise
    if k >= len(want):
      ctx.violation("wrong-length/continues-past-end", case, outputs=k + 1,
                    want=len(want))
      return False
    try:
      ok = Lin.lift(y) == want[k]
    except TypeError:
      ok = False
    if not ok:
      ctx.violation("wrong-output", case, index=k, got=repr(y),
                    want=repr(want[k]))
      return False
    ctx.count("outputs-compared")
    for p in probes:
      if p.pulls != k + 1:
        ctx.violation("coefficient-stream/not-read-once-per-sample", case,
                      probe=p.name, pulls=p.pulls, outputs=k + 1)
        return False
    if probes:
      ctx.count("pull-counts-checked")
  ctx.violation("wrong-length/continues-past-end", case, want=len(want))
  return False


def run_case(ctx, case):
  if case[0] == "tv":
    _, num, den, xlen, form, zspec, mkind = case
    src = Sources(hubs=True)
    filt = build(src, num, den, form)
    if any(p.pulls for p in src.probes):
      ctx.violation("coefficient-stream/read-at-construction", case)
      return True
    zero = Lin.sym("Z") if zspec == "Z" else zspec
    x = syms("x", xlen)
    lm = max(den)
    mem = [Lin.sym("m%d" % (i + 1)) for i in range(lm)] if mkind == "list" \
          else None
    want = recursion(num, den, x, mem, zero)
    nstreams = len(src.probes)
    ctx.count("streams-per-filter:%d" % min(nstreams, 4))
    if isinstance(den[0], tuple):
      ctx.count("variable-a0")
    if any(isinstance(c, tuple) and c[0] == "per" and len(c[1]) == 1
           for c in list(num.values()) + list(den.values())):
      ctx.count("constant-stream-coefficient")
    before = (sorted(dict(filt.numpoly.terms())),
              sorted(dict(filt.denpoly.terms())))
    res = filt(x, memory=list(mem) if mem is not None else None, zero=zero)
    after = (sorted(dict(filt.numpoly.terms())),
             sorted(dict(filt.denpoly.terms())))
    ctx.count("filter-object-intact-after-call-checked")
    if before != after:
      # calling a filter must not take it apart (it is the same system
      # afterwards: a stream in a0 is no different from one in a1)
      ctx.violation("call-modifies-the-filter-object", case,
                    powers_before=before, powers_after=after)
      return True
    if any(p.pulls for p in src.probes):
      ctx.violation("coefficient-stream/read-at-call", case)
      return True
    if not isinstance(res, Stream):
      ctx.violation("result-not-a-Stream", case)
      return True
    if src.hub_count:
      ctx.count("single-use-hub-coefficients", src.hub_count)
    observe(ctx, case, res, x, src.probes, want)
    return xlen > 0

  _, op, (fnum, fden), gnum, hnum, c, xlen = case
  src = Sources(hubs=op in ("add", "sub", "mul", "scal", "rscal", "neg",
                            "sadd", "ssub", "rsadd", "rssub", "addiir",
                            "subiir", "muliir"))
  one = {0: 1}
  x = syms("x", xlen)
  # per-sample model
  SCALAR_OPS = ("scal", "rscal", "neg", "sadd", "ssub", "rsadd", "rssub")
  STREAM_OPS = ("stmul", "rstmul", "stadd", "rstadd", "stdiv")
  # a bare Stream (or number) operand for the STREAM_OPS: the first
  # coefficient spec of h
  sspec = next(iter(hnum.values()), 2)
  IIR_OPS = ("addiir", "subiir", "muliir")
  # a second IIR filter: g's numerator over a CONSTANT denominator that has
  # terms at the very delays of f's (possibly stream-valued) denominator
  gden2 = {k_: (1 if k_ == 0 else (0.5, -0.25, 0.125)[k_ % 3])
           for k_ in set(fden) | {0}}
  if op in SCALAR_OPS:
    specs = [fnum, fden]
  elif op in IIR_OPS:
    specs = [fnum, fden, gnum]
  elif op in STREAM_OPS:
    specs = [fnum, fden, {0: sspec}]
    if op == "stdiv":
      # divisor values: non-zero with an exact reciprocal (x / 3 is a rounded
      # float, not an algebra question); anything else is not generated
      vals = sspec[1] if isinstance(sspec, tuple) else [sspec]
      if any(abs(v) not in (1, 2, 4, 8, 0.5, 0.25) for v in vals):
        sspec = (sspec[0], [(2, -1, 4, 0.5, -2, 1)[
          0 if sspec[0] in ("rep", "lrep") else i % 6]
                            for i in range(len(vals))]) \
            if isinstance(sspec, tuple) else 2
      specs = [fnum, fden, {0: sspec}]
  elif op in ("square", "addself", "pow2", "pow3", "pow4"):
    specs = [gnum]
  else:
    specs = [fnum, fden, gnum] + ([hnum] if op == "distrib" else [])
  L = finite_len(*specs)
  n_out = xlen if L is None else min(xlen, L)
  tables_num, tables_den = [], []
  for n in range(n_out):
    at = lambda d: pclean({k: frac(coef_at(v, n)) for k, v in d.items()
                           if coef_at(v, n) is not None})
    fn, fd, gn, hn = at(fnum), at(fden), at(gnum), at(hnum)
    if op == "add":
      nn, dd = padd(fn, pmul(gn, fd)), fd
    elif op == "sub":
      nn, dd = padd(fn, pneg(pmul(gn, fd))), fd
    elif op == "mul":
      nn, dd = pmul(fn, gn), fd
    elif op in ("scal", "rscal"):
      nn, dd = pscale(fn, frac(c)), fd
    elif op == "neg":
      nn, dd = pneg(fn), fd
    elif op in ("sadd", "rsadd"):       # f + c, c + f
      nn, dd = padd(fn, pscale(fd, frac(c))), fd
    elif op == "ssub":                  # f - c
      nn, dd = padd(fn, pneg(pscale(fd, frac(c)))), fd
    elif op == "rssub":                 # c - f
      nn, dd = padd(pscale(fd, frac(c)), pneg(fn)), fd
    elif op == "distrib":     # f * (g + h)
      nn, dd = pmul(fn, padd(gn, hn)), fd
    elif op == "square":      # g * g (the same streams used twice)
      nn, dd = pmul(gn, gn), {0: Fraction(1)}
    elif op == "addself":     # g + g
      nn, dd = pscale(gn, 2), {0: Fraction(1)}
    elif op in IIR_OPS:
      gd = pclean({k_: frac(v) for k_, v in gden2.items()})
      if op == "muliir":
        nn, dd = pmul(fn, gn), pmul(fd, gd)
      else:
        cross = pmul(gn, fd)
        nn = padd(pmul(fn, gd), cross if op == "addiir" else pneg(cross))
        dd = pmul(fd, gd)
    elif op in STREAM_OPS:
      sv = frac(coef_at(sspec, n))
      if op in ("stmul", "rstmul"):           # f * s, s * f
        nn, dd = pscale(fn, sv), fd
      elif op in ("stadd", "rstadd"):         # f + s, s + f
        nn, dd = padd(fn, pscale(fd, sv)), fd
      elif sv == 0:
        return False                          # division by zero: not generated
      else:                                   # f / s
        nn, dd = pscale(fn, 1 / sv), fd
    elif op in ("pow2", "pow3", "pow4"):      # g ** n: the library copies
      nn, dd = gn, {0: Fraction(1)}
      for _ in range(int(op[3]) - 1):
        nn = pmul(nn, gn)
    tables_num.append(nn)
    tables_den.append(dd)
  if op == "distrib" and not any(tables_num) and not any(
      isinstance(v, tuple) for v in list(gnum.values()) + list(hnum.values())):
    return False   # f * (g + h) with constant g + h == 0: nothing left to read
  delays_n = sorted({k for t in tables_num for k in t})
  delays_d = sorted({k for t in tables_den for k in t} | {0})
  mnum = {k: ("fin", [t.get(k, Fraction(0)) for t in tables_num])
          for k in delays_n}
  mden = {k: ("fin", [t.get(k, Fraction(0)) for t in tables_den])
          for k in delays_d}
  want = recursion(mnum, mden, x[:n_out], None, 0) if n_out else []

  f = build(src, fnum, fden, "dict")
  if op in ("square", "addself", "pow2", "pow3", "pow4"):
    src = Sources()          # f is unused here: only g's sources are judged
    g = build(src, gnum, one, "dict")
    res_f = g.copy() * g if op == "square" else g.copy() + g \
        if op == "addself" else g ** int(op[3])
  else:
    g = build(src, gnum, one, "dict")
    if op == "add":
      res_f = f + g
    elif op == "sub":
      res_f = f - g
    elif op == "mul":
      res_f = f * g
    elif op == "scal":
      res_f = c * f
      n_out = n_out
    elif op == "rscal":
      res_f = f * c
    elif op == "neg":
      res_f = -f
    elif op == "sadd":
      res_f = f + c
    elif op == "ssub":
      res_f = f - c
    elif op == "rsadd":
      res_f = c + f
    elif op == "rssub":
      res_f = c - f
    elif op in IIR_OPS:
      g2 = ZFilter(dict(g.numpoly.terms()), dict(gden2))
      res_f = f + g2 if op == "addiir" else f - g2 if op == "subiir" \
          else f * g2
    elif op in STREAM_OPS:
      sreal = src.make(sspec)
      res_f = {"stmul": lambda: f * sreal, "rstmul": lambda: sreal * f,
               "stadd": lambda: f + sreal, "rstadd": lambda: sreal + f,
               "stdiv": lambda: f / sreal}[op]()
    else:
      h = build(src, hnum, one, "dict")
      res_f = f * (g + h)
  if op in STREAM_OPS:
    # g's sources are not part of the result (f's and the operand's are)
    nf = len([v for v in list(fnum.values()) + list(fden.values())
              if isinstance(v, tuple) and v[0] in ("fin", "per")])
    ng = len([v for v in gnum.values()
              if isinstance(v, tuple) and v[0] in ("fin", "per")])
    src.probes = src.probes[:nf] + src.probes[nf + ng:]
  if op in SCALAR_OPS:
    # g's sources are not part of the result
    src.probes = [p for p in src.probes[:len([v for v in list(fnum.values()) +
                  list(fden.values()) if isinstance(v, tuple) and
                  v[0] in ("fin", "per")])]]
  ctx.count("algebra:" + op)
  if any(p.pulls for p in src.probes):
    ctx.violation("coefficient-stream/read-at-construction", case)
    return True
  res = res_f(x, zero=0)
  if src.hub_count:
    ctx.count("single-use-hub-coefficients", src.hub_count)
  observe(ctx, case, res, x, src.probes, want)
  return n_out > 0


def finish(ctx):
  ctx.need("single-use-hub-coefficients", 200)
  ctx.need("filter-object-intact-after-call-checked", 1000)
  for k in ["outputs-compared", "pull-counts-checked"]:
    ctx.need(k, 2000)
  for k in ["variable-a0", "constant-stream-coefficient", "ended-with-input",
            "ended-with-coefficient-stream", "streams-per-filter:1",
            "streams-per-filter:2", "streams-per-filter:4"]:
    ctx.need(k, 30)
  for op in ["add", "sub", "mul", "scal", "rscal", "neg", "distrib", "square",
             "addself", "sadd", "ssub", "rsadd", "rssub", "pow2", "pow3",
             "pow4", "stmul", "rstmul", "stadd", "rstadd", "stdiv", "addiir",
             "subiir", "muliir"]:
    ctx.need("algebra:" + op, 30)
