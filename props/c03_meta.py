META = {
  "rule":
    "a case is an operation history (initial pool of finite / periodic "
    "streams + 1..14 operations among take, peek, skip, limit, append, map, "
    "filter, copy, tee, thub and its uses, partial iteration) applied step by "
    "step to real Streams and to an immutable list model; all histories of "
    "length <= 3 (quick) / 4 (thorough) over a 2-stream pool with a reduced "
    "alphabet are enumerated completely, the rest is random with counts drawn "
    "from {negative, 0, inside, exactly the remaining length, beyond, float "
    "+-0.3/0.4, x.5 (take/peek only), inf, -inf, nan, None}; non-trivial = at "
    "least one observation compared; distinct = distinct histories",
  "assumptions": [
    "operations that could never return on an endless stream (take(inf), a "
    "filter rejecting a whole period) are not generated",
    "exact .5 counts are not generated for skip/limit (statement silent; the "
    "code uses round())",
    "a stream handed to thub / tee / append is not used afterwards"],
  "level_text":
    "Runtime monitoring of real Stream / StreamTeeHub objects under generated "
    "method histories: every returned container, raised exception and yielded "
    "element is compared, step by step, with an immutable lazy-sequence model "
    "(finite prefix + period). Small histories are enumerated exhaustively, "
    "longer ones sampled by the tens of thousands; copies, tee outputs and "
    "thub uses are consumed in interleaved orders.",
  "technique": "runtime monitor: operation histories vs immutable list model "
               "(exhaustive short histories + random long ones)",
}

# EXTENSION families added after the seeded-change rounds
META["rule"] += (" Added after the seeded-change rounds: " "a quarter of the random histories use heterogeneous items (None, '', 0, False, tuples, strings) with type-agnostic map/filter functions; tee of a hub counts as one of its uses" ".")
