"""Passive monitors run underneath the repository's own test-suite (pytest
plugin: ``-p vlib.passive``).  The suite is only a source of extra workload:
its own results are ignored, only the monitors' verdicts count.

* blocks(): every yielded block is snapshotted and compared with the slice of
  the items the wrapper itself handed to the generator (C08).  The docstring
  allows consumers to mutate the yielded deque (the change then legitimately
  shows in the next block): the wrapper re-reads the deque when the generator
  is resumed and stops judging that generator instance if it was modified.
* MultiKeyDict / StrategyDict: after every item assignment / deletion the three
  views of the object (item access per key, key2keys, value2keys, len, values)
  must agree with each other and with a shadow key -> value map (C15).

Results are written as JSON to $VERIF_PASSIVE_OUT at session end.
"""
import json
import os
import sys

STATE = {"blocks": {"generators": 0, "blocks_compared": 0, "tails_checked": 0,
                    "stopped_judging_mutated": 0, "violations": []},
         "mkd": {"ops": 0, "instances": 0, "violations": []}}


def _same(a, b):
  if len(a) != len(b):
    return False
  for p, q in zip(a, b):
    if p is q:
      continue
    try:
      if p != q:
        return False
    except Exception:  # noqa
      return False
  return True


def make_blocks_monitor(real_blocks):
  st = STATE["blocks"]

  def blocks(seq, size=None, hop=None, padval=0.):
    seen = []

    def recorder():
      for el in seq:
        seen.append(el)
        yield el
    gen = real_blocks(recorder(), size, hop, padval)
    st["generators"] += 1
    h = size if hop is None else hop
    k = 0
    judging = isinstance(size, int) and isinstance(h, int) and h >= 1
    ended = False
    while True:
      try:
        blk = next(gen)
      except StopIteration:
        ended = True
        break
      snap = list(blk)
      if judging:
        start = k * h
        want = seen[start:start + size]
        if len(want) < size:               # the padded tail block
          real = len(seen) - start
          ok = (real > max(size - h, 0) and _same(snap[:real], seen[start:])
                and all(x is padval or x == padval for x in snap[real:]))
          st["tails_checked"] += 1
        else:
          ok = _same(snap, want)
        st["blocks_compared"] += 1
        if not ok and len(st["violations"]) < 5:
          st["violations"].append({"block": k, "size": size, "hop": h,
                                   "got": repr(snap)[:300],
                                   "want": repr(want)[:300],
                                   "items_seen": len(seen)})
      yield blk
      if judging and list(blk) != snap:    # the consumer changed the deque
        judging = False
        st["stopped_judging_mutated"] += 1
      k += 1
    if judging and ended:
      # no block missing at the end: a padded tail must exist iff needed
      real = len(seen) - k * h
      if real > max(size - h, 0) and not (k > 0 and (k - 1) * h + size >
                                          len(seen)):
        if len(st["violations"]) < 5:
          st["violations"].append({"missing_tail_block": True, "size": size,
                                   "hop": h, "items_seen": len(seen),
                                   "blocks": k})
  blocks.__doc__ = real_blocks.__doc__
  blocks.__name__ = "blocks"
  blocks.__module__ = real_blocks.__module__
  return blocks


def coherent(d):
  """Mutual coherence of the public views of a MultiKeyDict."""
  tuples = list(dict.keys(d))
  keys = [k for t in tuples for k in t]
  if len(set(keys)) != len(keys):
    return "a key appears in two key tuples"
  for t in tuples:
    v = dict.__getitem__(d, t)
    for k in t:
      if d.key2keys(k) != t:
        return "key2keys(%r) != its tuple" % (k,)
      try:
        if not (d[k] is v or d[k] == v):
          return "d[%r] is not its tuple's value" % (k,)
      except Exception as exc:  # noqa
        return "d[%r] raised %r" % (k, exc)
    if d.value2keys(v) != t:
      return "value2keys(value of %r) != %r" % (t, t)
  if len(d) != len(tuples):
    return "len != number of key tuples"
  return None


def install_mkd_monitor(core):
  st = STATE["mkd"]
  MKD = core.MultiKeyDict
  real_set, real_del = MKD.__setitem__, MKD.__delitem__
  depth = [0]

  def check(self, what, key):
    st["ops"] += 1
    msg = coherent(self)
    if msg and len(st["violations"]) < 5:
      st["violations"].append({"after": what, "key": repr(key)[:100],
                               "problem": msg, "keys": repr(list(
                                 dict.keys(self)))[:300]})

  def __setitem__(self, key, value):
    depth[0] += 1
    try:
      real_set(self, key, value)
    finally:
      depth[0] -= 1
    if depth[0] == 0:
      keys = key if isinstance(key, tuple) else (key,)
      check(self, "set", key)
      for k in keys:
        try:
          if not (self[k] is value or self[k] == value):
            if len(st["violations"]) < 5:
              st["violations"].append({"after": "set", "key": repr(k),
                                       "problem": "d[k] is not the value "
                                                  "just assigned"})
        except Exception:  # noqa
          pass

  def __delitem__(self, key):
    depth[0] += 1
    try:
      real_del(self, key)
    finally:
      depth[0] -= 1
    if depth[0] == 0:
      check(self, "del", key)
      if key in getattr(self, "_keys_dict", {}):
        if len(st["violations"]) < 5:
          st["violations"].append({"after": "del", "key": repr(key),
                                   "problem": "deleted key still present"})
  MKD.__setitem__ = __setitem__
  MKD.__delitem__ = __delitem__


def pytest_configure(config):
  repo = os.environ.get("VERIF_REPO", "/repo")
  import audiolazy
  assert os.path.realpath(audiolazy.__file__).startswith(
    os.path.realpath(repo) + os.sep), audiolazy.__file__
  from audiolazy import lazy_misc, lazy_core
  real = lazy_misc.blocks
  mon = make_blocks_monitor(real)
  for name, mod in list(sys.modules.items()):
    if name.startswith("audiolazy") and mod is not None and \
       getattr(mod, "blocks", None) is real:
      setattr(mod, "blocks", mon)
  install_mkd_monitor(lazy_core)


def pytest_sessionfinish(session, exitstatus):
  out = os.environ.get("VERIF_PASSIVE_OUT")
  if out:
    with open(out, "w") as f:
      json.dump(STATE, f)
