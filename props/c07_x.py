"""C07 extension families (added after the second round of seeded changes):

hashderive  eq/hash coherence for results DERIVED from an operand that has
            already been hashed (state carried by the operand object)
bigmul      ring laws on larger polynomials (8..14 terms) with non-dyadic
            Fraction coefficients, with the default float zero as well as
            exact zeros: the coefficient arithmetic itself must stay exact
mutate      evaluate, overwrite an existing coefficient in place, evaluate
"""
from fractions import Fraction

from audiolazy import Poly

from vlib.inst import frac

KINDS = ("hashderive", "bigmul", "mutate")
F0 = Fraction(0)


def rpoly(rng, nterms, lo, hi, nondyadic=True):
  powers = rng.sample(range(lo, hi + 1), min(nterms, hi - lo + 1))
  dens = [3, 5, 7, 9, 11, 6] if nondyadic else [1, 2, 4]
  out = []
  for k in sorted(powers):
    c = Fraction(rng.randint(-9, 9), rng.choice(dens))
    if c == 0:
      c = Fraction(1, rng.choice(dens))
    out.append((k, c))
  return tuple(out)


def cases(ctx):
  rng = ctx.rng
  for _ in ctx.loop(1500, 60000):
    yield ("hashderive", rpoly(rng, rng.randint(1, 5), -3, 5),
           rng.choice(["frac0", "default", "int0"]), rng.randint(1, 9))
  for _ in ctx.loop(500, 30000):
    yield ("bigmul", rpoly(rng, rng.randint(8, 14), 0, 16),
           rpoly(rng, rng.randint(8, 12), 0, 14),
           rng.choice(["frac0", "default", "default", "int0"]),
           Fraction(rng.randint(-5, 5), rng.randint(1, 4)))
  for _ in ctx.loop(1200, 50000):
    yield ("mutate", rpoly(rng, rng.randint(2, 6), 0, 7, nondyadic=False),
           rng.choice(["frac0", "default"]),
           Fraction(rng.randint(-4, 4), rng.choice([1, 2])),
           Fraction(rng.randint(1, 9), rng.choice([1, 2])) *
           rng.choice([1, -1]), rng.choice([True, False, "auto"]))


def mk(pairs, zero):
  if zero == "frac0":
    return Poly(dict(pairs), zero=Fraction(0))
  if zero == "int0":
    return Poly(dict(pairs), zero=0)
  return Poly(dict(pairs))


def terms(p):
  return {k: v for k, v in p.terms()}


def exact_equal(got, want):
  """got: {power: value} from the library; want: {power: Fraction}."""
  if set(got) != set(want):
    return False
  for k, v in got.items():
    try:
      if frac(v) != want[k]:
        return False
    except TypeError:
      return False
  return True


def m_mul(a, b):
  out = {}
  for k1, c1 in a.items():
    for k2, c2 in b.items():
      out[k1 + k2] = out.get(k1 + k2, F0) + c1 * c2
  return {k: c for k, c in out.items() if c != 0}


def m_add(a, b):
  out = dict(a)
  for k, c in b.items():
    out[k] = out.get(k, F0) + c
  return {k: c for k, c in out.items() if c != 0}


def m_eval(a, v):
  return sum((c * v ** k for k, c in a.items()), F0)


def run_case(ctx, case):
  kind = case[0]
  if kind == "hashderive":
    _, pairs, zero, which = case
    p = mk(pairs, zero)
    model = dict(pairs)
    hash(p)                          # the operand is hashed first
    derivs = []
    derivs.append(("neg", -p, {k: -c for k, c in model.items()}))
    derivs.append(("pos", +p, dict(model)))
    derivs.append(("diff", p.diff(),
                   {k - 1: k * c for k, c in model.items() if k != 0}))
    if -1 not in model:
      derivs.append(("integrate", p.integrate(),
                     {k + 1: c / (k + 1) for k, c in model.items()}))
    derivs.append(("div-scalar", p / Fraction(which, 3),
                   {k: c / Fraction(which, 3) for k, c in model.items()}))
    derivs.append(("div-monomial", p / mk(((2, Fraction(which)),), zero),
                   {k - 2: c / which for k, c in model.items()}))
    for name, r, want in derivs:
      want = {k: c for k, c in want.items() if c != 0}
      q = mk(tuple(sorted(want.items())), zero)   # equal, built another way
      ctx.count("hash-after-derive-checked")
      if not exact_equal(terms(r), want):
        ctx.violation("derive/%s/terms" % name, case, got=repr(terms(r)))
        return True
      if not (r == q) or (r != q):
        ctx.violation("derive/%s/equal-polynomials-compare-unequal" % name,
                      case)
        return True
      if hash(r) != hash(q):
        ctx.violation("hash/differs-for-equal-polynomials-after-derivation",
                      case, derivation=name)
        return True
    return True

  if kind == "bigmul":
    _, pa, pb, zero, v = case
    a, b = dict(pa), dict(pb)
    p, q = mk(pa, zero), mk(pb, zero)
    ctx.count("big-polynomial-products")
    for name, r, want in (("mul", p * q, m_mul(a, b)),
                          ("mul-commuted", q * p, m_mul(a, b)),
                          ("add", p + q, m_add(a, b)),
                          ("square", p ** 2, m_mul(a, a)),
                          ("distributive", p * (q + p),
                           m_add(m_mul(a, b), m_mul(a, a)))):
      if not exact_equal(terms(r), want):
        ctx.violation("big/%s/terms-not-exact" % name, case,
                      got=repr(terms(r))[:400], want=repr(want)[:400])
        return True
    got = (p * q)(v)
    want = m_eval(a, v) * m_eval(b, v)
    try:
      ok = frac(got) == want
    except TypeError:
      ok = False
    if not ok:
      ctx.violation("big/evaluation-homomorphism", case, got=repr(got),
                    want=str(want))
    return True

  if kind == "mutate":
    _, pairs, zero, v, newc, horner = case
    model = dict(pairs)
    p = mk(pairs, zero)
    first = p(v, horner=horner) if horner != "auto" else p(v)
    if frac(first) != m_eval(model, v):
      ctx.violation("mutate/first-evaluation", case, got=repr(first))
      return True
    k = sorted(model)[len(model) // 2]
    if newc == model[k]:
      newc = newc * 2        # still non-zero, and different
    p[k] = newc                      # overwrite an existing, non-zero term
    model[k] = newc
    second = p(v, horner=horner) if horner != "auto" else p(v)
    ctx.count("evaluate-mutate-evaluate")
    if frac(second) != m_eval(model, v):
      ctx.violation("mutate/evaluation-after-coefficient-overwrite", case,
                    got=repr(second), want=str(m_eval(model, v)))
    elif not exact_equal(terms(p), model):
      ctx.violation("mutate/terms-after-coefficient-overwrite", case)
    return True
  raise ValueError(kind)


def finish(ctx):
  ctx.need("hash-after-derive-checked", 1000)
  ctx.need("big-polynomial-products", 100)
  ctx.need("evaluate-mutate-evaluate", 200)
