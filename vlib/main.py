"""Driver: ./check <ID> [--tier quick|thorough] [--replay FILE]

Spawns the shards of a property's workload as separate processes importing
audiolazy fresh from $VERIF_REPO (default /repo), merges what their monitors
observed, classifies violations against known_findings.json, writes
evidence/<ID>.json and prints the verdict.

exit 0  held on everything observed (known findings are printed, not failed)
exit 1  a violation not listed as known   (VIOLATION property=.. replay=..)
exit 2  inconclusive (watchdog, crashed shard, monitor never reached)
"""
import argparse
import collections
import importlib
import json
import os
import shutil
import subprocess
import sys
import tempfile
import time

HERE = os.path.dirname(os.path.dirname(os.path.abspath(__file__)))
PY = os.environ.get("VERIF_PYTHON", "/venv/bin/python")


def load_known():
  path = os.path.join(HERE, "known_findings.json")
  try:
    with open(path) as f:
      data = json.load(f)
  except FileNotFoundError:
    return []
  return data.get("findings", [])


def shard_env(repo):
  env = dict(os.environ)
  env["PYTHONPATH"] = repo + os.pathsep + HERE
  env["PYTHONDONTWRITEBYTECODE"] = "1"
  env["PYTHONHASHSEED"] = "0"
  env["VERIF_REPO"] = repo
  env.pop("PYTHONSTARTUP", None)
  return env


def main(argv=None):
  ap = argparse.ArgumentParser()
  ap.add_argument("prop")
  ap.add_argument("--tier", default=os.environ.get("VERIF_TIER") or "quick",
                  choices=["quick", "thorough"])
  ap.add_argument("--replay")
  ap.add_argument("--shards", type=int)
  ap.add_argument("--no-evidence", action="store_true")
  args = ap.parse_args(argv)
  prop = args.prop.upper()
  seed = int(os.environ.get("VERIF_SEED") or 0)
  repo = os.path.realpath(os.environ.get("VERIF_REPO") or "/repo")
  t0 = time.time()

  sys.path.insert(0, HERE)
  meta_mod = importlib.import_module("props.meta")
  meta = meta_mod.META[prop]
  tier = args.tier
  nshards = args.shards or meta.get("shards", {}).get(tier,
                                                     4 if tier == "quick" else 16)
  soft_s = meta.get("soft_s", {}).get(tier, 45 if tier == "quick" else 420)
  if tier == "quick":
    # quick budgets are fixed case counts; the soft limit (CPU seconds per
    # shard) is only a safety net and must not bite on a merely slow machine
    soft_s = max(3 * soft_s, 90)
  hard_s = meta.get("hard_s", {}).get(tier, 900 if tier == "quick" else 3600)
  if args.replay:
    nshards = 1

  work = tempfile.mkdtemp(prefix="verif-%s-" % prop)
  procs = []
  env = shard_env(repo)
  try:
    for sh in range(nshards):
      out = os.path.join(work, "shard%d.json" % sh)
      cmd = [PY, "-B", "-m", "vlib.shard", prop, tier, str(seed), str(sh),
             str(nshards), out, str(soft_s)]
      if args.replay:
        cmd.append(os.path.abspath(args.replay))
      log = open(os.path.join(work, "shard%d.log" % sh), "w")
      p = subprocess.Popen(cmd, cwd=HERE, env=env, stdout=log,
                           stderr=subprocess.STDOUT)
      procs.append((sh, p, out, log))

    inconclusive = []
    results = []
    deadline = time.time() + hard_s
    for sh, p, out, log in procs:
      try:
        rc = p.wait(timeout=max(1.0, deadline - time.time()))
      except subprocess.TimeoutExpired:
        # watchdog: ask faulthandler for stacks, then kill -> inconclusive
        try:
          p.send_signal(6)
        except Exception:
          pass
        p.wait()
        rc = None
        inconclusive.append("shard %d exceeded the %ds watchdog" % (sh, hard_s))
      log.close()
      if rc is None:
        # the violations this shard had witnessed before it hung still count
        if os.path.exists(out + ".partial"):
          try:
            with open(out + ".partial") as f:
              res = json.load(f)
            res["_hashes"] = b""
            res["needs"] = {}
            results.append(res)
          except Exception:  # noqa
            pass
        continue
      if rc != 0 or not os.path.exists(out):
        tail = open(log.name).read()[-1500:]
        inconclusive.append("shard %d exited %s: %s" % (sh, rc, tail))
        continue
      with open(out) as f:
        res = json.load(f)
      hashes = b""
      if os.path.exists(out + ".hashes"):
        with open(out + ".hashes", "rb") as f:
          hashes = f.read()
      res["_hashes"] = hashes
      results.append(res)
  finally:
    for sh, p, out, log in procs:
      if p.poll() is None:
        p.kill()
    shutil.rmtree(work, ignore_errors=True)

  # ---- merge ---------------------------------------------------------------
  counters = collections.Counter()
  needs = {}
  maxerr = {}
  samples = []
  violations = []
  flags = {}
  notes = []
  distinct = set()
  evaluations = 0
  truncated = False
  for res in results:
    counters.update(res["counters"])
    for k, v in res["needs"].items():
      needs[k] = max(needs.get(k, 0), v)
    for k, v in res["maxerr"].items():
      if k not in maxerr or v[2] > maxerr[k][2]:
        maxerr[k] = v
    if len(samples) < 5:
      samples.extend(res["samples"][:2])
    violations.extend(res["violations"])
    flags.update(res["flags"])
    notes.extend(res["notes"])
    evaluations += res["evaluations"]
    truncated = truncated or res["truncated"]
    h = res["_hashes"]
    distinct.update(h[i:i + 8] for i in range(0, len(h), 8))

  if counters.get("harness_errors"):
    inconclusive.append("%d harness errors: %s" % (
      counters["harness_errors"], json.dumps(notes[:2])[:1500]))
  if not args.replay:
    for k, minimum in sorted(needs.items()):
      if counters.get(k, 0) < minimum:
        inconclusive.append("monitor event %r observed %d times (< %d)"
                            % (k, counters.get(k, 0), minimum))
    if results and evaluations == 0:
      inconclusive.append("no case was evaluated")

  # ---- classify violations ---------------------------------------------------
  known = {(k["property"], k["key"]): k for k in load_known()
           if k.get("status") == "known"}
  vio_keys = collections.OrderedDict()
  for v in violations:
    vio_keys.setdefault(v["key"], []).append(v)
  new = []
  known_hit = []
  for key, vs in vio_keys.items():
    if (prop, key) in known:
      known_hit.append((key, known[(prop, key)], counters["violation:" + key]))
    else:
      new.append((key, vs))

  replay_dir = os.path.join(HERE, "replays")
  lines = []
  for key, entry, n in known_hit:
    lines.append("KNOWN-FINDING: property=%s %s [key=%s, observed %d times]"
                 % (prop, entry.get("what", ""), key, n))
  for key, vs in new:
    os.makedirs(replay_dir, exist_ok=True)
    safe = "".join(c if c.isalnum() or c in "-_." else "_" for c in key)[:80]
    path = os.path.join(replay_dir, "%s-%s-seed%d.json" % (prop, safe, seed))
    with open(path, "w") as f:
      json.dump(vs[0], f, indent=1)
    lines.append("VIOLATION property=%s replay=%s" % (prop, path))
    lines.append("  key=%s observed=%d" % (key, counters["violation:" + key]))
    lines.append("  case=%s" % vs[0]["case_repr"][:600])
    lines.append("  detail=%s" % json.dumps(vs[0]["detail"])[:1200])

  if new:
    verdict, rc = "violated", 1
  elif inconclusive:
    verdict, rc = "inconclusive", 2
  else:
    verdict, rc = "held", 0

  # ---- evidence ----------------------------------------------------------------
  wall = time.time() - t0
  cov = {
    "evaluations": evaluations,
    "distinct_nontrivial": len(distinct),
    "rule": meta["rule"],
    "samples": samples[:5] or ["<none>"],
    "exhaustive": bool(flags.get("exhaustive", False)),
    "monitor_counters": {k: v for k, v in sorted(counters.items())},
    "required_events": needs,
    "max_error_vs_tolerance": {k: {"max_err": v[0], "tol": v[1]}
                               for k, v in maxerr.items()},
    "shards": nshards,
    "budget_truncated_by_time": truncated,
    "audiolazy_path": flags.get("audiolazy_path"),
    "python": flags.get("python"),
    "verdict": verdict,
    "known_findings_hit": [k for k, _, _ in known_hit],
    "inconclusive_reasons": inconclusive,
  }
  for k, v in flags.items():
    if k.startswith("cov."):
      cov[k[4:]] = v
  if "exhaustive_subspace" in flags:
    cov["exhaustive_subspace"] = flags["exhaustive_subspace"]
  evidence = {
    "property_id": prop, "tier": tier, "seed": seed,
    "level": meta.get("level", "exploration"),
    "coverage": cov,
    "assumptions": meta.get("assumptions", []),
    "wall_s": round(wall, 3),
    "violations": len(new),
  }
  if not args.replay and not args.no_evidence:
    os.makedirs(os.path.join(HERE, "evidence"), exist_ok=True)
    with open(os.path.join(HERE, "evidence", "%s.json" % prop), "w") as f:
      json.dump(evidence, f, indent=1, sort_keys=True)
      f.write("\n")

  for line in lines:
    print(line)
  if verdict == "inconclusive":
    print("INCONCLUSIVE property=%s reason=%s" % (prop, " | ".join(inconclusive)[:3000]))
  summary = "%s property=%s tier=%s seed=%d evaluations=%d distinct=%d wall=%.1fs" % (
    verdict.upper(), prop, tier, seed, evaluations, len(distinct), wall)
  print(summary)
  if args.replay:
    print(json.dumps({k: v for k, v in counters.items()}, sort_keys=True))
  return rc


if __name__ == "__main__":
  sys.exit(main())
