META = {
  "rule":
    "cases are plain descriptions (generator, arguments, how finite / "
    "periodic argument streams are built, number of samples to take) for "
    "line, fadein/fadeout, ones/zeros/zeroes, impulse, white_noise/"
    "gauss_noise, adsr, attack, modulo_counter, TableLookup oscillators "
    "(random tables of size 1..16, sin_table, saw_table) and "
    "TableLookup.__getitem__, sinusoid, karplus_strong and resample. "
    "Enumerated completely on every run: modulo_counter for all 8 "
    "numbers-vs-streams argument combinations x 3 starts x 3 moduli "
    "(one negative) x 8 steps (0, negative, multiples of the modulo); "
    "resample for orders 0..5 x input lengths 0..8 x old 1..4 x new 1..4; "
    "ones/zeros/zeroes/impulse for every duration k/8, k=0..40. Beyond "
    "that random cases (weights: modulo_counter 30, resample 14, tables 14, "
    "line/fades 11, adsr/attack 10, sinusoid 5, karplus_strong 4, "
    "impulse/ones/zeros/noise 12). A case is non-trivial when at least one "
    "sample or an end-of-stream was compared; distinct = distinct case "
    "descriptions (hash of repr)",
  "assumptions": [
    "line / fades / adsr / attack segments are judged only where the closed "
    "form is defined: dur != finish, segment durations > 0, durations >= 0, "
    "adsr with a+d+r (rounded) <= dur; durations are integers or multiples "
    "of 1/8 so that int(dur+.5) is not decided by float rounding",
    "adsr and attack segments follow the `line` convention of their "
    "docstrings (a samples i/a, d samples 1+(s-1)i/d, sustain s, r samples "
    "s-s*i/r; the end point of a segment is not yielded); for a sustain "
    "stream the documentation only says the envelope becomes finite, so the "
    "tail may be the sustain items with or without the first one",
    "modulo_counter: 'reduced into [0, modulo)' is read as Python floor "
    "modulo for a negative modulo (result in (modulo, 0]); modulo 0 is not "
    "generated; an output item n exists iff every stream argument has an "
    "item n; number arguments are ints/Fractions (exact, ==) or dyadic "
    "floats, stream-start cases use dyadic floats only because the code "
    "starts from float 0. (exact == after Fraction(float))",
    "TableLookup oscillator position is (phase + sum of earlier freq) * len /"
    " (cycles * 2 * float pi): the float constant is part of the definition; "
    "tolerance 1e-9*max(1,max|table|) plus the local table slope times the "
    "position resolution len*(n+16)*4e-13 (matters only at the cyclic jump of "
    "saw_table); __getitem__ only with non-negative indices",
    "sinusoid tolerance 1e-9 up to sample 500, 2e-12 per sample after that "
    "(n up to 3000); karplus_strong with delay 2*pi/freq >= 2, tau finite or "
    "inf, a deterministic memory list at least as long as the filter memory "
    "(y[-k] = memory[k-1]), tolerance 1e-9",
    "resample: steps old/new > 0, exact (a Fraction on one side) or dyadic "
    "floats - a non-dyadic float step would let rounding decide window ties; "
    "step streams are endless; window of output m starts at "
    "ceil(t_m - (order+1)/2) with t_m the sum of the earlier steps, the "
    "output ends at the first m whose window reaches beyond the last input "
    "sample; samples the code itself turns into floats (the first one, "
    "float zero padding, float steps) are compared within 1e-9*(1+max|x|), "
    "all others with ==",
    "the noise generators are only checked for duration, for yielding real "
    "numbers and (white) low <= v <= high with low <= high",
  ],
  "level_text":
    "Runtime monitoring of the real generators: every output sequence is "
    "collected with next() only (bounded prefix for endless ones, three "
    "extra pulls past the expected end for finite ones) and compared sample "
    "by sample and in length with an independent closed form evaluated in "
    "exact rational arithmetic (own floor-modulo recursion for "
    "modulo_counter, own cyclic interpolation, own Lagrange interpolation, "
    "own comb recursion). Exact == for modulo_counter (Fractions/ints, "
    "dyadic floats) and resample with Fraction steps; explicit tolerances "
    "(>= 1000 x the worst error seen, >= 10^5 x smaller than any single-term "
    "bug) for float-slope lines/envelopes, tables, sinusoid and "
    "karplus_strong. Every one of the 12 modulo_counter code branches "
    "(6 stream combinations, and step0 / batched / sequential for the two "
    "number-modulo-number-step combinations), batching wrap-arounds, "
    "stream ends, every resample order 0..5 and input-end event is counted "
    "and required. Small spaces are enumerated completely each run, the "
    "rest is sampled: evidence of the observed executions, not a proof "
    "over all arguments.",
  "technique": "runtime monitor: generator outputs vs exact-rational closed "
               "forms (sequential modulo recursion, cyclic interpolation, "
               "Lagrange windows), exhaustive small grids + random cases, "
               "branch/event counters required",
  "soft_s": {"quick": 30, "thorough": 300},
}

# EXTENSION families added after the seeded-change rounds
META["rule"] += (" Added after the seeded-change rounds: " '(c19_x) modulo_counter with float modulo/step pairs incl. coincidences where the float quotient is an integer (1.0/0.1, 2pi/(2pi/k)), stream-start vs numbers vs closed form compared cyclically over several wraps' ".")
