"""C15 extension family (second round of seeded changes):

fresh   the same histories as the main check, but every key and every value is
        handed over as a NEWLY BUILT object that is equal to - never identical
        with - the one used before (run-time built strings, large integers,
        tuples, bound methods): a dictionary works by equality, not identity
"""
from audiolazy import MultiKeyDict, StrategyDict

from props.c15 import Model, SDModel

KINDS = ("fresh",)
NK, NV = 5, 4


class Holder(object):
  """obj.m0 builds a new bound-method object at every access; two of them are
  equal but not identical."""
  def m0(self, *a):
    return (0, a)

  def m1(self, *a):
    return (1, a)

  def m2(self, *a):
    return (2, a)

  def m3(self, *a):
    return (3, a)


def key_of(style, i):
  if style == "str":
    return "key-%d" % i              # a new str object at every call
  return 10 ** 6 + i * 7             # a new int object at every call


def val_of(style, j):
  if style == "tuple":
    return ("value", j, float(j))
  if style == "str":
    return "value-%d" % j
  return 10 ** 9 + j


def cases(ctx):
  rng = ctx.rng
  for _ in ctx.loop(3000, 120000):
    sd = rng.random() < 0.45
    ops = []
    for _ in range(rng.randint(2, 24)):
      r = rng.random()
      if r < 0.6:
        ks = tuple(rng.sample(range(NK), rng.randint(1, 3))) \
            if rng.random() < 0.35 else rng.randrange(NK)
        ops.append(("set", ks, rng.randrange(NV)))
      else:
        ops.append(("del", rng.randrange(NK)))
    yield ("fresh", "sd" if sd else "mkd",
           rng.choice(["str", "int"]) if not sd else "str",
           rng.choice(["tuple", "str", "int"]), ops)


class SDModelEq(SDModel):
  def delete(self, name):
    r = self.remove(name)
    if r is not None and r[1] == 1 and r[0] == self.default:
      self.default = None
      self.was_lost = True
    return r


def run_case(ctx, case):
  _, kind, kstyle, vstyle, ops = case
  sd = kind == "sd"
  holder = Holder()
  if sd:
    d, m = StrategyDict("c15x"), SDModelEq()
    K = lambda i: "name%d" % i
    V = lambda j: getattr(holder, "m%d" % j)
  else:
    d, m = MultiKeyDict(), Model()
    K = lambda i: key_of(kstyle, i)
    V = lambda j: val_of(vstyle, j)
  ctx.count("fresh:" + kind)
  for step, op in enumerate(ops):
    if op[0] == "set":
      idx = op[1] if isinstance(op[1], tuple) else (op[1],)
      keyarg = tuple(K(i) for i in idx) if isinstance(op[1], tuple) \
          else K(op[1])
      d[keyarg] = V(op[2])
      if sd:
        m.store(tuple(K(i) for i in idx), V(op[2]))
      else:
        m.assign(tuple(K(i) for i in idx), V(op[2]))
    else:
      present = m.find(K(op[1])) is not None
      try:
        del d[K(op[1])]
        raised = False
      except KeyError:
        raised = True
      if present == raised:
        ctx.violation("fresh/%s/del-%s" % (kind, "stored-key-raised-KeyError"
                                           if present else
                                           "missing-key-accepted"), case,
                      step=step)
        return True
      if present:
        (m.delete if sd else m.remove)(K(op[1]))
    ctx.count("fresh-steps-compared")
    # observations, all through newly built equal objects
    if len(d) != len(m.groups):
      ctx.violation("fresh/%s/len" % kind, case, step=step, got=len(d),
                    want=len(m.groups))
      return True
    for i in range(NK):
      g = m.find(K(i))
      try:
        got = ("val", d[K(i)])
      except KeyError:
        got = ("missing",)
      want = ("missing",) if g is None else ("val", g[0])
      if got[0] != want[0] or (got[0] == "val" and got[1] != want[1]):
        ctx.violation("fresh/%s/item" % kind, case, step=step, key=repr(K(i)),
                      got=repr(got), want=repr(want))
        return True
      if g is not None:
        if list(d.key2keys(K(i))) != list(g[1]):
          ctx.violation("fresh/%s/key2keys" % kind, case, step=step,
                        got=repr(d.key2keys(K(i))), want=repr(g[1]))
          return True
        if sd and getattr(d, K(i), None) != g[0]:
          ctx.violation("fresh/sd/attribute", case, step=step, name=K(i))
          return True
      elif sd and hasattr(d, K(i)):
        ctx.violation("fresh/sd/removed-name-still-an-attribute", case,
                      step=step, name=K(i))
        return True
    for j in range(NV):
      g = m.byvalue(V(j))
      if list(d.value2keys(V(j))) != (list(g[1]) if g else []):
        ctx.violation("fresh/%s/value2keys" % kind, case, step=step,
                      got=repr(d.value2keys(V(j))))
        return True
    if sd and m.default is not None:
      if d.default != m.default:
        ctx.violation("fresh/sd/default", case, step=step,
                      got=repr(d.default), want=repr(m.default))
        return True
  return True


def finish(ctx):
  ctx.need("fresh:mkd", 300)
  ctx.need("fresh:sd", 300)
  ctx.need("fresh-steps-compared", 5000)
