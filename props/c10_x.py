"""C10 extension family (second round of seeded changes):

longblock  blocks far longer than the usual test sizes (129..400 samples, small
           integers so that every sum is exact): acorr and lag_matrix must be
           the plain sums, and lpc.kautocor must satisfy the normal equations
           of that exact autocorrelation
exactld / exactauto / exactcov
           (audit round) every input sample a Fraction: nothing in the
           computation needs a float then, and the statement ends "in exact
           arithmetic all of these are equalities".  The returned coefficients
           and error are converted exactly and every normal equation / the
           error identity is tested with ``==``.  This class reaches what no
           tolerance can: reflection coefficients a hair inside the unit
           interval (1 - 1e-17), lags far outside the float range
           (1e-400, 1e+400), ill-conditioned blocks (binomial rows) - inputs on
           which a float recursion divides by zero, overflows or is off by
           orders of magnitude although the exact recursion is well defined.
"""
from fractions import Fraction

from math import comb

from audiolazy import acorr, lag_matrix, levinson_durbin, lpc

KINDS = ("longblock", "exactld", "exactauto", "exactcov")

HAIR = [Fraction(1, 10 ** 17), Fraction(1, 10 ** 30), Fraction(1, 2 ** 60)]
SCALE = [Fraction(1), Fraction(1), Fraction(1, 10 ** 400), Fraction(10 ** 400),
         Fraction(3, 7), Fraction(10 ** 18)]


def step_up(ks, r0):
  """Reflection coefficients -> lags r[0..p] (exact)."""
  a, r, err = [Fraction(1)], [Fraction(r0)], Fraction(r0)
  for m, k in enumerate(ks, 1):
    r.append(-(k * err + sum(a[j] * r[m - j] for j in range(1, m))))
    ext = a + [Fraction(0)]
    a = [ext[j] + k * ext[m - j] for j in range(m + 1)]
    err *= 1 - k * k
  return r


def exact_k(rng):
  t = rng.random()
  if t < 0.2:                       # a hair inside (-1, 1)
    return rng.choice([-1, 1]) * (1 - rng.choice(HAIR))
  if t < 0.3:
    return Fraction(0)
  d = rng.randint(2, 12)
  return Fraction(rng.randint(-(d - 1), d - 1), d)


def exact_block(rng):
  t = rng.random()
  if t < 0.15:                      # binomial rows: very ill conditioned
    n = rng.randint(4, 25)
    blk = [Fraction(comb(n - 1, k)) for k in range(n)]
  elif t < 0.3:
    n = rng.randint(2, 10)
    blk = [Fraction(1) + Fraction(rng.randint(-3, 3), 10 ** 12)
           for _ in range(n)]
  else:
    n = rng.randint(2, 9)
    blk = [Fraction(rng.randint(-9, 9), rng.randint(1, 7)) for _ in range(n)]
  s = rng.choice(SCALE)
  return [v * s for v in blk]


def cases(ctx):
  rng = ctx.rng
  for _ in ctx.loop(60, 3000):
    n = rng.choice([129, 130, 131, 200, 201, 255, 256, 257, rng.randint(129, 400)])
    x = [rng.randint(-4, 4) for _ in range(n)]
    yield ("longblock", x, rng.randint(0, 4), rng.randint(1, 3))
  for _ in ctx.loop(300, 20000):
    t = rng.random()
    if t < 0.4:
      p = rng.randint(1, 7)
      r = step_up([exact_k(rng) for _ in range(p)],
                  rng.choice(SCALE) * rng.randint(1, 9))
      yield ("exactld", r, rng.choice([None, p, max(1, p - 1), p + 2]))
    elif t < 0.7:
      blk = exact_block(rng)
      yield ("exactauto", blk, rng.randint(1, len(blk) + 1))
    else:
      blk = exact_block(rng)
      if len(blk) >= 3:
        yield ("exactcov", blk, rng.randint(1, (len(blk) - 1) // 2 or 1))


def exact_recursion_ok(r, p):
  """Does the exact Levinson recursion on r[0..p] run without dividing by
  zero, on a positive definite r (an autocorrelation sequence)?"""
  a, err = [Fraction(1)], r[0]
  for m in range(1, p + 1):
    if err <= 0:
      return False
    k = -sum(a[j] * r[m - j] for j in range(m)) / err
    if abs(k) >= 1 and m < p:
      return False
    ext = a + [Fraction(0)]
    a = [ext[j] + k * ext[m - j] for j in range(m + 1)]
    err = err * (1 - k * k)
  return True


def read_exact(filt, p):
  a = [Fraction(c) for c in filt.numerator]
  return a + [Fraction(0)] * (p + 1 - len(a)), Fraction(filt.error)


def judge_exact(ctx, case, tag, a, err, mat, p):
  """sum_j mat[i][j] a[j] == 0 (i = 1..p), err == sum_j mat[0][j] a[j]."""
  if a[0] != 1 or len(a) != p + 1:
    ctx.violation(tag + "/not-monic-of-order-p", case, a=[str(v) for v in a])
    return
  for i in range(1, p + 1):
    res = sum(mat[i][j] * a[j] for j in range(p + 1))
    if res != 0:
      ctx.violation(tag + "/normal-equation-is-not-an-equality", case, row=i,
                    residual=str(res) if res.denominator < 10 ** 30
                    else float(res), a=[float(v) for v in a])
      return
  ctx.count(tag + ":equalities-checked", p)
  want = sum(mat[0][j] * a[j] for j in range(p + 1))
  if err != want:
    ctx.violation(tag + "/error-is-not-the-exact-value", case,
                  error=float(err), want=float(want))


def run_exact(ctx, case):
  kind = case[0]
  if kind == "exactld":
    _, r, order = case
    p = len(r) - 1 if order is None else order
    r_ext = list(r) + [Fraction(0)] * (p + 1 - len(r))
    if not exact_recursion_ok(r_ext, p):
      ctx.count("exactld:not-judged/not-an-autocorrelation-or-divides-by-zero")
      return False
    try:
      filt = levinson_durbin(list(r)) if order is None else \
             levinson_durbin(list(r), order)
    except (ZeroDivisionError, OverflowError) as exc:
      ctx.violation("exactld/raises-though-the-exact-recursion-is-defined",
                    case, exc=type(exc).__name__)
      return True
    a, err = read_exact(filt, p)
    mat = [[r_ext[abs(i - j)] for j in range(p + 1)] for i in range(p + 1)]
    judge_exact(ctx, case, "exactld", a, err, mat, p)
    if any(abs(v) > 10 ** 300 or 0 < abs(v) < Fraction(1, 10 ** 300)
           for v in r):
      ctx.count("exactld:outside-the-float-range")
    return True
  _, blk, p = case
  n = len(blk)
  if kind == "exactauto":
    r = [sum(blk[i] * blk[i + t] for i in range(n - t)) if t < n else
         Fraction(0) for t in range(p + 1)]
    if not exact_recursion_ok(r, p):
      ctx.count("exactauto:not-judged/zero-block-or-divides-by-zero")
      return False
    try:
      filt = lpc.kautocor(list(blk), p)
    except (ZeroDivisionError, OverflowError) as exc:
      ctx.violation("exactauto/raises-though-the-exact-recursion-is-defined",
                    case, exc=type(exc).__name__)
      return True
    a, err = read_exact(filt, p)
    mat = [[r[abs(i - j)] for j in range(p + 1)] for i in range(p + 1)]
    judge_exact(ctx, case, "exactauto", a, err, mat, p)
    # the error is the energy of a convolved with the zero-extended block
    xpad = [Fraction(0)] * p + list(blk) + [Fraction(0)] * p
    energy = sum(sum(a[j] * xpad[p + m - j] for j in range(p + 1)) ** 2
                 for m in range(n + p))
    if err != energy:
      ctx.violation("exactauto/error-is-not-the-residual-energy", case,
                    error=float(err), energy=float(energy))
    return True
  # exactcov: "when it returns"
  if p >= n:
    return False
  try:
    filt = lpc.kcovar(list(blk), p)
  except (ZeroDivisionError, ValueError):
    ctx.count("exactcov:does-not-return")
    return False
  except OverflowError as exc:
    ctx.violation("exactcov/raises-OverflowError-on-exact-samples", case)
    return True
  phi = [[sum(blk[m - i] * blk[m - j] for m in range(p, n))
          for j in range(p + 1)] for i in range(p + 1)]
  a, err = read_exact(filt, p)
  judge_exact(ctx, case, "exactcov", a, err, phi, p)
  resid = sum(sum(a[j] * blk[m - j] for j in range(p + 1)) ** 2
              for m in range(p, n))
  if err != resid:
    ctx.violation("exactcov/error-is-not-the-residual-energy", case,
                  error=float(err), energy=float(resid))
  return True


def run_case(ctx, case):
  if case[0] != "longblock":
    return run_exact(ctx, case)
  _, x, max_lag, order = case
  n = len(x)
  want = [sum(x[i] * x[i + t] for i in range(n - t)) for t in range(max_lag + 1)]
  got = acorr(list(x), max_lag)
  ctx.count("long-blocks")
  if list(got) != want:
    ctx.violation("acorr/differs-from-plain-sums-on-a-long-block", case,
                  n=n, got=list(got), want=want)
    return True
  lm = lag_matrix(list(x), order)
  wantm = [[sum(x[m - i] * x[m - j] for m in range(order, n))
            for i in range(order + 1)] for j in range(order + 1)]
  if [list(r) for r in lm] != wantm:
    ctx.violation("lag_matrix/differs-from-plain-sums-on-a-long-block", case,
                  n=n)
    return True
  r = [sum(x[i] * x[i + t] for i in range(n - t)) for t in range(order + 1)]
  if r[0] == 0:
    return True
  try:
    filt = lpc.kautocor(list(x), order)
  except Exception:  # noqa - singular inputs are "does not return"
    return True
  a = [Fraction(c) for c in filt.numerator]
  a += [Fraction(0)] * (order + 1 - len(a))
  for i in range(1, order + 1):
    terms = [a[j] * r[abs(i - j)] for j in range(order + 1)]
    res, mag = abs(sum(terms)), sum(abs(t) for t in terms)
    ctx.err("longblock:normal-equations", float(res), float(1e-9 * mag))
    if res > Fraction(1, 10 ** 9) * mag:
      ctx.violation("kautocor/normal-equation-residual-on-a-long-block", case,
                    n=n, row=i, residual=float(res))
      return True
  return True


def finish(ctx):
  ctx.need("long-blocks", 40)
  ctx.need("exactld:equalities-checked", 100)
  ctx.need("exactauto:equalities-checked", 100)
  ctx.need("exactcov:equalities-checked", 50)
  ctx.need("exactld:outside-the-float-range", 5)
